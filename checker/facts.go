package main

// E3: guard facts by edge dominance, and CFG reachability helpers.

import (
	"fmt"
	"go/constant"
	"go/token"
	"go/types"
	"sort"
	"strings"

	"golang.org/x/tools/go/ssa"
)

// A Fact says: condition Cond evaluated to Pol on every path reaching the point.
type Fact struct {
	Cond ssa.Value
	Pol  bool
}

// normFact strips negations.
func normFact(c ssa.Value, pol bool) Fact {
	for {
		if u, ok := c.(*ssa.UnOp); ok && u.Op == token.NOT {
			c = u.X
			pol = !pol
			continue
		}
		break
	}
	return Fact{c, pol}
}

// assertsEq: the comparison b, taken with polarity pol, asserts that its operands are EQUAL
// (x == y held true, or x != y held false).
func assertsEq(b *ssa.BinOp, pol bool) bool {
	return (b.Op == token.EQL && pol) || (b.Op == token.NEQ && !pol)
}

// blockFacts returns the facts holding on entry to block b.
func blockFacts(b *ssa.BasicBlock) []Fact {
	if fs, ok := blockFactsMemo[b]; ok {
		return fs
	}
	if blockFactsBusy[b] {
		return nil // re-entered through a cycle: no facts (sound: facts only ever prune)
	}
	blockFactsBusy[b] = true
	fs := blockFactsS(b, map[Fact]bool{})
	delete(blockFactsBusy, b)
	blockFactsMemo[b] = fs
	return fs
}

var blockFactsMemo = map[*ssa.BasicBlock][]Fact{}
var blockFactsBusy = map[*ssa.BasicBlock]bool{}

func blockFactsS(b *ssa.BasicBlock, seen map[Fact]bool) []Fact {
	var out []Fact
	// Edge dominance, general form: for every dominator D of b that ends in an If,
	// if b cannot be reached from D's false successor without passing D again, the
	// last evaluation of D's condition before reaching b was true (and vice versa).
	for d := b.Idom(); d != nil; d = d.Idom() {
		if len(d.Instrs) == 0 {
			continue
		}
		ifi, ok := d.Instrs[len(d.Instrs)-1].(*ssa.If)
		if !ok || d.Succs[0] == d.Succs[1] {
			continue
		}
		fromT := d.Succs[0] == b || blockReachesAvoiding(d.Succs[0], b, d)
		fromF := d.Succs[1] == b || blockReachesAvoiding(d.Succs[1], b, d)
		switch {
		case fromT && !fromF:
			out = append(out, expandFactN(normFact(ifi.Cond, true), seen)...)
		case fromF && !fromT:
			out = append(out, expandFactN(normFact(ifi.Cond, false), seen)...)
		}
	}
	return out
}

// expandFact expands boolean phis (created by && / ||, or by a monotone flag
// such as `ok := true; if c { ok = false }`). Knowing the phi's value rules out
// every incoming edge that carries the opposite constant. If exactly one
// incoming edge remains feasible, control arrived through that predecessor:
// its block facts hold, the branch it took (if it ends in an If) is known, and
// a non-constant edge value has the phi's value.
func expandFact(f Fact) []Fact {
	return expandFactN(f, map[Fact]bool{})
}

func expandFactN(f Fact, seen map[Fact]bool) []Fact {
	out := []Fact{f}
	// a true value read from a memo table is the value that was computed for that key (memo.go)
	if f.Pol && !seen[f] {
		var lk *ssa.Lookup
		switch x := f.Cond.(type) {
		case *ssa.Lookup:
			lk = x
		case *ssa.Extract:
			if l, ok := x.Tuple.(*ssa.Lookup); ok && x.Index == 0 {
				lk = l
			}
		}
		if lk != nil {
			if mv := memoValue(lk); mv != nil {
				seen[f] = true
				return append(out, expandFactN(normFact(mv, true), seen)...)
			}
		}
	}
	phi, contradicts := phiFact(f)
	if phi == nil {
		return out
	}
	if seen[f] {
		return out
	}
	seen[f] = true
	var feasible []int
	for i := range phi.Edges {
		if !contradicts(i) {
			feasible = append(feasible, i)
		}
	}
	if len(feasible) == 0 || len(feasible) > 4 {
		return out
	}
	edgeFacts := func(i int, seen map[Fact]bool) []Fact {
		var fs []Fact
		e := phi.Edges[i]
		pred := phi.Block().Preds[i]
		if _, isPhiFact := f.Cond.(*ssa.Phi); isPhiFact {
			if _, isConst := e.(*ssa.Const); !isConst {
				fs = append(fs, expandFactN(normFact(e, f.Pol), seen)...)
			}
		}
		fs = append(fs, blockFactsS(pred, seen)...)
		if len(pred.Instrs) > 0 {
			if ifi, ok := pred.Instrs[len(pred.Instrs)-1].(*ssa.If); ok && pred.Succs[0] != pred.Succs[1] {
				fs = append(fs, expandFactN(normFact(ifi.Cond, pred.Succs[0] == phi.Block()), seen)...)
			}
		}
		return fs
	}
	if len(feasible) == 1 {
		return append(out, edgeFacts(feasible[0], seen)...)
	}
	// several feasible edges: what holds on all of them holds
	common := map[Fact]int{}
	var order []Fact
	for _, i := range feasible {
		mine := map[Fact]bool{}
		sub := map[Fact]bool{}
		for k, v := range seen {
			sub[k] = v
		}
		for _, g := range edgeFacts(i, sub) {
			if !mine[g] {
				mine[g] = true
				if common[g] == 0 {
					order = append(order, g)
				}
				common[g]++
			}
		}
	}
	for _, g := range order {
		if common[g] == len(feasible) {
			out = append(out, g)
		}
	}
	return out
}

// phiFact: when f speaks about a phi — the phi itself as a boolean, or phi == K / phi != K with
// a constant K (nil included) — it returns the phi and the test that rules incoming edge i out:
// the value flowing in is a constant that compares the other way, is known to be non-nil when nil
// is asserted, or is known — by a comparison that holds where it comes from — to compare the
// other way.
func phiFact(f Fact) (*ssa.Phi, func(i int) bool) {
	switch c := f.Cond.(type) {
	case *ssa.Phi:
		return c, func(i int) bool {
			e := c.Edges[i]
			if k, ok := e.(*ssa.Const); ok {
				return k.Value != nil && constString(k.Value) != boolStr(f.Pol)
			}
			for _, g := range edgeFactsOf(c, i) {
				if g.Cond == e && g.Pol != f.Pol {
					return true
				}
			}
			return false
		}
	case *ssa.BinOp:
		if c.Op == token.LSS || c.Op == token.LEQ || c.Op == token.GTR || c.Op == token.GEQ {
			// phi < K etc. with an integer constant K: an incoming integer constant that compares
			// the other way is ruled out
			var phi *ssa.Phi
			var kv int64
			var phiLeft, ok bool
			if p, isPhi := resolveLoad(c.X).(*ssa.Phi); isPhi {
				if kv, ok = intConst(c.Y); ok {
					phi, phiLeft = p, true
				}
			} else if p, isPhi := resolveLoad(c.Y).(*ssa.Phi); isPhi {
				if kv, ok = intConst(c.X); ok {
					phi, phiLeft = p, false
				}
			}
			if phi == nil {
				return nil, nil
			}
			return phi, func(i int) bool {
				ev, isC := intConst(phi.Edges[i])
				if !isC {
					return false
				}
				a, b := ev, kv
				if !phiLeft {
					a, b = kv, ev
				}
				var holds bool
				switch c.Op {
				case token.LSS:
					holds = a < b
				case token.LEQ:
					holds = a <= b
				case token.GTR:
					holds = a > b
				case token.GEQ:
					holds = a >= b
				}
				return holds != f.Pol
			}
		}
		if c.Op != token.EQL && c.Op != token.NEQ {
			return nil, nil
		}
		var phi *ssa.Phi
		var k *ssa.Const
		// (a variable that could not be lifted to a register — captured by a closure, say — is
		// seen through when the value just stored into it, in the same block, is the phi)
		if p, ok := resolveLoad(c.X).(*ssa.Phi); ok {
			phi, k = p, constOperand(c.Y)
		} else if p, ok := resolveLoad(c.Y).(*ssa.Phi); ok {
			phi, k = p, constOperand(c.X)
		}
		if phi == nil || k == nil {
			return nil, nil
		}
		wantEq := assertsEq(c, f.Pol)
		return phi, func(i int) bool {
			e := phi.Edges[i]
			if ek := constOperand(e); ek != nil {
				return sameConst(ek, k) != wantEq
			}
			if wantEq && k.IsNil() && knownNonNil(e) {
				return true
			}
			for _, g := range edgeFactsOf(phi, i) {
				gb, ok := g.Cond.(*ssa.BinOp)
				if !ok || (gb.Op != token.EQL && gb.Op != token.NEQ) {
					continue
				}
				var k2 *ssa.Const
				if gb.X == e {
					k2 = constOperand(gb.Y)
				} else if gb.Y == e {
					k2 = constOperand(gb.X)
				}
				if k2 != nil && sameConst(k, k2) && assertsEq(gb, g.Pol) != wantEq {
					return true
				}
			}
			return false
		}
	}
	return nil, nil
}

// resolveLoad: a load of a local whose most recent store, in the same block with nothing in
// between that could write it, is known — that stored value; v itself otherwise.
func resolveLoad(v ssa.Value) ssa.Value {
	if ld, ok := v.(*ssa.UnOp); ok && ld.Op == token.MUL {
		if a, ok := ld.X.(*ssa.Alloc); ok {
			if sv := lastStoreBefore(a, ld); sv != nil {
				return sv
			}
			// the one store that reaches the load on every path; its value must not be one that
			// is computed again (in a loop) between the store and the load
			if sv := reachingStore(a, ld); sv != nil {
				if in, isIn := sv.(ssa.Instruction); !isIn || in.Block() == nil || !inLoop(in.Block()) {
					return sv
				}
			}
		}
	}
	return v
}

// edgeFactsOf: what is known when control arrives at phi's block over its i-th incoming edge.
func edgeFactsOf(phi *ssa.Phi, i int) []Fact {
	pred := phi.Block().Preds[i]
	fs := append([]Fact{}, blockFacts(pred)...)
	if len(pred.Instrs) > 0 {
		if ifi, ok := pred.Instrs[len(pred.Instrs)-1].(*ssa.If); ok && pred.Succs[0] != pred.Succs[1] {
			fs = append(fs, normFact(ifi.Cond, pred.Succs[0] == phi.Block()))
		}
	}
	return fs
}

// deadEdges: the incoming edges of block b that the facts rule out. A fact about ANY phi of b
// that contradicts that phi's value on an edge rules the edge out for all phis of b (they are
// selected together).
func deadEdges(b *ssa.BasicBlock, facts []Fact) map[int]bool {
	dead := map[int]bool{}
	for _, f := range facts {
		p, contradicts := phiFact(f)
		if p == nil || p.Block() != b {
			continue
		}
		for i := range p.Edges {
			if contradicts(i) {
				dead[i] = true
			}
		}
	}
	return dead
}

// refine resolves a phi to the single incoming value the facts leave possible (v itself otherwise).
func refine(v ssa.Value, facts []Fact) ssa.Value {
	for depth := 0; depth < 4; depth++ {
		phi, ok := v.(*ssa.Phi)
		if !ok {
			return v
		}
		dead := deadEdges(phi.Block(), facts)
		alive := make([]bool, len(phi.Edges))
		for i := range alive {
			alive[i] = !dead[i]
		}
		var only ssa.Value
		n := 0
		for i, e := range phi.Edges {
			if alive[i] {
				only = e
				n++
			}
		}
		if n != 1 {
			return v
		}
		v = only
	}
	return v
}

// feasibleSuccs: successors of b when it was entered from pred. A block that branches on a
// condition about a phi of its own (the phi as a boolean, or phi ==/!= constant) takes only the
// matching edge when the value flowing in from pred decides it: jump threading. This prunes
// the infeasible paths that short-circuit lowering, result variables and merged error values create.
func feasibleSuccs(pred, b *ssa.BasicBlock) []*ssa.BasicBlock {
	if pred == nil || len(b.Instrs) == 0 {
		return b.Succs
	}
	ifi, ok := b.Instrs[len(b.Instrs)-1].(*ssa.If)
	if !ok || b.Succs[0] == b.Succs[1] {
		return b.Succs
	}
	idx := -1
	for i, p := range b.Preds {
		if p == pred {
			idx = i
		}
	}
	if idx < 0 {
		return b.Succs
	}
	for _, pol := range []bool{true, false} {
		phi, contradicts := phiFact(normFact(ifi.Cond, pol))
		if phi == nil || phi.Block() != b {
			return b.Succs
		}
		if contradicts(idx) {
			// the condition cannot have value pol on this edge: the other branch is taken
			if pol {
				return b.Succs[1:2]
			}
			return b.Succs[:1]
		}
	}
	return b.Succs
}

// threadFrom follows, from the edge pred→b, the blocks that only merge values and branch on
// them in a way the arrival edge decides; it returns the edge at which control really lands.
func threadFrom(pred, b *ssa.BasicBlock) (*ssa.BasicBlock, *ssa.BasicBlock) {
	for n := 0; n < 8; n++ {
		for _, in := range b.Instrs {
			switch in.(type) {
			case *ssa.Phi, *ssa.BinOp, *ssa.UnOp, *ssa.If, *ssa.DebugRef, *ssa.Convert, *ssa.ChangeType:
			default:
				return pred, b
			}
			if u, ok := in.(*ssa.UnOp); ok && u.Op != token.NOT {
				return pred, b
			}
		}
		fs := feasibleSuccs(pred, b)
		if len(fs) != 1 || len(b.Succs) != 2 {
			return pred, b
		}
		pred, b = b, fs[0]
	}
	return pred, b
}

// alternatives lists the values v can be at a point where facts hold: a phi is replaced by its
// incoming values that the facts do not rule out (recursively).
func alternatives(v ssa.Value, facts []Fact) []ssa.Value {
	var out []ssa.Value
	seen := map[ssa.Value]bool{}
	var add func(v ssa.Value, depth int)
	add = func(v ssa.Value, depth int) {
		if seen[v] {
			return
		}
		seen[v] = true
		phi, ok := v.(*ssa.Phi)
		if !ok || depth > 4 {
			out = append(out, v)
			return
		}
		dead := deadEdges(phi.Block(), facts)
		for i, e := range phi.Edges {
			if !dead[i] {
				add(e, depth+1)
			}
		}
	}
	add(v, 0)
	return out
}

func constOperand(v ssa.Value) *ssa.Const {
	for {
		switch x := v.(type) {
		case *ssa.Const:
			return x
		case *ssa.ChangeType:
			v = x.X
		case *ssa.MakeInterface:
			return nil
		default:
			return nil
		}
	}
}

func sameConst(a, b *ssa.Const) bool {
	if a.IsNil() || b.IsNil() {
		return a.IsNil() && b.IsNil()
	}
	if a.Value == nil || b.Value == nil {
		return a.Value == nil && b.Value == nil
	}
	return constant.Compare(a.Value, token.EQL, b.Value)
}

// knownNonNil: values that are never nil.
func knownNonNil(v ssa.Value) bool { return knownNonNilD(v, 0) }

func knownNonNilD(v ssa.Value, depth int) bool {
	if phi, ok := v.(*ssa.Phi); ok {
		// a merge of values each of which is known not to be nil
		if depth > 3 {
			return false
		}
		for _, e := range phi.Edges {
			if !knownNonNilD(e, depth+1) {
				return false
			}
		}
		return len(phi.Edges) > 0
	}
	switch x := v.(type) {
	case *ssa.Alloc, *ssa.MakeInterface, *ssa.MakeClosure, *ssa.MakeMap, *ssa.MakeSlice, *ssa.MakeChan, *ssa.FieldAddr, *ssa.IndexAddr, *ssa.Function, *ssa.Global:
		return true
	case *ssa.Call:
		n := calleeName(&x.Call)
		if n == "errors.New" || n == "fmt.Errorf" {
			return true
		}
		if f := x.Call.StaticCallee(); f != nil && f.Signature.Results().Len() == 1 {
			return returnsNonNil(f, 0)
		}
	case *ssa.ChangeType:
		return knownNonNil(x.X)
	case *ssa.UnOp:
		// a package-level error value such as errCorrupt: set once, by errors.New
		if g, ok := x.X.(*ssa.Global); ok && x.Op == token.MUL {
			if iv := globalSingleInit(g); iv != nil {
				return knownNonNil(iv)
			}
		}
	}
	return false
}

var returnsNonNilMemo = map[*ssa.Function]int{} // 1 yes, 2 no, 3 in progress

// returnsNonNil: every return of f yields a value that is never nil (a constructor such as
// content.Error, which wraps its argument in a fresh struct).
func returnsNonNil(f *ssa.Function, depth int) bool {
	switch returnsNonNilMemo[f] {
	case 1:
		return true
	case 2, 3:
		return false
	}
	if f.Blocks == nil || depth > 3 {
		return false
	}
	returnsNonNilMemo[f] = 3
	ok, n := true, 0
	for _, b := range f.Blocks {
		if ret, isRet := b.Instrs[len(b.Instrs)-1].(*ssa.Return); isRet && len(ret.Results) == 1 {
			n++
			if !knownNonNil(ret.Results[0]) {
				ok = false
			}
		}
	}
	ok = ok && n > 0
	if ok {
		returnsNonNilMemo[f] = 1
	} else {
		returnsNonNilMemo[f] = 2
	}
	return ok
}

func boolStr(b bool) string {
	if b {
		return "true"
	}
	return "false"
}

// factsAt returns the facts holding at instruction in.
func factsAt(in ssa.Instruction) []Fact {
	return blockFacts(in.Block())
}

// A factPred recognises a fact.
type factPred func(Fact) bool

func hasFact(fs []Fact, p factPred) bool {
	for _, f := range fs {
		if p(f) {
			return true
		}
	}
	return false
}

// callTrue: the condition is a call to callee (by canonical name) that returned want,
// with argsOK (optional) accepting the argument list (receiver excluded).
func callResultIs(callee string, want bool, argsOK func(args []ssa.Value, c *ssa.Call) bool) factPred {
	return func(f Fact) bool {
		c, ok := strip(f.Cond).(*ssa.Call)
		if !ok || f.Pol != want {
			return false
		}
		if calleeName(&c.Call) != callee {
			return false
		}
		return argsOK == nil || argsOK(callArgs(&c.Call), c)
	}
}

// errNilOf: fact "the error result (index idx) of call instruction `call` is nil".
func errNilOf(call ssa.Value) factPred {
	return func(f Fact) bool {
		b, ok := f.Cond.(*ssa.BinOp)
		if !ok {
			return false
		}
		var other ssa.Value
		if isNilConst(b.Y) {
			other = b.X
		} else if isNilConst(b.X) {
			other = b.Y
		} else {
			return false
		}
		if !isErrOf(other, call) {
			return false
		}
		return (b.Op == token.EQL && f.Pol) || (b.Op == token.NEQ && !f.Pol)
	}
}

// errNonNilOf: fact "the error result of `call` is non-nil".
func errNonNilOf(call ssa.Value) factPred {
	return func(f Fact) bool {
		b, ok := f.Cond.(*ssa.BinOp)
		if !ok {
			return false
		}
		var other ssa.Value
		if isNilConst(b.Y) {
			other = b.X
		} else if isNilConst(b.X) {
			other = b.Y
		} else {
			return false
		}
		if !isErrOf(other, call) {
			return false
		}
		return (b.Op == token.NEQ && f.Pol) || (b.Op == token.EQL && !f.Pol)
	}
}

// isErrOf reports whether v is the error-typed result of call (the call value
// itself for single-result calls, or an Extract of it), possibly through a
// single-store local.
func isErrOf(v, call ssa.Value) bool {
	v = strip(v)
	if u, ok := v.(*ssa.UnOp); ok && u.Op == token.MUL {
		if a, ok := u.X.(*ssa.Alloc); ok {
			if sv := singleStore(a); sv != nil {
				v = strip(sv)
			} else if sv := lastStoreBefore(a, u); sv != nil {
				v = strip(sv)
			}
		}
	}
	if v == call {
		return isErrorType(v.Type())
	}
	if e, ok := v.(*ssa.Extract); ok && e.Tuple == call {
		return isErrorType(e.Type())
	}
	return false
}

func isErrorType(t types.Type) bool {
	return types.Identical(t, types.Universe.Lookup("error").Type())
}

// strCmp: fact "value matching valOK compared with string constant k", giving
// (equal bool). Returns a predicate that holds if the fact establishes
// (val == k) == wantEq.
func strEq(valOK func(ssa.Value) bool, k string, wantEq bool) factPred {
	return func(f Fact) bool {
		b, ok := f.Cond.(*ssa.BinOp)
		if !ok || (b.Op != token.EQL && b.Op != token.NEQ) {
			return false
		}
		var val ssa.Value
		if c, ok := constOf(b.Y); ok && c == k && isStringy(b.Y.Type()) {
			val = b.X
		} else if c, ok := constOf(b.X); ok && c == k && isStringy(b.X.Type()) {
			val = b.Y
		} else {
			return false
		}
		if !valOK(val) {
			return false
		}
		eq := (b.Op == token.EQL) == f.Pol
		return eq == wantEq
	}
}

func isStringy(t types.Type) bool {
	b, ok := t.Underlying().(*types.Basic)
	return ok && b.Info()&types.IsString != 0
}

// ---- CFG reachability -------------------------------------------------

type instrPred func(ssa.Instruction) bool

// instrIndex returns the index of in within its block.
func instrIndex(in ssa.Instruction) int {
	for i, x := range in.Block().Instrs {
		if x == in {
			return i
		}
	}
	return -1
}

// reachesWithout reports whether, starting just after `from`, some instruction
// satisfying target is reachable along a CFG path on which no instruction
// satisfying blocker occurs before it. The witness is the target found.
func reachesWithout(from ssa.Instruction, target, blocker instrPred) ssa.Instruction {
	return walkWithout([]walkState{{nil, from.Block(), instrIndex(from) + 1}}, target, blocker)
}

type walkState struct {
	pred *ssa.BasicBlock
	b    *ssa.BasicBlock
	i    int
}

// walkWithout explores the (jump-threaded) CFG from the given states and returns the first
// target instruction reached on a path that passes no blocker.
func walkWithout(work []walkState, target, blocker instrPred) ssa.Instruction {
	// The walk carries, along each path, the truth values of the boolean merges it came
	// through (a result flag set to false on the exit taken, say): a later branch on such a
	// flag — or on its negation, or on a merge that copies it — takes only the matching edge.
	type key struct {
		pred, b *ssa.BasicBlock
		env     string
	}
	type state struct {
		walkState
		env map[ssa.Value]bool
	}
	sig := func(env map[ssa.Value]bool) string {
		if len(env) == 0 {
			return ""
		}
		var parts []string
		for v, t := range env {
			parts = append(parts, fmt.Sprintf("%s=%v", v.Name(), t))
		}
		sort.Strings(parts)
		return strings.Join(parts, ",")
	}
	var evalB func(v ssa.Value, env map[ssa.Value]bool, depth int) (bool, bool)
	evalB = func(v ssa.Value, env map[ssa.Value]bool, depth int) (bool, bool) {
		if depth > 4 {
			return false, false
		}
		if t, ok := env[v]; ok {
			return t, true
		}
		switch x := v.(type) {
		case *ssa.Const:
			if x.Value != nil && x.Value.Kind() == constant.Bool {
				return constant.BoolVal(x.Value), true
			}
		case *ssa.UnOp:
			if x.Op == token.NOT {
				if t, ok := evalB(x.X, env, depth+1); ok {
					return !t, true
				}
			}
		}
		return false, false
	}
	seen := map[key]bool{}
	var st []state
	for _, w := range work {
		st = append(st, state{w, nil})
	}
	for len(st) > 0 {
		s := st[len(st)-1]
		st = st[:len(st)-1]
		// values of this block's boolean merges on the edge we came over
		env := s.env
		if s.pred != nil {
			idx := -1
			for i, p := range s.b.Preds {
				if p == s.pred {
					idx = i
				}
			}
			if idx >= 0 {
				var upd map[ssa.Value]bool
				for _, in := range s.b.Instrs {
					phi, ok := in.(*ssa.Phi)
					if !ok {
						break
					}
					if !isBoolType(phi.Type()) {
						continue
					}
					if upd == nil {
						upd = map[ssa.Value]bool{}
						for k, v := range env {
							upd[k] = v
						}
					}
					if t, ok := evalB(phi.Edges[idx], env, 0); ok {
						upd[phi] = t
					} else {
						delete(upd, phi)
					}
				}
				if upd != nil {
					env = upd
				}
			}
		}
		blocked := false
		for i := s.i; i < len(s.b.Instrs); i++ {
			in := s.b.Instrs[i]
			if blocker != nil && blocker(in) {
				blocked = true
				break
			}
			if target(in) {
				return in
			}
		}
		if blocked {
			continue
		}
		succs := feasibleSuccs(s.pred, s.b)
		if ifi, ok := s.b.Instrs[len(s.b.Instrs)-1].(*ssa.If); ok && len(succs) == 2 && len(env) > 0 {
			if t, ok := evalB(ifi.Cond, env, 0); ok {
				if t {
					succs = s.b.Succs[:1]
				} else {
					succs = s.b.Succs[1:2]
				}
			}
		}
		if len(env) > 12 {
			env = nil // give up the history rather than blow up the state space
		}
		for _, succ := range succs {
			k := key{s.b, succ, sig(env)}
			if !seen[k] {
				seen[k] = true
				st = append(st, state{walkState{s.b, succ, 0}, env})
			}
		}
	}
	return nil
}

// entryReachesWithout is reachesWithout from the function entry.
func entryReachesWithout(fn *ssa.Function, target, blocker instrPred) ssa.Instruction {
	if len(fn.Blocks) == 0 {
		return nil
	}
	return walkWithout([]walkState{{nil, fn.Blocks[0], 0}}, target, blocker)
}

func isReturn(in ssa.Instruction) bool {
	_, ok := in.(*ssa.Return)
	return ok
}

// precedes: a occurs before b on every path (a's block dominates b's, or same block earlier).
func precedes(a, b ssa.Instruction) bool {
	if a.Block() == b.Block() {
		return instrIndex(a) < instrIndex(b)
	}
	return a.Block().Dominates(b.Block())
}

// inLoop reports whether block b lies on a CFG cycle.
func inLoop(b *ssa.BasicBlock) bool {
	seen := map[*ssa.BasicBlock]bool{}
	var work []*ssa.BasicBlock
	work = append(work, b.Succs...)
	for len(work) > 0 {
		x := work[len(work)-1]
		work = work[:len(work)-1]
		if x == b {
			return true
		}
		if seen[x] {
			continue
		}
		seen[x] = true
		work = append(work, x.Succs...)
	}
	return false
}

// lastStoreBefore: the value most recently stored into local a before the load ld,
// when that store is in the same block as ld and only pure instructions (no call
// that could write a) lie in between.
func lastStoreBefore(a *ssa.Alloc, ld *ssa.UnOp) ssa.Value {
	b := ld.Block()
	idx := instrIndex(ld)
	for i := idx - 1; i >= 0; i-- {
		switch x := b.Instrs[i].(type) {
		case *ssa.Store:
			if x.Addr == ssa.Value(a) {
				return x.Val
			}
		case ssa.CallInstruction:
			// a call may write a only if a's address escaped into it
			for _, arg := range x.Common().Args {
				if arg == ssa.Value(a) {
					return nil
				}
			}
			if _, isDefer := x.(*ssa.Defer); isDefer {
				continue
			}
			if mc, ok := x.Common().Value.(*ssa.MakeClosure); ok {
				for _, bnd := range mc.Bindings {
					if bnd == ssa.Value(a) {
						return nil
					}
				}
			}
		}
	}
	return nil
}

// An exitPath is one way of leaving a function: a Return together with one choice of incoming
// edge for every merge (phi) its results come from. Code that assembles its results in
// variables and returns once (as the expansion of a helper does) has one Return but several
// exit paths; rules about "the return taken when …" quantify over exit paths.
type exitPath struct {
	ret   *ssa.Return
	facts []Fact            // what holds on this path
	vals  []ssa.Value       // the result values on this path
	via   []*ssa.BasicBlock // the blocks the path is known to come through (the incoming edges chosen at merges)
}

// passes: instruction in is executed on every run of this exit path (it is in a block that
// dominates the Return or one of the blocks the path is known to come through).
func (p exitPath) passes(in ssa.Instruction) bool {
	if in.Block() == p.ret.Block() || in.Block().Dominates(p.ret.Block()) {
		return true
	}
	for _, b := range p.via {
		if in.Block() == b || in.Block().Dominates(b) {
			return true
		}
	}
	return false
}

func exitPaths(fn *ssa.Function) []exitPath {
	var out []exitPath
	var expand func(p exitPath, depth int)
	expand = func(p exitPath, depth int) {
		var phi *ssa.Phi
		for _, v := range p.vals {
			if ph, ok := v.(*ssa.Phi); ok && depth < 4 {
				phi = ph
				break
			}
		}
		if phi == nil {
			out = append(out, p)
			return
		}
		b := phi.Block()
		dead := deadEdges(b, p.facts)
		for j, pred := range b.Preds {
			if dead[j] {
				continue
			}
			q := exitPath{ret: p.ret, via: append(append([]*ssa.BasicBlock{}, p.via...), pred)}
			for _, v := range p.vals {
				if ph, ok := v.(*ssa.Phi); ok && ph.Block() == b {
					q.vals = append(q.vals, ph.Edges[j])
				} else {
					q.vals = append(q.vals, v)
				}
			}
			q.facts = append(append([]Fact{}, p.facts...), blockFacts(pred)...)
			if len(pred.Instrs) > 0 {
				if ifi, ok := pred.Instrs[len(pred.Instrs)-1].(*ssa.If); ok && pred.Succs[0] != pred.Succs[1] {
					q.facts = append(q.facts, expandFact(normFact(ifi.Cond, pred.Succs[0] == b))...)
				}
			}
			expand(q, depth+1)
		}
	}
	for _, b := range fn.Blocks {
		ret, ok := b.Instrs[len(b.Instrs)-1].(*ssa.Return)
		if !ok {
			continue
		}
		p := exitPath{ret: ret, facts: factsAt(ret)}
		for i := range ret.Results {
			v := resultStored(ret, i)
			if v == nil {
				v = ret.Results[i]
			}
			p.vals = append(p.vals, v)
		}
		expand(p, 0)
	}
	return out
}

// factCases splits what is known at a point into cases when a fact about a merged value (phi)
// leaves several incoming edges possible: one fact set per edge, each extended with what holds
// on that edge. A rule that needs "on every path that gets here, X" checks X in every case.
func factCases(facts []Fact) [][]Fact {
	var split func(fs []Fact, done map[*ssa.Phi]bool, depth int) [][]Fact
	split = func(fs []Fact, done map[*ssa.Phi]bool, depth int) [][]Fact {
		if depth < 3 {
			for _, f := range fs {
				phi, contradicts := phiFact(f)
				if phi == nil || done[phi] {
					continue
				}
				var feasible []int
				for i := range phi.Edges {
					if !contradicts(i) {
						feasible = append(feasible, i)
					}
				}
				if len(feasible) < 2 || len(feasible) > 4 {
					continue
				}
				done2 := map[*ssa.Phi]bool{phi: true}
				for k := range done {
					done2[k] = true
				}
				var out [][]Fact
				for _, i := range feasible {
					c := append([]Fact{}, fs...)
					for _, g := range edgeFactsOf(phi, i) {
						c = append(c, expandFact(g)...)
					}
					out = append(out, split(c, done2, depth+1)...)
				}
				return out
			}
		}
		return [][]Fact{fs}
	}
	return split(facts, map[*ssa.Phi]bool{}, 0)
}

// copyOrigins: the local variables whose value the local a holds at a point where facts hold:
// a itself, or — when a is stored exactly once and every value that store can carry on the
// paths reaching the point is a load of another local — those locals (a struct returned by
// value from an expanded helper is such a copy).
func copyOrigins(a *ssa.Alloc, facts []Fact) []*ssa.Alloc {
	seen := map[*ssa.Alloc]bool{}
	var walk func(x *ssa.Alloc, depth int) []*ssa.Alloc
	walk = func(x *ssa.Alloc, depth int) []*ssa.Alloc {
		if seen[x] || depth > 3 {
			return []*ssa.Alloc{x}
		}
		seen[x] = true
		sv := singleStore(x)
		if sv == nil {
			return []*ssa.Alloc{x}
		}
		var out []*ssa.Alloc
		for _, alt := range alternatives(sv, facts) {
			ld, ok := strip(alt).(*ssa.UnOp)
			if !ok || ld.Op != token.MUL {
				return []*ssa.Alloc{x}
			}
			src, ok := ld.X.(*ssa.Alloc)
			if !ok {
				return []*ssa.Alloc{x}
			}
			out = append(out, walk(src, depth+1)...)
		}
		if len(out) == 0 {
			return []*ssa.Alloc{x}
		}
		return out
	}
	return walk(a, 0)
}

// reachingStore: the value that local variable a holds at instruction `at`, when ONE store
// instruction is the last write to a on every path from the function's entry to `at`. The
// variable's address may be taken only by loads, stores, read-only captures, and by closures
// that are run by a defer (they run after `at` unless `at` is past the RunDefers). nil if the
// variable may be written otherwise, if no store or several stores reach, or if a path
// reaches `at` without any store.
func reachingStore(a *ssa.Alloc, at ssa.Instruction) ssa.Value {
	if a.Parent() != at.Parent() {
		return nil
	}
	deferredOnly := func(mc *ssa.MakeClosure) bool {
		for _, r := range *mc.Referrers() {
			switch u := r.(type) {
			case *ssa.Defer:
				if u.Call.Value != ssa.Value(mc) {
					return false
				}
			case *ssa.DebugRef:
			default:
				return false
			}
		}
		return true
	}
	var writers []ssa.Instruction // instructions other than direct stores that may write a
	for _, r := range *a.Referrers() {
		switch u := r.(type) {
		case *ssa.Store:
			if u.Addr != ssa.Value(a) {
				return nil // the address itself is stored somewhere
			}
		case *ssa.UnOp, *ssa.DebugRef:
		case *ssa.MakeClosure:
			for i, b := range u.Bindings {
				if b == ssa.Value(a) && !onlyRead(u.Fn.(*ssa.Function).FreeVars[i], 0) {
					if !deferredOnly(u) {
						return nil
					}
				}
			}
		case *ssa.FieldAddr, *ssa.IndexAddr:
			for _, r2 := range *u.(ssa.Value).Referrers() {
				switch l := r2.(type) {
				case *ssa.UnOp:
					if l.Op != token.MUL {
						return nil
					}
				case *ssa.DebugRef:
				default:
					return nil
				}
			}
		default:
			return nil
		}
	}
	_ = writers
	// deferred closures that write a run at RunDefers: a load after that point is not resolved
	for i := instrIndex(at) - 1; i >= 0; i-- {
		if _, isRD := at.Block().Instrs[i].(*ssa.RunDefers); isRD {
			return nil
		}
	}
	var found *ssa.Store
	seen := map[*ssa.BasicBlock]bool{}
	ok := true
	var walk func(b *ssa.BasicBlock, from int)
	walk = func(b *ssa.BasicBlock, from int) {
		if !ok {
			return
		}
		for i := from; i >= 0; i-- {
			switch x := b.Instrs[i].(type) {
			case *ssa.Store:
				if x.Addr == ssa.Value(a) {
					if found != nil && found != x {
						ok = false
					}
					found = x
					return
				}
			case *ssa.RunDefers:
				ok = false
				return
			}
		}
		if len(b.Preds) == 0 {
			ok = false // reaches the entry without a store: the zero value
			return
		}
		for _, p := range b.Preds {
			if !seen[p] {
				seen[p] = true
				walk(p, len(p.Instrs)-1)
			}
		}
	}
	walk(at.Block(), instrIndex(at)-1)
	if !ok || found == nil {
		return nil
	}
	return found.Val
}

// ---- package-level variables that are set once, by their initialiser -----------------------

var pkgAllFuncsMemo = map[*ssa.Package][]*ssa.Function{}

// pkgAllFuncs: every function with a body that belongs to package p (functions, methods,
// function literals, the package initialiser).
func pkgAllFuncs(p *ssa.Package) []*ssa.Function {
	if fs, ok := pkgAllFuncsMemo[p]; ok {
		return fs
	}
	seen := map[*ssa.Function]bool{}
	var out []*ssa.Function
	var add func(f *ssa.Function)
	add = func(f *ssa.Function) {
		if f == nil || seen[f] || f.Blocks == nil {
			return
		}
		seen[f] = true
		out = append(out, f)
		for _, a := range f.AnonFuncs {
			add(a)
		}
	}
	for _, mem := range p.Members {
		switch x := mem.(type) {
		case *ssa.Function:
			add(x)
		case *ssa.Type:
			for _, t := range []types.Type{x.Type(), types.NewPointer(x.Type())} {
				ms := p.Prog.MethodSets.MethodSet(t)
				for i := 0; i < ms.Len(); i++ {
					if f := p.Prog.MethodValue(ms.At(i)); f != nil && f.Pkg == p {
						add(f)
					}
				}
			}
		}
	}
	pkgAllFuncsMemo[p] = out
	return out
}

var globalInitMemo = map[*ssa.Global]ssa.Value{}
var globalInitDone = map[*ssa.Global]bool{}

// globalSingleInit: the value the package-level variable g is initialised with, when that
// store (in the package initialiser) is the only one in g's package and g's address is used
// for nothing but loads and that store. An unexported variable cannot be written elsewhere.
func globalSingleInit(g *ssa.Global) ssa.Value {
	if globalInitDone[g] {
		return globalInitMemo[g]
	}
	globalInitDone[g] = true
	if g.Pkg == nil || g.Object() == nil || g.Object().Exported() {
		return nil
	}
	var val ssa.Value
	n := 0
	for _, f := range pkgAllFuncs(g.Pkg) {
		for _, b := range f.Blocks {
			for _, in := range b.Instrs {
				for _, op := range in.Operands(nil) {
					if *op != ssa.Value(g) {
						continue
					}
					switch x := in.(type) {
					case *ssa.Store:
						if x.Addr == ssa.Value(g) && x.Val != ssa.Value(g) && f.Name() == "init" && f.Parent() == nil {
							n++
							val = x.Val
						} else {
							return nil
						}
					case *ssa.UnOp:
						if x.Op != token.MUL {
							return nil
						}
					case *ssa.DebugRef:
					default:
						return nil
					}
				}
			}
		}
	}
	if n == 1 {
		globalInitMemo[g] = val
		return val
	}
	return nil
}

// reachingFieldStore: the value field fa.Field of the local struct variable a (fa.X == a) holds
// at instruction `at`, when ONE store to that field is the last write to it on every path from
// the entry — a store to the whole variable (a struct copy) counts as a write of unknown value.
// The variable may be used only through loads, stores and field addresses that are loaded/stored.
func reachingFieldStore(a *ssa.Alloc, field int, at ssa.Instruction) ssa.Value {
	if a.Parent() != at.Parent() {
		return nil
	}
	isFieldStore := map[ssa.Instruction]ssa.Value{}
	isKill := map[ssa.Instruction]bool{}
	laterEscape := func(e ssa.Instruction) bool {
		// the variable's address goes somewhere (&x appended to a list, say). Harmless when that
		// happens only after `at` for the object at hand: `at` comes first, and from the escape
		// `at` is reached again only through the allocation (a new object per iteration)
		if !precedes(at, e) {
			return false
		}
		return reachesWithout(e, func(x ssa.Instruction) bool { return x == at }, func(x ssa.Instruction) bool { return x == ssa.Instruction(a) }) == nil
	}
	for _, r := range *a.Referrers() {
		switch u := r.(type) {
		case *ssa.Store:
			if u.Addr != ssa.Value(a) {
				if !laterEscape(u) {
					return nil
				}
				continue
			}
			isKill[u] = true
		case *ssa.UnOp, *ssa.DebugRef:
		case *ssa.FieldAddr:
			for _, r2 := range *u.Referrers() {
				switch s := r2.(type) {
				case *ssa.Store:
					if s.Addr != ssa.Value(u) {
						return nil
					}
					if u.Field == field {
						isFieldStore[s] = s.Val
					}
				case *ssa.UnOp:
					if s.Op != token.MUL {
						return nil
					}
				case *ssa.DebugRef:
				default:
					if u.Field == field {
						return nil // the field's address goes somewhere else
					}
				}
			}
		default:
			// the variable's address goes somewhere (&x appended to a list, say). Harmless when
			// that happens only after `at` for the object at hand: `at` comes first, and from the
			// escape `at` is reached again only through the allocation (a new object per iteration)
			e, isIn := r.(ssa.Instruction)
			if !isIn || !laterEscape(e) {
				return nil
			}
		}
	}
	var found ssa.Instruction
	seen := map[*ssa.BasicBlock]bool{}
	ok := true
	var walk func(b *ssa.BasicBlock, from int)
	walk = func(b *ssa.BasicBlock, from int) {
		if !ok {
			return
		}
		for i := from; i >= 0; i-- {
			in := b.Instrs[i]
			if isKill[in] {
				ok = false
				return
			}
			if _, is := isFieldStore[in]; is {
				if found != nil && found != in {
					ok = false
				}
				found = in
				return
			}
		}
		if len(b.Preds) == 0 {
			ok = false
			return
		}
		for _, p := range b.Preds {
			if !seen[p] {
				seen[p] = true
				walk(p, len(p.Instrs)-1)
			}
		}
	}
	walk(at.Block(), instrIndex(at)-1)
	if !ok || found == nil {
		return nil
	}
	return isFieldStore[found]
}
