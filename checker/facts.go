package main

// E3: guard facts by edge dominance, and CFG reachability helpers.

import (
	"go/token"
	"go/types"

	"golang.org/x/tools/go/ssa"
)

// A Fact says: condition Cond evaluated to Pol on every path reaching the point.
type Fact struct {
	Cond ssa.Value
	Pol  bool
}

// normFact strips negations.
func normFact(c ssa.Value, pol bool) Fact {
	for {
		if u, ok := c.(*ssa.UnOp); ok && u.Op == token.NOT {
			c = u.X
			pol = !pol
			continue
		}
		break
	}
	return Fact{c, pol}
}

// assertsEq: the comparison b, taken with polarity pol, asserts that its operands are EQUAL
// (x == y held true, or x != y held false).
func assertsEq(b *ssa.BinOp, pol bool) bool {
	return (b.Op == token.EQL && pol) || (b.Op == token.NEQ && !pol)
}

// blockFacts returns the facts holding on entry to block b.
func blockFacts(b *ssa.BasicBlock) []Fact {
	return blockFactsS(b, map[Fact]bool{})
}

func blockFactsS(b *ssa.BasicBlock, seen map[Fact]bool) []Fact {
	var out []Fact
	// Edge dominance, general form: for every dominator D of b that ends in an If,
	// if b cannot be reached from D's false successor without passing D again, the
	// last evaluation of D's condition before reaching b was true (and vice versa).
	for d := b.Idom(); d != nil; d = d.Idom() {
		if len(d.Instrs) == 0 {
			continue
		}
		ifi, ok := d.Instrs[len(d.Instrs)-1].(*ssa.If)
		if !ok || d.Succs[0] == d.Succs[1] {
			continue
		}
		fromT := d.Succs[0] == b || blockReachesAvoiding(d.Succs[0], b, d)
		fromF := d.Succs[1] == b || blockReachesAvoiding(d.Succs[1], b, d)
		switch {
		case fromT && !fromF:
			out = append(out, expandFactN(normFact(ifi.Cond, true), seen)...)
		case fromF && !fromT:
			out = append(out, expandFactN(normFact(ifi.Cond, false), seen)...)
		}
	}
	return out
}

// expandFact expands boolean phis (created by && / ||, or by a monotone flag
// such as `ok := true; if c { ok = false }`). Knowing the phi's value rules out
// every incoming edge that carries the opposite constant. If exactly one
// incoming edge remains feasible, control arrived through that predecessor:
// its block facts hold, the branch it took (if it ends in an If) is known, and
// a non-constant edge value has the phi's value.
func expandFact(f Fact) []Fact {
	return expandFactN(f, map[Fact]bool{})
}

func expandFactN(f Fact, seen map[Fact]bool) []Fact {
	out := []Fact{f}
	phi, ok := f.Cond.(*ssa.Phi)
	if !ok || seen[f] {
		return out
	}
	seen[f] = true
	feasible := -1
	n := 0
	for i, e := range phi.Edges {
		if c, ok := e.(*ssa.Const); ok && c.Value != nil && constString(c.Value) != boolStr(f.Pol) {
			continue // this edge carries the opposite constant
		}
		feasible = i
		n++
	}
	if n != 1 {
		return out
	}
	e := phi.Edges[feasible]
	pred := phi.Block().Preds[feasible]
	if _, isConst := e.(*ssa.Const); !isConst {
		out = append(out, expandFactN(normFact(e, f.Pol), seen)...)
	}
	out = append(out, blockFactsS(pred, seen)...)
	if len(pred.Instrs) > 0 {
		if ifi, ok := pred.Instrs[len(pred.Instrs)-1].(*ssa.If); ok && pred.Succs[0] != pred.Succs[1] {
			out = append(out, expandFactN(normFact(ifi.Cond, pred.Succs[0] == phi.Block()), seen)...)
		}
	}
	return out
}

func boolStr(b bool) string {
	if b {
		return "true"
	}
	return "false"
}

// factsAt returns the facts holding at instruction in.
func factsAt(in ssa.Instruction) []Fact {
	return blockFacts(in.Block())
}

// A factPred recognises a fact.
type factPred func(Fact) bool

func hasFact(fs []Fact, p factPred) bool {
	for _, f := range fs {
		if p(f) {
			return true
		}
	}
	return false
}

// callTrue: the condition is a call to callee (by canonical name) that returned want,
// with argsOK (optional) accepting the argument list (receiver excluded).
func callResultIs(callee string, want bool, argsOK func(args []ssa.Value, c *ssa.Call) bool) factPred {
	return func(f Fact) bool {
		c, ok := strip(f.Cond).(*ssa.Call)
		if !ok || f.Pol != want {
			return false
		}
		if calleeName(&c.Call) != callee {
			return false
		}
		return argsOK == nil || argsOK(callArgs(&c.Call), c)
	}
}

// errNilOf: fact "the error result (index idx) of call instruction `call` is nil".
func errNilOf(call ssa.Value) factPred {
	return func(f Fact) bool {
		b, ok := f.Cond.(*ssa.BinOp)
		if !ok {
			return false
		}
		var other ssa.Value
		if isNilConst(b.Y) {
			other = b.X
		} else if isNilConst(b.X) {
			other = b.Y
		} else {
			return false
		}
		if !isErrOf(other, call) {
			return false
		}
		return (b.Op == token.EQL && f.Pol) || (b.Op == token.NEQ && !f.Pol)
	}
}

// errNonNilOf: fact "the error result of `call` is non-nil".
func errNonNilOf(call ssa.Value) factPred {
	return func(f Fact) bool {
		b, ok := f.Cond.(*ssa.BinOp)
		if !ok {
			return false
		}
		var other ssa.Value
		if isNilConst(b.Y) {
			other = b.X
		} else if isNilConst(b.X) {
			other = b.Y
		} else {
			return false
		}
		if !isErrOf(other, call) {
			return false
		}
		return (b.Op == token.NEQ && f.Pol) || (b.Op == token.EQL && !f.Pol)
	}
}

// isErrOf reports whether v is the error-typed result of call (the call value
// itself for single-result calls, or an Extract of it), possibly through a
// single-store local.
func isErrOf(v, call ssa.Value) bool {
	v = strip(v)
	if u, ok := v.(*ssa.UnOp); ok && u.Op == token.MUL {
		if a, ok := u.X.(*ssa.Alloc); ok {
			if sv := singleStore(a); sv != nil {
				v = strip(sv)
			} else if sv := lastStoreBefore(a, u); sv != nil {
				v = strip(sv)
			}
		}
	}
	if v == call {
		return isErrorType(v.Type())
	}
	if e, ok := v.(*ssa.Extract); ok && e.Tuple == call {
		return isErrorType(e.Type())
	}
	return false
}

func isErrorType(t types.Type) bool {
	return types.Identical(t, types.Universe.Lookup("error").Type())
}

// strCmp: fact "value matching valOK compared with string constant k", giving
// (equal bool). Returns a predicate that holds if the fact establishes
// (val == k) == wantEq.
func strEq(valOK func(ssa.Value) bool, k string, wantEq bool) factPred {
	return func(f Fact) bool {
		b, ok := f.Cond.(*ssa.BinOp)
		if !ok || (b.Op != token.EQL && b.Op != token.NEQ) {
			return false
		}
		var val ssa.Value
		if c, ok := constOf(b.Y); ok && c == k && isStringy(b.Y.Type()) {
			val = b.X
		} else if c, ok := constOf(b.X); ok && c == k && isStringy(b.X.Type()) {
			val = b.Y
		} else {
			return false
		}
		if !valOK(val) {
			return false
		}
		eq := (b.Op == token.EQL) == f.Pol
		return eq == wantEq
	}
}

func isStringy(t types.Type) bool {
	b, ok := t.Underlying().(*types.Basic)
	return ok && b.Info()&types.IsString != 0
}

// ---- CFG reachability -------------------------------------------------

type instrPred func(ssa.Instruction) bool

// instrIndex returns the index of in within its block.
func instrIndex(in ssa.Instruction) int {
	for i, x := range in.Block().Instrs {
		if x == in {
			return i
		}
	}
	return -1
}

// reachesWithout reports whether, starting just after `from`, some instruction
// satisfying target is reachable along a CFG path on which no instruction
// satisfying blocker occurs before it. The witness is the target found.
func reachesWithout(from ssa.Instruction, target, blocker instrPred) ssa.Instruction {
	type st struct {
		b *ssa.BasicBlock
		i int
	}
	seen := map[*ssa.BasicBlock]bool{}
	var work []st
	work = append(work, st{from.Block(), instrIndex(from) + 1})
	for len(work) > 0 {
		s := work[len(work)-1]
		work = work[:len(work)-1]
		blocked := false
		for i := s.i; i < len(s.b.Instrs); i++ {
			in := s.b.Instrs[i]
			if blocker != nil && blocker(in) {
				blocked = true
				break
			}
			if target(in) {
				return in
			}
		}
		if blocked {
			continue
		}
		for _, succ := range s.b.Succs {
			if !seen[succ] {
				seen[succ] = true
				work = append(work, st{succ, 0})
			}
		}
	}
	return nil
}

// entryReachesWithout is reachesWithout from the function entry.
func entryReachesWithout(fn *ssa.Function, target, blocker instrPred) ssa.Instruction {
	if len(fn.Blocks) == 0 {
		return nil
	}
	type st struct{ b *ssa.BasicBlock }
	seen := map[*ssa.BasicBlock]bool{fn.Blocks[0]: true}
	work := []*ssa.BasicBlock{fn.Blocks[0]}
	for len(work) > 0 {
		b := work[len(work)-1]
		work = work[:len(work)-1]
		blocked := false
		for _, in := range b.Instrs {
			if blocker != nil && blocker(in) {
				blocked = true
				break
			}
			if target(in) {
				return in
			}
		}
		if blocked {
			continue
		}
		for _, s := range b.Succs {
			if !seen[s] {
				seen[s] = true
				work = append(work, s)
			}
		}
	}
	return nil
}

func isReturn(in ssa.Instruction) bool {
	_, ok := in.(*ssa.Return)
	return ok
}

// precedes: a occurs before b on every path (a's block dominates b's, or same block earlier).
func precedes(a, b ssa.Instruction) bool {
	if a.Block() == b.Block() {
		return instrIndex(a) < instrIndex(b)
	}
	return a.Block().Dominates(b.Block())
}

// inLoop reports whether block b lies on a CFG cycle.
func inLoop(b *ssa.BasicBlock) bool {
	seen := map[*ssa.BasicBlock]bool{}
	var work []*ssa.BasicBlock
	work = append(work, b.Succs...)
	for len(work) > 0 {
		x := work[len(work)-1]
		work = work[:len(work)-1]
		if x == b {
			return true
		}
		if seen[x] {
			continue
		}
		seen[x] = true
		work = append(work, x.Succs...)
	}
	return false
}

// lastStoreBefore: the value most recently stored into local a before the load ld,
// when that store is in the same block as ld and only pure instructions (no call
// that could write a) lie in between.
func lastStoreBefore(a *ssa.Alloc, ld *ssa.UnOp) ssa.Value {
	b := ld.Block()
	idx := instrIndex(ld)
	for i := idx - 1; i >= 0; i-- {
		switch x := b.Instrs[i].(type) {
		case *ssa.Store:
			if x.Addr == ssa.Value(a) {
				return x.Val
			}
		case ssa.CallInstruction:
			// a call may write a only if a's address escaped into it
			for _, arg := range x.Common().Args {
				if arg == ssa.Value(a) {
					return nil
				}
			}
			if _, isDefer := x.(*ssa.Defer); isDefer {
				continue
			}
			if mc, ok := x.Common().Value.(*ssa.MakeClosure); ok {
				for _, bnd := range mc.Bindings {
					if bnd == ssa.Value(a) {
						return nil
					}
				}
			}
		}
	}
	return nil
}
