package main

// E9 obligations: every index, slice and widened unsafe access in a set of
// functions must be entailed in range by the dominating guards.

import (
	"fmt"
	"go/token"
	"go/types"
	"strings"

	"golang.org/x/tools/go/ssa"
)

// accessWidth: if the address ia (of a byte) is cast through unsafe.Pointer to
// *T, returns sizeof(T) for the widest such cast (1 otherwise).
func accessWidth(ia *ssa.IndexAddr) int64 {
	w := int64(1)
	for _, u := range referrers(ia) {
		cv, ok := u.(*ssa.Convert)
		if !ok || cv.Type().String() != "unsafe.Pointer" {
			continue
		}
		for _, u2 := range referrers(cv) {
			cv2, ok := u2.(*ssa.Convert)
			if !ok {
				continue
			}
			if pt, ok := cv2.Type().Underlying().(*types.Pointer); ok {
				sz := sizeofType(pt.Elem())
				if sz > w {
					w = sz
				}
			}
		}
	}
	return w
}

func sizeofType(t types.Type) int64 {
	s := types.SizesFor("gc", "amd64")
	return s.Sizeof(t)
}

// boundsObligations checks all index/slice operations of fn. keyOf names the
// function in obligation keys.
// boundsTable maps "function/kind" prefixes of obligation keys to a one-line reason for
// which the obligation is accepted without entailment (library contract or recovered).
type boundsTable map[string]string

func boundsObligations(r *Report, m *Module, rule string, fn *ssa.Function, skip func(ssa.Instruction) (bool, string)) int {
	return boundsObligationsT(r, m, rule, fn, nil)
}

func boundsObligationsT(r *Report, m *Module, rule string, fn *ssa.Function, table boundsTable) int {
	var skip func(ssa.Instruction) (bool, string)
	n := 0
	fkey := fname(fn)
	inner := r
	r = &Report{}
	defer func() {
		for _, o := range r.Obls {
			if !o.OK {
				for prefix, reason := range table {
					if strings.HasPrefix(o.Key, rule+"/"+prefix) {
						o.OK = true
						o.Detail = "tabled: " + reason + " [" + o.Detail + "]"
						break
					}
				}
			}
			o.Config = inner.curConfig
			inner.Obls = append(inner.Obls, o)
		}
	}()
	for _, b := range fn.Blocks {
		for _, in := range b.Instrs {
			switch x := in.(type) {
			case *ssa.IndexAddr:
				p := newProver().at(in)
				idx := p.norm(x.Index)
				ln := p.lenOf(x.X)
				w := accessWidth(x)
				facts := p.factsLinAt(x)
				// 0 ≤ idx  and idx + w ≤ len
				ok1, why1 := p.prove(idx, facts)
				ok2, why2 := p.prove(ln.add(idx, -1).add(linConst(w), -1), facts)
				desc := fmt.Sprintf("%s[%s]", describe(x.X), describe(x.Index))
				if w > 1 {
					desc = fmt.Sprintf("%d-byte access at &%s", w, desc)
				}
				n++
				key := fkey + "/index " + shortDesc(desc)
				if skip != nil {
					if sk, reason := skip(x); sk {
						r.Check(rule, key, m.Pos(x.Pos()), true, "tabled: "+reason)
						continue
					}
				}
				r.Check(rule, key, m.Pos(x.Pos()), ok1 && ok2,
					fmt.Sprintf("need 0 ≤ i and i+%d ≤ len: lower bound %s; upper bound %s", w, why1, why2))
			case *ssa.Index:
				p := newProver().at(in)
				idx := p.norm(x.Index)
				ln := p.lenOf(x.X)
				facts := p.factsLinAt(x)
				ok1, why1 := p.prove(idx, facts)
				ok2, why2 := p.prove(ln.add(idx, -1).add(linConst(1), -1), facts)
				n++
				r.Check(rule, fkey+"/index "+shortDesc(describe(x.X)+"["+describe(x.Index)+"]"), m.Pos(x.Pos()), ok1 && ok2, "lower: "+why1+"; upper: "+why2)
			case *ssa.Lookup:
				if _, isMap := x.X.Type().Underlying().(*types.Map); isMap {
					continue
				}
				p := newProver().at(in)
				idx := p.norm(x.Index)
				ln := p.lenOf(x.X)
				facts := p.factsLinAt(x)
				ok1, why1 := p.prove(idx, facts)
				ok2, why2 := p.prove(ln.add(idx, -1).add(linConst(1), -1), facts)
				n++
				r.Check(rule, fkey+"/index "+shortDesc(describe(x.X)+"["+describe(x.Index)+"]"), m.Pos(x.Pos()), ok1 && ok2, "string index: lower: "+why1+"; upper: "+why2)
			case *ssa.Slice:
				if _, isArrPtr := x.X.Type().Underlying().(*types.Pointer); isArrPtr && x.Low == nil && x.High == nil {
					continue // arr[:] is always in range
				}
				p := newProver().at(in)
				lo := linConst(0)
				if x.Low != nil {
					lo = p.norm(x.Low)
				}
				ln := p.lenOf(x.X)
				hi := ln
				if x.High != nil {
					hi = p.norm(x.High)
				}
				facts := p.factsLinAt(x)
				ok1, why1 := p.prove(lo, facts)
				ok2, why2 := p.prove(hi.add(lo, -1), facts)
				ok3, why3 := true, "hi is len"
				if x.High != nil {
					ok3, why3 = p.prove(ln.add(hi, -1), facts)
				}
				n++
				d := describe(x)
				r.Check(rule, fkey+"/slice "+shortDesc(d), m.Pos(x.Pos()), ok1 && ok2 && ok3,
					fmt.Sprintf("need 0 ≤ lo ≤ hi ≤ len: lo≥0 %s; lo≤hi %s; hi≤len %s", why1, why2, why3))
			case *ssa.BinOp:
				if (x.Op == token.QUO || x.Op == token.REM) && isInteger(x.Type()) {
					if c, isC := intConst(x.Y); isC && c != 0 {
						continue
					}
					p := newProver().at(in)
					d := p.norm(x.Y)
					facts := p.factsLinAt(x)
					ok1, why := p.prove(d.add(linConst(1), -1), facts)
					n++
					r.Check(rule, fkey+"/divide by "+shortDesc(describe(x.Y)), m.Pos(x.Pos()), ok1, "divisor must be ≥ 1: "+why)
				}
			case *ssa.TypeAssert:
				if !x.CommaOk {
					n++
					r.Check(rule, fkey+"/unchecked type assertion to "+short(x.AssertedType.String()), m.Pos(x.Pos()), false, "x.(T) without comma-ok panics on mismatch")
				}
			}
		}
	}
	return n
}

func shortDesc(s string) string {
	s = strings.ReplaceAll(s, "internal/counter.", "")
	if len(s) > 110 {
		s = s[:107] + "..."
	}
	return s
}
