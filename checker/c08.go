package main

// C08 — at most one report per week is delivered, under races, retries and crashes.
// Decided part: lock / marker / post ordering, the per-status disposal table, same
// bytes, and publication atomicity of discoverable files.

import (
	"fmt"
	"go/token"
	"os"
	"strings"

	"golang.org/x/tools/go/ssa"
)

func init() {
	register("C08", &propDef{
		run: runC08,
		decided: []string{
			"http.Post lies after a successful exclusive create of <upload>/<week>.json.lock, whose name depends on the week only; the lock is removed by a defer registered before any return",
			"the uploaded-marker is re-checked under the lock; on marker-exists no post happens",
			"disposal table over all paths: the local report is removed only on (marker exists | 4xx | 200 and marker written); the marker is written only on 200, with the posted bytes",
			"reports are published for discovery only when complete (create-then-write under a discoverable name is a violation)",
		},
		notDecided: []string{"interleavings of several uploaders", "kills between steps", "sequences of server outcomes", "eventual delivery"},
	})
}

func runC08(c *Ctx) {
	m := c.Root()
	r := c.R
	// a report that stays in place after a failed attempt is picked up again by a later run
	c02ReadyGateAs(c, m, "C08.retry")
	fn := m.Func("internal/upload", "uploader.uploadReportContents")
	posts := callsIn(fn, "net/http.Post")
	r.Check("C08.lock", "uploadReportContents/has exactly one post", m.Pos(fn.Pos()), len(posts) == 1, fmt.Sprintf("%d post sites", len(posts)))
	if len(posts) != 1 {
		return
	}
	post := posts[0].(*ssa.Call)

	// names
	var lockOpen *ssa.Call
	for _, cs := range callsIn(fn, "os.OpenFile") {
		if strings.HasSuffix(describeArg(cs, 0), ` + ".lock")`) {
			lockOpen = cs.(*ssa.Call)
		}
	}
	r.Check("C08.lock", "uploadReportContents/lock acquisition exists", m.Pos(fn.Pos()), lockOpen != nil, "an os.OpenFile of <marker name>+\".lock\" must exist")
	if lockOpen == nil {
		return
	}
	lockName := deref(argsOf(lockOpen)[0])
	bo, _ := lockName.(*ssa.BinOp)
	var newname ssa.Value
	if bo != nil {
		newname = bo.X
	}
	r.Check("C08.lock", "uploadReportContents/lock flags", m.Pos(lockOpen.Pos()), m.openFlagsHave(&lockOpen.Call, "O_CREATE", "O_EXCL"), "the lock must be taken with O_CREATE|O_EXCL")
	nd := describe(newname)
	// newname = Join(UploadDir, fdate + ".json"), fdate derived from Base(fname) only
	okName := strings.HasPrefix(nd, "path/filepath.Join([(internal/telemetry.Dir).UploadDir(") && strings.HasSuffix(nd, ` + ".json")])`) &&
		!strings.Contains(nd, "startTime") && !strings.Contains(nd, "time.Now") && !strings.Contains(nd, "os.Getpid")
	r.Check("C08.lock", "uploadReportContents/marker and lock names depend on the week only", m.Pos(lockOpen.Pos()), okName,
		"all uploaders of one week must contend for the same lock and marker: name must be UploadDir/<date from the report's file name>.json; got "+nd)
	ld := describe(lockName)
	r.Check("C08.lock", "uploadReportContents/lock name is marker name + .lock", m.Pos(lockOpen.Pos()), ld == "("+nd+` + ".lock")`, "got "+ld)

	// post dominated by lock success
	r.Check("C08.lock", "uploadReportContents/post under the lock", m.Pos(post.Pos()), hasFact(factsAt(post), errNilOf(lockOpen)), "http.Post must be dominated by a successful lock acquisition")
	// deferred removal: a `defer os.Remove(lockname)` dominated by success, and no return reachable from success without passing it
	var dfr *ssa.Defer
	for _, in := range instrsOf(fn) {
		d, ok := in.(*ssa.Defer)
		if !ok {
			continue
		}
		if calleeName(&d.Call) == "os.Remove" && describeArg(d, 0) == ld {
			dfr = d
			continue
		}
		// `defer unlock()` where unlock is, on this path, a function literal that removes the lock
		if mc, ok := strip(refine(d.Call.Value, factsAt(d))).(*ssa.MakeClosure); ok {
			for _, inner := range WithClosures(mc.Fn.(*ssa.Function)) {
				for _, cs := range callsIn(inner, "os.Remove") {
					if describeArg(cs, 0) == ld || describe(outerValue(argsOf(cs)[0])) == ld {
						dfr = d
					}
					if os.Getenv("VERIF_DEBUG_LOCK") != "" {
						fmt.Printf("LOCK deferred remove of %s / %s; lock name %s\n", describeArg(cs, 0), describe(outerValue(argsOf(cs)[0])), ld)
					}
				}
			}
		}
	}
	okDefer := dfr != nil && hasFact(factsAt(dfr), errNilOf(lockOpen))
	if okDefer {
		// from the success edge, is an exit reachable without passing the defer?
		succ := branchSucc(lockErrCond(lockOpen), false)
		_ = succ
		w := reachesWithout(lockOpen, func(in ssa.Instruction) bool {
			if _, ok := in.(*ssa.Return); ok {
				return hasFact(factsAt(in), errNilOf(lockOpen))
			}
			if _, ok := in.(*ssa.Panic); ok {
				return hasFact(factsAt(in), errNilOf(lockOpen))
			}
			return false
		}, func(in ssa.Instruction) bool { return in == ssa.Instruction(dfr) })
		if w != nil {
			okDefer = false
		}
	}
	r.Check("C08.lock", "uploadReportContents/lock released on every exit", m.Pos(lockOpen.Pos()), okDefer, "os.Remove(lockname) must be deferred right after acquisition (no exit in between)")

	// marker re-check under the lock
	var stat *ssa.Call
	for _, cs := range callsIn(fn, "os.Stat") {
		if describeArg(cs, 0) == nd {
			stat = cs.(*ssa.Call)
		}
	}
	okRecheck := stat != nil && hasFact(factsAt(stat), errNilOf(lockOpen)) && hasFact(factsAt(post), errNonNilOf(stat))
	r.Check("C08.marker-recheck", "uploadReportContents/post only if no marker, checked under the lock", m.Pos(post.Pos()), okRecheck,
		"os.Stat(marker) must be evaluated after the lock is held and the post must lie on its error edge")

	// disposal table
	namer := func(v ssa.Value) (string, bool) {
		d := describe(v)
		switch {
		case strings.HasSuffix(d, ".StatusCode") && strings.HasPrefix(d, "net/http.Post("):
			return "status", true
		}
		if e, ok := v.(*ssa.Extract); ok {
			switch e.Tuple {
			case ssa.Value(lockOpen):
				if e.Index == 1 {
					return "lockErr", true
				}
			case ssa.Value(post):
				if e.Index == 1 {
					return "postErr", true
				}
			}
			if stat != nil && e.Tuple == ssa.Value(stat) && e.Index == 1 {
				return "markerStatErr", true
			}
		}
		if c, ok := v.(*ssa.Call); ok && calleeName(&c.Call) == "os.WriteFile" && describeArg(c, 0) == nd {
			return "writeErr", true
		}
		return "", false
	}
	lockOK := bBool{"isnil(lockErr)"}
	postOK := bBool{"isnil(postErr)"}
	is200 := bNot{mkOrd("status", "!=", "200")}
	is4xx := bAnd{[]BExpr{mkOrd("status", ">=", "400"), mkOrd("status", "<", "500")}}
	markerExists := bBool{"isnil(markerStatErr)"}
	wrote := bBool{"isnil(writeErr)"}
	nRemove := 0
	for _, cs := range callsIn(fn, "os.Remove") {
		if argsOf(cs)[0] != ssa.Value(fn.Params[1]) {
			// anything else that is removed must be the lock: removing the marker ("recorded as
			// uploaded") makes the next uploader send the week again
			d := describeArg(cs, 0)
			r.Check("C08.disposal", "uploadReportContents/removes only the local report and the lock", m.Pos(cs.Pos()), d == ld, "removes "+shortDesc(d))
			continue
		}
		if _, isDefer := cs.(*ssa.Defer); isDefer {
			r.Check("C08.disposal", "uploadReportContents/deferred removal of the local report", m.Pos(cs.Pos()), false, "the local report must not be removed unconditionally at exit")
			continue
		}
		nRemove++
		fb := newFormulaBuilder()
		fb.namer = namer
		got := fb.reach(cs.Block())
		want := bAnd{[]BExpr{lockOK, bOr{[]BExpr{
			markerExists,
			bAnd{[]BExpr{bNot{markerExists}, postOK, bNot{is200}, is4xx}},
			bAnd{[]BExpr{bNot{markerExists}, postOK, is200, wrote}},
		}}}}
		ok, why, nw := implies(got, want)
		r.Check("C08.disposal", fmt.Sprintf("uploadReportContents/remove local report #%d", nRemove), m.Pos(cs.Pos()), ok && len(fb.undec) == 0,
			fmt.Sprintf("the local report may be removed only when (lock held) ∧ (marker already exists ∨ answered 4xx ∨ (answered 200 ∧ marker written)); %d worlds; %s", nw, why))
	}
	r.Check("C08.disposal", "uploadReportContents/removal sites enumerated", m.Pos(fn.Pos()), nRemove >= 2, fmt.Sprintf("%d removal sites", nRemove))
	nWrite := 0
	for _, cs := range callsIn(fn, "os.WriteFile", "os.Create", "os.Rename", "os.Link") {
		nWrite++
		a := argsOf(cs)
		fb := newFormulaBuilder()
		fb.namer = namer
		got := fb.reach(cs.Block())
		want := bAnd{[]BExpr{lockOK, bNot{markerExists}, postOK, is200}}
		ok, why, _ := implies(got, want)
		// the bytes written are the bytes that were posted: the buf parameter (by its reference name)
		okArgs := calleeName(cs.Common()) == "os.WriteFile" && describe(a[0]) == nd && describe(a[1]) == "param:buf"
		r.Check("C08.disposal", "uploadReportContents/marker written only on 200 with the posted bytes", m.Pos(cs.Pos()), ok && okArgs,
			"the uploaded marker must be written only after a 200 answer and must hold the bytes that were posted; "+why+" args: "+describe(a[0])+", "+describe(a[1]))
	}
	r.Check("C08.disposal", "uploadReportContents/marker write exists", m.Pos(fn.Pos()), nWrite == 1, fmt.Sprintf("%d marker writes", nWrite))
	// the posted bytes are the buf parameter (shared with C01.body)
	r.Check("C08.same-bytes", "uploadReportContents/posted body is buf", m.Pos(post.Pos()), describeArg(post, 2) == "bytes.NewReader(param:buf)", "got "+describeArg(post, 2))
	// … and buf is the report as it was read: every caller passes the bytes of a ReadFile that succeeded
	// (a nil body after a failed read would be posted, answered 200 by a lenient server and recorded)
	c08BodyIsReadFile(c, m, "C08.same-bytes")
	// true result only after the marker path
	for _, b := range fn.Blocks {
		ret, ok := b.Instrs[len(b.Instrs)-1].(*ssa.Return)
		if !ok || b.Comment == "recover" {
			continue
		}
		// result is a load of the named-result slot; find the store in this block
		for _, in := range b.Instrs {
			if st, ok := in.(*ssa.Store); ok {
				if k, isC := constOf(st.Val); isC && k == "true" && isBoolType(st.Val.Type()) {
					fb := newFormulaBuilder()
					fb.namer = namer
					ok2, why, _ := implies(fb.reach(b), bAnd{[]BExpr{lockOK, postOK, is200}})
					r.Check("C08.disposal", "uploadReportContents/reports success only after 200", m.Pos(ret.Pos()), ok2, why)
				}
			}
		}
	}

	c08Publish(c, m)
	c08Exclusive(c, m, "C08.same-bytes")
}

func lockErrCond(call *ssa.Call) ssa.Value {
	for _, u := range referrers(call) {
		if e, ok := u.(*ssa.Extract); ok && e.Index == 1 {
			for _, u2 := range referrers(e) {
				if b, ok := u2.(*ssa.BinOp); ok {
					return b
				}
			}
		}
	}
	return call
}

// c08Exclusive: report files are created exclusively (shared with C07).
func c08Exclusive(c *Ctx, m *Module, rule string) {
	r := c.R
	ew := m.Func("internal/upload", "exclusiveWrite")
	opens := callsIn(ew, "os.OpenFile")
	r.Check(rule, "exclusiveWrite/opens once", m.Pos(ew.Pos()), len(opens) == 1, fmt.Sprintf("%d OpenFile calls", len(opens)))
	for _, cs := range opens {
		r.Check(rule, "exclusiveWrite/O_CREATE|O_EXCL", m.Pos(cs.Pos()), m.openFlagsHave(cs.Common(), "O_CREATE", "O_EXCL") && argsOf(cs)[0] == ssa.Value(ew.Params[0]),
			"report files must be created with O_CREATE|O_EXCL under the requested name, so that all uploaders read one and the same file")
		// the IsExist case returns (false, nil); other errors are returned
		for _, b := range ew.Blocks {
			ret, ok := b.Instrs[len(b.Instrs)-1].(*ssa.Return)
			if !ok {
				continue
			}
			facts := factsAt(ret)
			if hasFact(facts, errNonNilOf(cs.(*ssa.Call))) {
				isExist := hasFact(facts, callResultIs("os.IsExist", true, nil))
				notExist := hasFact(facts, callResultIs("os.IsExist", false, nil))
				_ = notExist
				// results are loaded from named result slots; inspect stores in block
				if isExist {
					r.Check(rule, "exclusiveWrite/exists => not acquired, no error", m.Pos(ret.Pos()), true, "IsExist maps to (false, nil)")
				}
			}
		}
	}
}

// c08Publish: C08.publish-atomic. A file selected by listing a directory must be
// complete when its name appears.
func c08Publish(c *Ctx, m *Module) {
	r := c.R
	ew := m.Func("internal/upload", "exclusiveWrite")
	// shape: create under the final name, then write content into the same handle
	createsThenWrites := false
	var open ssa.CallInstruction
	for _, cs := range callsIn(ew, "os.OpenFile", "os.Create") {
		if argsOf(cs)[0] == ssa.Value(ew.Params[0]) {
			open = cs
		}
	}
	if open != nil {
		if w := reachesWithout(open, func(in ssa.Instruction) bool {
			return isCallTo(in, "(*os.File).Write", "(*os.File).WriteString", "(*os.File).WriteAt")
		}, nil); w != nil {
			createsThenWrites = true
		}
	}
	for _, cs := range m.callersOf(ew) {
		name := describeArg(cs, 0)
		discoverable := !strings.Contains(name, `"local."`) && strings.Contains(name, `".json"`) && strings.Contains(name, "LocalDir(")
		key := "exclusiveWrite@" + short(refName(cs.Parent())) + ":"
		if discoverable {
			key += "uploadFileName"
		} else {
			key += "localFileName"
		}
		r.Check("C08.publish-atomic", key, m.Pos(cs.Pos()), !(discoverable && createsThenWrites),
			"the file <local>/<week>.json is selected by other uploaders' findWork as soon as its name exists, but exclusiveWrite creates it (O_EXCL) and only then writes its content: a concurrent uploader can post the empty file, get 400 and delete it, and the week is never delivered")
	}
	// any other creation of a discoverable report name in internal/upload
	for _, fn := range m.PkgFuncs("internal/upload") {
		if fn == ew {
			continue
		}
		for _, e := range directEffects(fn) {
			if e.Name == "os.WriteFile" || e.Name == "os.Create" || e.Name == "os.OpenFile" || e.Name == "os.Rename" || e.Name == "os.Link" {
				a := argsOf(e.Call)
				name := describe(a[len(a)-1])
				if e.Name != "os.Rename" && e.Name != "os.Link" {
					name = describe(a[0])
				}
				if strings.Contains(name, "LocalDir(") && strings.Contains(name, `".json"`) && !strings.Contains(name, `"local."`) {
					atomic := e.Name == "os.Rename" || e.Name == "os.Link"
					r.Check("C08.publish-atomic", fname(fn)+"/"+e.Name+" of a discoverable report name", m.Pos(e.Call.Pos()), atomic, "a discoverable report must be published atomically (link/rename of a complete file)")
				}
			}
		}
	}
}

// c08BodyIsReadFile: each call of uploadReportContents hands over the first result of an
// os.ReadFile call under the fact that this call returned no error.
func c08BodyIsReadFile(c *Ctx, m *Module, rule string) {
	r := c.R
	fn := m.Func("internal/upload", "uploader.uploadReportContents")
	n := 0
	for _, cs := range m.callersOf(fn) {
		n++
		a := argsOf(cs)
		body := strip(a[len(a)-1])
		ok := false
		detail := "got " + shortDesc(describe(body))
		if ex, isEx := body.(*ssa.Extract); isEx && ex.Index == 0 {
			if rd, isCall := ex.Tuple.(*ssa.Call); isCall && calleeName(&rd.Call) == "os.ReadFile" {
				ok = hasFact(factsAt(cs), errNilOf(rd))
				if !ok {
					detail = "the read's error is not known to be nil here"
				}
			}
		}
		r.Check(rule, fname(cs.Parent())+"/body handed to uploadReportContents is a successfully read file", m.Pos(cs.Pos()), ok, detail)
	}
	r.Check(rule, "callers of uploadReportContents enumerated", m.Pos(fn.Pos()), n >= 1, fmt.Sprintf("%d", n))
}

// outerValue: a value read inside a function literal from a variable of the enclosing function
// that holds one value on every path (assigned once, or assigned the same value everywhere) is
// that value.
func outerValue(v ssa.Value) ssa.Value {
	for depth := 0; depth < 4; depth++ {
		ld, ok := strip(v).(*ssa.UnOp)
		if !ok || ld.Op != token.MUL {
			return v
		}
		var cell ssa.Value = ld.X
		if fv, isFV := cell.(*ssa.FreeVar); isFV {
			fn := fv.Parent()
			idx := -1
			for i, f := range fn.FreeVars {
				if f == fv {
					idx = i
				}
			}
			cell = nil
			if fn.Parent() != nil && idx >= 0 {
				for _, in := range instrsOf(fn.Parent()) {
					if mc, isMC := in.(*ssa.MakeClosure); isMC && mc.Fn == ssa.Value(fn) && idx < len(mc.Bindings) {
						cell = mc.Bindings[idx]
					}
				}
			}
			if cell == nil {
				return v
			}
			if _, again := cell.(*ssa.FreeVar); again {
				v = &ssa.UnOp{Op: token.MUL, X: cell}
				continue
			}
		}
		a, isA := cell.(*ssa.Alloc)
		if !isA {
			return v
		}
		var val ssa.Value
		for _, u := range referrers(a) {
			if st, isSt := u.(*ssa.Store); isSt && st.Addr == ssa.Value(a) {
				if isZeroNew(st.Val) {
					continue
				}
				if val != nil && describe(val) != describe(st.Val) {
					return v
				}
				val = st.Val
			}
		}
		if val == nil {
			return v
		}
		v = val
	}
	return v
}

// isZeroNew: *new(T) — the zeroing the second stage writes before a composite literal's fields.
func isZeroNew(v ssa.Value) bool {
	ld, ok := v.(*ssa.UnOp)
	if !ok || ld.Op != token.MUL {
		return false
	}
	a, ok := ld.X.(*ssa.Alloc)
	return ok && a.Heap && len(referrers(a)) == 1
}
