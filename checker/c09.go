package main

// C09 — counter-file week boundaries are computed and honoured consistently.

import (
	"fmt"
	"go/types"
	"strings"

	"golang.org/x/tools/go/ssa"
)

func init() {
	register("C09", &propDef{
		run: runC09,
		decided: []string{
			"span construction: begin/end are time.Date(y,m,d[+incr],0,0,0,0,UTC) of one CounterTime().Date(); CounterTime is time.Now().UTC() and never reassigned in non-test code",
			"exhaustive enumeration of the extracted IR: weekEnd's result is in [0,6] for every byte; for all 49 (week-end day, today) pairs incr ∈ [1,7] and today+incr ≡ week-end day (mod 7)",
			"the week-end setting is read on every span computation (every path from rotate1 to the file open passes a call that reaches weekEnd)",
			"file name carries the begin date; header carries begin/end in RFC3339; rotate1 keeps the file iff begin and end are unchanged; rotate re-arms the timer",
			"uploader agrees: collected iff ¬(end > start), folded iff end < start (instants, not date strings), week key is the recorded end date; one parser with the writer's layout",
		},
		notDecided: []string{"time.Date normalisation across month/year boundaries (library contract)", "the timer actually firing", "increments landing in the new file at run time"},
	})
}

func runC09(c *Ctx) {
	m := c.Root()
	r := c.R
	c09HeaderVerified(c, m, "C09.name-carries-begin")
	// a rotation that cannot compute the next span does not stay attached to the finished file
	c.R.As(map[string]string{"C05.fail-parks": "C09.rotate-on-change"}, func() { c05FailParks(c, m) })
	we := m.Func("internal/counter", "weekEnd")
	rot := m.Func("internal/counter", "file.rotate1")
	// the span function: the one function reachable from rotate1 that constructs times
	span := m.Func("internal/counter", "counterSpan")
	{
		var cands []*ssa.Function
		for f := range m.reach([]*ssa.Function{rot}, func(f *ssa.Function) bool { return f == we }) {
			if f.Blocks != nil && f.Pkg == rot.Pkg && len(callsIn(f, "time.Date")) > 0 {
				cands = append(cands, f)
			}
		}
		if len(cands) == 1 {
			span = cands[0]
		} else {
			r.Check("C09.span-shape", "one function computes the span", m.Pos(rot.Pos()), false, fmt.Sprintf("%d functions reachable from rotate1 call time.Date", len(cands)))
		}
	}

	// ---- span shape ---------------------------------------------------------
	var dates []*ssa.Call
	for _, cs := range callsIn(span, "time.Date") {
		dates = append(dates, cs.(*ssa.Call))
	}
	nBeginForm, nEndForm := 0, 0
	var incr ssa.Value
	var weekendV, weekdayV ssa.Value
	for i, d := range dates {
		a := argsOf(d)
		zeros := true
		for _, z := range a[3:7] {
			if n, ok := intConst(z); !ok || n != 0 {
				zeros = false
			}
		}
		utc := describe(a[7]) == "*global:time.UTC"
		yOK := describe(a[0]) == "(time.Time).Date(var:internal/counter.CounterTime())#0"
		mOK := describe(a[1]) == "(time.Time).Date(var:internal/counter.CounterTime())#1"
		dd := describe(a[2])
		isBegin := dd == "(time.Time).Date(var:internal/counter.CounterTime())#2"
		r.Check("C09.span-shape", fmt.Sprintf("counterSpan/time.Date #%d is midnight UTC of CounterTime's date", i+1), m.Pos(d.Pos()), zeros && utc && yOK && mOK,
			fmt.Sprintf("hour..nsec constants zero: %v; location %s; year %s; month %s", zeros, describe(a[7]), describe(a[0]), describe(a[1])))
		if isBegin {
			nBeginForm++
		}
		if !isBegin {
			// day + incr
			if bo, ok := strip(a[2]).(*ssa.BinOp); ok && describe(bo.X) == "(time.Time).Date(var:internal/counter.CounterTime())#2" {
				incr = bo.Y
				nEndForm++
			} else {
				r.Check("C09.span-shape", "counterSpan/end day is day + incr", m.Pos(d.Pos()), false, "got "+dd)
			}
		}
	}
	// (begin may be constructed more than once — the weekday is taken from it — but there is one end)
	r.Check("C09.span-shape", "counterSpan/time.Date constructions are begin (today) and one end (today + incr)", m.Pos(span.Pos()), nBeginForm >= 1 && nEndForm == 1, fmt.Sprintf("%d begin forms, %d end forms", nBeginForm, nEndForm))
	// same Date() call feeds both (one call)
	r.Check("C09.span-shape", "counterSpan/one reading of the clock", m.Pos(span.Pos()), len(callsIn(span, "(time.Time).Date")) == 1 && len(callsIn(span, "var:internal/counter.CounterTime")) == 1, "begin and end must derive from the same instant")
	// CounterTime initialiser and no reassignment
	g := m.GlobalVar("internal/counter", "CounterTime")
	nStores := 0
	okInit := false
	for _, fn := range m.srcFns {
		for _, in := range instrsOf(fn) {
			if st, ok := in.(*ssa.Store); ok && st.Addr == ssa.Value(g) {
				if isTestSupport(fn) {
					continue // test-support package (imported by tests only)
				}
				nStores++
				if f := funcValue(st.Val); f != nil && fn.Name() == "init" {
					for _, b := range f.Blocks {
						if ret, ok := b.Instrs[len(b.Instrs)-1].(*ssa.Return); ok {
							okInit = describe(ret.Results[0]) == "(time.Time).UTC(time.Now())"
						}
					}
				}
			}
		}
	}
	r.Check("C09.span-shape", "CounterTime is time.Now().UTC() and never reassigned", m.Pos(g.Pos()), okInit && nStores == 1, fmt.Sprintf("%d stores", nStores))

	// ---- incr range: enumerate the IR ------------------------------------------
	if incr != nil {
		// find the leaves: weekend (weekEnd()#0) and begin.Weekday()
		for v := range backwardSlice(incr, 200) {
			d := describe(v)
			if d == "internal/counter.weekEnd()#0" {
				weekendV = v
			}
			if pr, ok := v.(*ssa.Parameter); ok && strings.HasSuffix(pr.Type().String(), "time.Weekday") {
				weekendV = v // the week-end day handed in by the caller (C09.weekend-fresh checks its freshness)
			}
			if strings.HasPrefix(d, "(time.Time).Weekday(time.Date(") {
				weekdayV = v
				if cl, ok := v.(*ssa.Call); ok {
					r.Check("C09.incr-range", "counterSpan/weekday is begin's", m.Pos(cl.Pos()), len(dates) > 0 && argsOf(cl)[0] == ssa.Value(dates[0]) || describeArg(cl, 0) == describe(dates[0]), "incr must be computed from begin.Weekday()")
				}
			}
		}
		okLeaves := weekendV != nil && weekdayV != nil
		r.Check("C09.incr-range", "counterSpan/incr depends on the week-end day and today's weekday only", m.Pos(span.Pos()), okLeaves, "leaves of incr: "+describe(incr))
		if okLeaves {
			bad := ""
			n := 0
			for we := int64(0); we < 7; we++ {
				for wd := int64(0); wd < 7; wd++ {
					n++
					res, err := evalInt(incr, evalEnv{weekendV: we, weekdayV: wd})
					if err != nil {
						bad = "cannot evaluate: " + err.Error()
					} else if res < 1 || res > 7 || (wd+res)%7 != we {
						bad = fmt.Sprintf("weekend=%d today=%d gives incr=%d", we, wd, res)
					}
				}
			}
			r.Check("C09.incr-range", "counterSpan/incr ∈ [1,7] and lands on the week-end day for all 49 pairs", m.Pos(span.Pos()), bad == "", fmt.Sprintf("%d pairs enumerated on the IR; %s", n, bad))
			r.Analysed["incr_pairs_enumerated"] = n
		}
	}
	// weekEnd's result for every byte
	for _, b := range we.Blocks {
		ret, ok := b.Instrs[len(b.Instrs)-1].(*ssa.Return)
		if !ok || !isNilConst(ret.Results[1]) {
			continue
		}
		var byteV ssa.Value
		for v := range backwardSlice(ret.Results[0], 200) {
			if u, ok := v.(*ssa.UnOp); ok {
				if _, isIA := u.X.(*ssa.IndexAddr); isIA {
					byteV = v
				}
			}
		}
		bad := ""
		if byteV == nil {
			bad = "result does not derive from a byte of the weekends file: " + describe(ret.Results[0])
		} else {
			for bv := int64(0); bv < 256; bv++ {
				res, err := evalInt(ret.Results[0], evalEnv{byteV: bv})
				if err != nil {
					bad = err.Error()
					break
				}
				if res < 0 || res > 6 {
					bad = fmt.Sprintf("byte %d gives weekday %d", bv, res)
				}
				if bv >= '0' && bv <= '6' && res != bv-'0' {
					bad = fmt.Sprintf("digit %c read as %d", rune(bv), res)
				}
			}
		}
		r.Check("C09.incr-range", "weekEnd/result ∈ [0,6] for every byte, digits read as themselves", m.Pos(ret.Pos()), bad == "", "256 byte values enumerated on the IR; "+bad)
	}

	// ---- weekEnd consulted on every span computation ------------------------------
	reachesWE := map[*ssa.Function]bool{}
	for _, fn := range m.PkgFuncs("internal/counter") {
		ch := m.reach([]*ssa.Function{fn}, nil)
		if _, ok := ch[we]; ok {
			reachesWE[fn] = true
		}
	}
	var open ssa.CallInstruction
	for _, cs := range callsIn(rot, "internal/counter.openMapped") {
		open = cs
	}
	r.Check("C09.weekend-fresh", "rotate1/opens the counter file", m.Pos(rot.Pos()), open != nil, "rotate1 must call openMapped")
	if open != nil {
		w := entryReachesWithout(rot, func(in ssa.Instruction) bool { return in == ssa.Instruction(open) }, func(in ssa.Instruction) bool {
			cc := callOf(in)
			if cc == nil {
				return false
			}
			f := cc.StaticCallee()
			return f != nil && (f == we || reachesWE[f])
		})
		r.Check("C09.weekend-fresh", "rotate1/week-end setting read before every file open", m.Pos(open.Pos()), w == nil,
			"every path to openMapped must pass a call that reads the weekends file (a cached week-end day makes a rotated file end on the wrong weekday after the setting changes)")
	}
	// in counterSpan weekEnd is called on every path to the success return
	for _, b := range span.Blocks {
		ret, ok := b.Instrs[len(b.Instrs)-1].(*ssa.Return)
		if !ok || len(ret.Results) != 3 || !isNilConst(ret.Results[2]) {
			continue
		}
		dominated := false
		for _, cs := range callsIn(span, "internal/counter.weekEnd") {
			if precedes(cs, ret) {
				dominated = true
			}
		}
		r.Check("C09.weekend-fresh", "counterSpan/calls weekEnd on the success path", m.Pos(ret.Pos()), dominated || incr == nil, "the span must be computed from a fresh reading")
	}

	// the digit is the first byte of the setting after white space was trimmed (" 5\n", "\n5\n" and
	// "5\n" are the same setting; a file of white space is a malformed one)
	nDigit := 0
	for _, in := range instrsOf(we) {
		var x ssa.Value
		switch v := in.(type) {
		case *ssa.IndexAddr:
			x = v.X
		case *ssa.Index:
			x = v.X
		case *ssa.Lookup:
			if _, isStr := v.X.Type().Underlying().(*types.Basic); isStr {
				x = v.X
			}
		}
		if x == nil {
			continue
		}
		d := describe(x)
		if !strings.Contains(d, "os.ReadFile(") {
			continue
		}
		nDigit++
		okTrim := strings.HasPrefix(d, "bytes.TrimSpace(") || strings.HasPrefix(d, "strings.TrimSpace(") || strings.HasPrefix(d, "bytes.Fields(") || strings.HasPrefix(d, "strings.Fields(")
		r.Check("C09.weekend-fresh", "weekEnd/the digit is read from the trimmed setting", m.Pos(in.Pos()), okTrim, "the byte that names the weekday must come from TrimSpace(file contents); got an element of "+shortDesc(d))
	}
	r.Check("C09.weekend-fresh", "weekEnd/reads the digit from the file", m.Pos(we.Pos()), nDigit >= 1, fmt.Sprintf("%d element reads of the file's contents", nDigit))

	// ---- name and header carry begin/end -----------------------------------------
	nName, nHdr := 0, 0
	for _, v := range builtStrings(rot) {
		d := describe(v)
		switch {
		case strings.HasSuffix(d, ` + ".") + "`+m.ConstVal("internal/counter", "FileVersion")+`") + ".count")`):
			nName++
			r.Check("C09.name-carries-begin", "rotate1/file name ends with begin date and version", m.Pos(v.Pos()),
				strings.Contains(d, `.timeBegin, "2006-01-02")) + ".") + `) && strings.Contains(d, "(time.Time).Format("), "got "+shortDesc(d))
		case strings.Contains(d, `"TimeBegin: "`):
			nHdr++
			r.Check("C09.name-carries-begin", "rotate1/header records begin and end in RFC3339", m.Pos(v.Pos()),
				strings.Contains(d, `"TimeBegin: " + (time.Time).Format(`) && strings.Contains(d, `.timeBegin, "2006-01-02T15:04:05Z07:00")) + "\nTimeEnd: ") + (time.Time).Format(`) && strings.Contains(d, `.timeEnd, "2006-01-02T15:04:05Z07:00")) + "\n`), "got "+shortDesc(d))
		}
	}
	r.Check("C09.name-carries-begin", "rotate1/name and header constructions found", m.Pos(rot.Pos()), nName >= 1 && nHdr >= 1, fmt.Sprintf("name %d, header %d", nName, nHdr))
	// f.timeBegin, f.timeEnd = begin, end (the values just computed)
	for _, in := range instrsOf(rot) {
		st, ok := in.(*ssa.Store)
		if !ok {
			continue
		}
		fa, ok := st.Addr.(*ssa.FieldAddr)
		if !ok {
			continue
		}
		_, fld, _ := fieldAddrName(fa)
		switch fld {
		case "timeBegin":
			r.Check("C09.name-carries-begin", "rotate1/timeBegin = span begin", m.Pos(st.Pos()), strings.HasPrefix(describe(st.Val), "internal/counter.counterSpan(") && strings.HasSuffix(describe(st.Val), ")#0"), "got "+describe(st.Val))
		case "timeEnd":
			r.Check("C09.name-carries-begin", "rotate1/timeEnd = span end", m.Pos(st.Pos()), strings.HasPrefix(describe(st.Val), "internal/counter.counterSpan(") && strings.HasSuffix(describe(st.Val), ")#1"), "got "+describe(st.Val))
		}
	}
	// reader: counterDateSpan parses TimeBegin/TimeEnd with RFC3339
	cds := m.Func("internal/upload", "uploader.counterDateSpan")
	nParse := 0
	for _, cs := range callsIn(cds, "time.Parse") {
		nParse++
		lay, _ := constOf(argsOf(cs)[0])
		src := describeArg(cs, 1)
		okKey := strings.HasSuffix(src, `.Meta["TimeBegin"]#0`) || strings.HasSuffix(src, `.Meta["TimeEnd"]#0`)
		r.Check("C09.name-carries-begin", fmt.Sprintf("counterDateSpan/parse #%d uses the writer's layout and key", nParse), m.Pos(cs.Pos()), lay == "2006-01-02T15:04:05Z07:00" && okKey, "layout "+lay+" source "+src)
	}
	r.Check("C09.name-carries-begin", "counterDateSpan/parses begin and end", m.Pos(cds.Pos()), nParse == 2, fmt.Sprintf("%d", nParse))

	// ---- rotate on change ------------------------------------------------------------
	if open != nil {
		fb := newFormulaBuilder()
		fb.namer = func(v ssa.Value) (string, bool) {
			d := describe(v)
			if strings.HasPrefix(d, "internal/counter.counterSpan(") && strings.HasSuffix(d, ")#0") {
				return "begin", true
			}
			if strings.HasPrefix(d, "internal/counter.counterSpan(") && strings.HasSuffix(d, ")#1") {
				return "end", true
			}
			if strings.HasSuffix(d, ".timeBegin") && !strings.Contains(d, "(") {
				return "curBegin", true
			}
			if strings.HasSuffix(d, ".timeEnd") && !strings.Contains(d, "(") {
				return "curEnd", true
			}
			return "", false
		}
		got := fb.reach(open.Block())
		want := bNot{bAnd{[]BExpr{mkOrd("curBegin", "=", "begin"), mkOrd("curEnd", "=", "end")}}}
		ok, why := projectedEquivalent(got, want, func(v string) bool { return strings.Contains(v, "curBegin") || strings.Contains(v, "curEnd") })
		r.Check("C09.rotate-on-change", "rotate1/new file iff the span changed", m.Pos(open.Pos()), ok, "openMapped is reached iff ¬(timeBegin = begin ∧ timeEnd = end): "+why)
	}
	rotate := m.Func("internal/counter", "file.rotate")
	okTimer := false
	for _, cs := range callsIn(rotate, "time.AfterFunc") {
		d := describeArg(cs, 0)
		f := describeArg(cs, 1)
		okTimer = strings.Contains(d, "phi:") || strings.Contains(d, "time.Until(")
		okTimer = okTimer && strings.Contains(f, "rotate")
		fbT := newFormulaBuilder()
		fbT.namer = func(v ssa.Value) (string, bool) {
			if cl, ok := v.(*ssa.Call); ok && calleeName(&cl.Call) == "(*internal/counter.file).rotate1" {
				return "expiry", true
			}
			return "", false
		}
		gotT := fbT.reach(cs.Block())
		okIff, whyT, _ := equivalent(gotT, bNot{bZero{"expiry"}})
		r.Check("C09.rotate-on-change", "rotate/re-arms itself for the recorded end", m.Pos(cs.Pos()), okTimer && okIff && len(fbT.undec) == 0,
			"the next rotation is scheduled iff rotate1 returned a non-zero expiry - every time, not only the first (a timer armed once leaves the second week's increments in a finished file): "+whyT+" got "+d+", "+f)
	}
	r.Check("C09.rotate-on-change", "rotate/has a timer", m.Pos(rotate.Pos()), okTimer, "rotate must schedule the next rotation")

	// ---- uploader agrees ----------------------------------------------------------------
	c07OnlyExpiredAs(c, m, "C09.uploader-agrees", "C09.uploader-agrees")
}

// isTestSupport: fn belongs to a package that exists only to support tests.
func isTestSupport(fn *ssa.Function) bool {
	for f := fn; f != nil; f = f.Parent() {
		if f.Pkg != nil {
			p := short(f.Pkg.Pkg.Path())
			return p == "internal/regtest" || p == "internal/testenv" || p == "internal/configtest" || p == "counter/countertest" || p == "internal/proxy"
		}
	}
	return false
}

// c09HeaderVerified: a process attaches to an existing counter file only if the file's header is
// byte for byte the header it would have written itself. The recorded end of the week is in the
// header but not in the file name, so anything weaker lets a process count into a file whose
// recorded end differs from the end it rotates at.
func c09HeaderVerified(c *Ctx, m *Module, rule string) {
	r := c.R
	om := m.Func("internal/counter", "openMapped")
	isFullHeader := func(v ssa.Value) bool {
		return describe(v) == "internal/counter.mappedHeader(param:meta)#0"
	}
	n := 0
	for _, ex := range exitPaths(om) {
		if len(ex.vals) != 2 || !isNilConst(ex.vals[1]) || isNilConst(ex.vals[0]) {
			continue
		}
		n++
		okHdr := hasFact(ex.facts, func(f Fact) bool {
			cl, ok := f.Cond.(*ssa.Call)
			if !ok || !f.Pol {
				return false
			}
			switch calleeName(&cl.Call) {
			case "bytes.HasPrefix":
				return isFullHeader(cl.Call.Args[1]) && isMappedBytes(cl.Call.Args[0])
			case "bytes.Equal":
				return (isFullHeader(cl.Call.Args[0]) && isMappedBytes(cl.Call.Args[1])) ||
					(isFullHeader(cl.Call.Args[1]) && isMappedBytes(cl.Call.Args[0]))
			}
			return false
		})
		r.Check(rule, fmt.Sprintf("openMapped/success #%d only for a file whose whole header matches", n), m.Pos(ex.ret.Pos()), okHdr,
			"the mapped bytes must start with mappedHeader(meta) — magic, length AND metadata (TimeBegin/TimeEnd): comparing less attaches to a file of another week end")
	}
	r.Check(rule, "openMapped/success exits enumerated", m.Pos(om.Pos()), n >= 1, fmt.Sprintf("%d", n))
}

// isMappedBytes: the bytes of the mapping just made (m.mapping.Data, or the Data of memmap's result).
func isMappedBytes(v ssa.Value) bool {
	// a slice of the mapped bytes that starts at 0: equality with (or a prefix test on) it still
	// compares the file's first bytes
	if sl, ok := strip(v).(*ssa.Slice); ok {
		if sl.Low != nil {
			if k, isC := intConst(sl.Low); !isC || k != 0 {
				return false
			}
		}
		return isMappedBytes(sl.X)
	}
	d := describe(v)
	return strings.HasSuffix(d, ".Data") && (strings.Contains(d, "mapping") || strings.Contains(d, "memmap"))
}
