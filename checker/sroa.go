package main

// E14, second stage: scalar replacement of NEW struct types.
//
// A maintainer who turns a long function into a small type with methods ("a reportUpload is one
// attempt to upload a report": constructor, lock, post, finish, close) leaves the behaviour
// unchanged, but after the methods are expanded in place (inline.go) the function's former local
// variables are fields of a struct that is reached through a chain of pointer copies. The rules
// are written over local values. This stage turns such a struct back into local variables:
//
//	up := &reportUpload{u: u, lockname: n + ".lock"}       _s1_u = u; _s1_lockname = n + ".lock"; …
//	… up.lockname … up.resp = resp …                   →   … _s1_lockname … _s1_resp = resp …
//
// It applies to a set of local variables ("class") of type T or *T, T a struct type that does not
// exist in the reference tree, when the class provably denotes ONE object:
//   - the variables are connected only by plain copies of the pointer (x := y, var x *T = y,
//     x = &y, binding to the parameter of a function literal that is called on the spot);
//   - exactly one of them is defined by a composite literal (&T{…} / T{…}) or, for a value
//     variable, by its zero declaration; all variables of the class are declared inside the
//     innermost function literal or loop body that contains that definition (so no variable
//     can still refer to the object of an earlier evaluation of the literal);
//   - every other occurrence of the variables is a direct field selection x.f.
//
// Anything else (the pointer is passed on, returned, compared, stored; a method that was not
// expanded is called; a struct VALUE is copied while some field is assigned) leaves the code as
// it is. The result is type-checked again; if that fails the stage is dropped.

import (
	"fmt"
	"go/ast"
	"go/token"
	"go/types"
	"os"
	"path/filepath"
	"sort"
	"strings"

	"golang.org/x/tools/go/packages"
)

type sroaDef struct {
	stmt  ast.Stmt          // the statement holding the definition
	lit   *ast.CompositeLit // nil for a zero declaration
	whole ast.Expr          // &T{…} or T{…} as written (the expression replaced by the nil/zero form)
	v     *types.Var
}

type sroaUse struct {
	sel   *ast.SelectorExpr
	field string
}

type sroaClass struct {
	bad     bool
	why     string
	members []*types.Var
	defs    []sroaDef
	uses    []sroaUse
	mutated bool
	copies  int // value copies (*p read into a value variable, or value := value)
	st      *types.Struct
	named   *types.Named
}

func sroaStructOf(t types.Type, pkg *types.Package, pkgPath string) (*types.Named, *types.Struct, bool) {
	if p, ok := t.(*types.Pointer); ok {
		t = p.Elem()
	}
	n, ok := t.(*types.Named)
	if !ok || n.Obj().Pkg() != pkg || n.TypeParams().Len() > 0 {
		return nil, nil, false
	}
	st, ok := n.Underlying().(*types.Struct)
	if !ok {
		return nil, nil, false
	}
	if baselineFuncs["type:"+pkgPath+"."+refTypeNameOf(n)] {
		return nil, nil, false
	}
	for i := 0; i < st.NumFields(); i++ {
		if st.Field(i).Embedded() {
			return nil, nil, false
		}
	}
	return n, st, true
}

func sroaRound(pkgs []*packages.Package, dir string, overlay map[string][]byte, st *inlineStats) (changed bool) {
	debug := os.Getenv("VERIF_INLINE_DEBUG") != ""
	counter := 0
	for _, p := range pkgs {
		if len(p.Syntax) == 0 || p.Types == nil || len(p.CompiledGoFiles) != len(p.Syntax) {
			continue
		}
		info := p.TypesInfo
		for i, f := range p.Syntax {
			name := p.CompiledGoFiles[i]
			if !strings.HasPrefix(name, dir+string(filepath.Separator)) || !strings.HasSuffix(name, ".go") {
				continue
			}
			src, ok := overlay[name]
			if !ok {
				continue // only files the first stage touched can contain expanded methods of new types
			}
			tf := p.Fset.File(f.Pos())
			off := func(pos token.Pos) int { return tf.Offset(pos) }
			text := func(n ast.Node) string { return string(src[off(n.Pos()):off(n.End())]) }
			needImp := map[string]string{}
			qual := func(ok *bool) types.Qualifier {
				return func(q *types.Package) string {
					if q == p.Types {
						return ""
					}
					for _, im := range f.Imports {
						if strings.Trim(im.Path.Value, `"`) == q.Path() {
							if im.Name != nil {
								if im.Name.Name == "." || im.Name.Name == "_" {
									*ok = false
								}
								return im.Name.Name
							}
							return q.Name()
						}
					}
					// not imported by this file: bring the import along under a private alias
					alias := "_sroa_" + q.Name()
					needImp[alias] = q.Path()
					return alias
				}
			}
			var edits []edit
			for _, d := range f.Decls {
				fd, isFn := d.(*ast.FuncDecl)
				if !isFn || fd.Body == nil {
					continue
				}
				// parents
				parent := map[ast.Node]ast.Node{}
				var stack []ast.Node
				ast.Inspect(fd.Body, func(n ast.Node) bool {
					if n == nil {
						stack = stack[:len(stack)-1]
						return true
					}
					if len(stack) > 0 {
						parent[n] = stack[len(stack)-1]
					}
					stack = append(stack, n)
					return true
				})
				// candidate variables
				cls := map[*types.Var]*sroaClass{}
				declIdent := map[*types.Var]*ast.Ident{}
				isParam := map[*types.Var]bool{}
				bound := map[*types.Var]bool{}
				ast.Inspect(fd.Body, func(n ast.Node) bool {
					id, isId := n.(*ast.Ident)
					if !isId {
						return true
					}
					v, _ := info.Defs[id].(*types.Var)
					if v == nil || v.IsField() {
						return true
					}
					nt, stt, ok := sroaStructOf(v.Type(), p.Types, p.PkgPath)
					if !ok {
						return true
					}
					cls[v] = &sroaClass{members: []*types.Var{v}, st: stt, named: nt}
					declIdent[v] = id
					if fld, isF := parent[id].(*ast.Field); isF {
						_ = fld
						isParam[v] = true
					}
					return true
				})
				if len(cls) == 0 {
					continue
				}
				find := func(v *types.Var) *sroaClass { return cls[v] }
				union := func(a, b *types.Var) {
					ca, cb := cls[a], cls[b]
					if ca == cb {
						return
					}
					if ca.named != cb.named {
						ca.bad, ca.why = true, "mixed types"
					}
					ca.bad = ca.bad || cb.bad
					if ca.why == "" {
						ca.why = cb.why
					}
					ca.members = append(ca.members, cb.members...)
					ca.defs = append(ca.defs, cb.defs...)
					ca.uses = append(ca.uses, cb.uses...)
					ca.mutated = ca.mutated || cb.mutated
					ca.copies += cb.copies
					for _, m := range cb.members {
						cls[m] = ca
					}
				}
				candOf := func(e ast.Expr) *types.Var {
					for {
						pe, isP := e.(*ast.ParenExpr)
						if !isP {
							break
						}
						e = pe.X
					}
					id, isId := e.(*ast.Ident)
					if !isId {
						return nil
					}
					v, _ := info.Uses[id].(*types.Var)
					if v == nil {
						v, _ = info.Defs[id].(*types.Var)
					}
					if v != nil && cls[v] != nil {
						return v
					}
					return nil
				}
				identOf := func(e ast.Expr) *ast.Ident {
					for {
						pe, isP := e.(*ast.ParenExpr)
						if !isP {
							break
						}
						e = pe.X
					}
					id, _ := e.(*ast.Ident)
					return id
				}
				accounted := map[*ast.Ident]bool{}
				isPtr := func(v *types.Var) bool { _, ok := v.Type().(*types.Pointer); return ok }
				inList := func(s ast.Stmt) bool {
					switch pp := parent[s].(type) {
					case *ast.BlockStmt, *ast.CaseClause, *ast.CommClause:
						_ = pp
						return true
					}
					return false
				}
				// headerOf: the if/switch statement (itself in a statement list) whose init statement s is
				headerOf := func(s ast.Stmt) ast.Stmt {
					switch pp := parent[s].(type) {
					case *ast.IfStmt:
						if pp.Init == s && inList(pp) {
							return pp
						}
					case *ast.SwitchStmt:
						if pp.Init == s && inList(pp) {
							return pp
						}
					}
					return nil
				}
				// one (lhs, rhs) pair of an assignment or a var spec; lhs may be nil for `_`
				pair := func(stmt ast.Stmt, lhs *types.Var, lhsId *ast.Ident, rhs ast.Expr, single bool) {
					r := rhs
					for {
						pe, isP := r.(*ast.ParenExpr)
						if !isP {
							break
						}
						r = pe.X
					}
					// x = y
					if y := candOf(r); y != nil {
						accounted[identOf(r)] = true
						if lhs != nil {
							accounted[lhsId] = true
							if isPtr(lhs) != isPtr(y) {
								find(lhs).bad, find(lhs).why = true, "pointer/value copy"
							}
							if !isPtr(lhs) && !isInlResult(y) {
								// (the result variable of an expanded helper is read exactly once, here: a move, not a copy)
								find(lhs).copies++
							}
							union(lhs, y)
						}
						return
					}
					if lhs == nil {
						return
					}
					switch x := r.(type) {
					case *ast.UnaryExpr:
						if x.Op == token.AND {
							// x = &T{…}
							if cl, isCL := x.X.(*ast.CompositeLit); isCL && isPtr(lhs) {
								if tv, has := info.Types[cl]; has && types.Identical(tv.Type, find(lhs).named) && single && (inList(stmt) || headerOf(stmt) != nil) {
									accounted[lhsId] = true
									c := find(lhs)
									c.defs = append(c.defs, sroaDef{stmt, cl, x, lhs})
									return
								}
							}
							// x = &y
							if y := candOf(x.X); y != nil && isPtr(lhs) && !isPtr(y) {
								accounted[lhsId], accounted[identOf(x.X)] = true, true
								union(lhs, y)
								return
							}
						}
					case *ast.StarExpr:
						// x = *y : a value copy
						if y := candOf(x.X); y != nil && !isPtr(lhs) && isPtr(y) {
							accounted[lhsId], accounted[identOf(x.X)] = true, true
							find(lhs).copies++
							union(lhs, y)
							return
						}
					case *ast.CompositeLit:
						if tv, has := info.Types[x]; has && !isPtr(lhs) && types.Identical(tv.Type, find(lhs).named) && single && (inList(stmt) || headerOf(stmt) != nil) {
							accounted[lhsId] = true
							c := find(lhs)
							c.defs = append(c.defs, sroaDef{stmt, x, x, lhs})
							return
						}
					}
				}
				ast.Inspect(fd.Body, func(n ast.Node) bool {
					switch x := n.(type) {
					case *ast.AssignStmt:
						if (x.Tok == token.ASSIGN || x.Tok == token.DEFINE) && len(x.Lhs) == len(x.Rhs) {
							for k := range x.Lhs {
								lid := identOf(x.Lhs[k])
								var lv *types.Var
								if lid != nil && lid.Name != "_" {
									lv = candOf(lid)
								}
								if lid == nil || (lid.Name != "_" && lv == nil) {
									continue
								}
								pair(x, lv, lid, x.Rhs[k], len(x.Lhs) == 1)
							}
						}
					case *ast.DeclStmt:
						gd, _ := x.Decl.(*ast.GenDecl)
						if gd == nil || gd.Tok != token.VAR {
							return true
						}
						for _, sp := range gd.Specs {
							vs := sp.(*ast.ValueSpec)
							for k, nm := range vs.Names {
								lv := candOf(nm)
								if lv == nil {
									continue
								}
								if len(vs.Values) == 0 {
									accounted[nm] = true
									if !isPtr(lv) {
										if len(gd.Specs) == 1 && len(vs.Names) == 1 && inList(x) {
											c := find(lv)
											c.defs = append(c.defs, sroaDef{x, nil, nil, lv})
										} else {
											find(lv).bad, find(lv).why = true, "zero declaration in a group"
										}
									}
								} else if len(vs.Values) == len(vs.Names) {
									pair(x, lv, nm, vs.Values[k], len(gd.Specs) == 1 && len(vs.Names) == 1)
								}
							}
						}
					case *ast.SelectorExpr:
						base := x.X
						for {
							if pe, isP := base.(*ast.ParenExpr); isP {
								base = pe.X
								continue
							}
							// (*T)(x).f : an identity conversion written by the expression-substitution
							if ce, isC := base.(*ast.CallExpr); isC && len(ce.Args) == 1 {
								if tv, has := info.Types[ce.Fun]; has && tv.IsType() {
									if av, has2 := info.Types[ce.Args[0]]; has2 && types.Identical(tv.Type, av.Type) {
										base = ce.Args[0]
										continue
									}
								}
							}
							break
						}
						v := candOf(base)
						if v == nil {
							return true
						}
						sel := info.Selections[x]
						if sel == nil || sel.Kind() != types.FieldVal || len(sel.Index()) != 1 {
							return true // a method that was not expanded: the identifier stays unaccounted
						}
						accounted[identOf(base)] = true
						c := find(v)
						c.uses = append(c.uses, sroaUse{x, sel.Obj().Name()})
						// is the field itself written through this selection?
						switch pp := parent[x].(type) {
						case *ast.AssignStmt:
							for _, l := range pp.Lhs {
								if l == ast.Expr(x) {
									c.mutated = true
								}
							}
						case *ast.IncDecStmt:
							c.mutated = true
						case *ast.UnaryExpr:
							if pp.Op == token.AND {
								c.mutated = true
							}
						case *ast.RangeStmt:
							if pp.Key == ast.Expr(x) || pp.Value == ast.Expr(x) {
								c.mutated = true
							}
						}
					case *ast.CallExpr:
						fun := x.Fun
						for {
							pe, isP := fun.(*ast.ParenExpr)
							if !isP {
								break
							}
							fun = pe.X
						}
						fl, isLit := fun.(*ast.FuncLit)
						if !isLit || x.Ellipsis.IsValid() {
							return true
						}
						var params []*ast.Ident
						for _, fld := range fl.Type.Params.List {
							if len(fld.Names) == 0 {
								params = append(params, nil)
							}
							for _, nm := range fld.Names {
								params = append(params, nm)
							}
						}
						if len(params) != len(x.Args) {
							return true
						}
						for k, a := range x.Args {
							if params[k] == nil {
								continue
							}
							pv, _ := info.Defs[params[k]].(*types.Var)
							if pv == nil || cls[pv] == nil {
								continue
							}
							if y := candOf(a); y != nil && isPtr(pv) == isPtr(y) {
								accounted[identOf(a)] = true
								bound[pv] = true
								if !isPtr(pv) {
									find(pv).copies++
								}
								union(pv, y)
							}
						}
					}
					return true
				})
				// unaccounted occurrences spoil their class
				ast.Inspect(fd.Body, func(n ast.Node) bool {
					id, isId := n.(*ast.Ident)
					if !isId || accounted[id] {
						return true
					}
					v, _ := info.Uses[id].(*types.Var)
					if v == nil {
						if dv, _ := info.Defs[id].(*types.Var); dv != nil && cls[dv] != nil {
							// a declaration that none of the recognised forms accounts for
							if isParam[dv] {
								return true // decided by `bound` below
							}
							if _, isAssign := parent[id].(*ast.AssignStmt); isAssign {
								// x := <something else>: a second, unknown definition
								cls[dv].bad, cls[dv].why = true, "defined by "+text(parent[id])
							} else if _, isVS := parent[id].(*ast.ValueSpec); !isVS {
								cls[dv].bad, cls[dv].why = true, "declared in an unrecognised form"
							}
						}
						return true
					}
					if c := cls[v]; c != nil && !c.bad {
						c.bad, c.why = true, "used as "+text(parentExprOrSelf(parent, id))
					}
					return true
				})
				for v, isP := range isParam {
					if isP && !bound[v] {
						cls[v].bad, cls[v].why = true, "parameter of a function literal that is not called on the spot"
					}
				}
				// distinct classes, in source order
				seen := map[*sroaClass]bool{}
				var classes []*sroaClass
				for _, c := range cls {
					if !seen[c] {
						seen[c] = true
						classes = append(classes, c)
					}
				}
				sort.Slice(classes, func(i, j int) bool { return classes[i].members[0].Pos() < classes[j].members[0].Pos() })
				for _, c := range classes {
					// the result variable of an expanded helper is declared (zero) and then assigned once per
					// return, each time as a whole; after the helper's block it is only read. Every such
					// assignment of a composite literal sets all the fields.
					var extraDefs []sroaDef
					var regionStmt ast.Stmt
					if !c.bad && len(c.defs) >= 2 {
						nZero, same := 0, true
						for _, d := range c.defs {
							if d.v != c.defs[0].v {
								same = false
							}
							if d.lit == nil {
								nZero++
							}
						}
						if same && nZero == 1 && inlNameRe.MatchString(c.defs[0].v.Name()) && strings.Contains(c.defs[0].v.Name(), "_r") {
							var lits []sroaDef
							for _, d := range c.defs {
								if d.lit != nil {
									lits = append(lits, d)
								}
							}
							for _, d := range c.defs {
								if d.lit == nil {
									regionStmt = d.stmt // the object lives from its declaration on
								}
							}
							c.defs = lits[:1]
							extraDefs = lits[1:]
						}
					}
					if !c.bad && len(c.defs) != 1 {
						c.bad, c.why = true, fmt.Sprintf("%d definitions", len(c.defs))
					}
					nVal := 0
					for _, m := range c.members {
						if !isPtr(m) && !isInlResult(m) {
							nVal++
						}
					}
					if !c.bad && c.mutated && (c.copies > 0 || nVal > 1) {
						c.bad, c.why = true, "a struct value is copied while a field is assigned"
					}
					if !c.bad && nVal > 0 && isPtr(c.defs[0].v) {
						c.bad, c.why = true, "pointer definition in a class with value variables"
					}
					if !c.bad && nVal > 0 && c.copies == 0 && !isPtr(c.defs[0].v) && nVal != 1 {
						c.bad, c.why = true, "several value variables"
					}
					var region *ast.BlockStmt
					if !c.bad {
						// region: innermost function-literal body or loop body around the definition
						region = fd.Body
						if regionStmt == nil {
							regionStmt = c.defs[0].stmt
						}
						for n := ast.Node(regionStmt); n != nil; n = parent[n] {
							var b *ast.BlockStmt
							switch x := n.(type) {
							case *ast.FuncLit:
								b = x.Body
							case *ast.ForStmt:
								b = x.Body
							case *ast.RangeStmt:
								b = x.Body
							}
							if b != nil && b.Pos() <= regionStmt.Pos() && regionStmt.End() <= b.End() {
								region = b
								break
							}
						}
						for _, m := range c.members {
							if isParam[m] {
								// the literal the parameter belongs to must lie inside the region
								if !(region.Pos() <= m.Pos() && m.Pos() < region.End()) {
									c.bad, c.why = true, "a variable of the class is declared outside the loop/literal of its definition"
								}
								continue
							}
							if !(region.Lbrace < m.Pos() && m.Pos() < region.Rbrace) {
								c.bad, c.why = true, "a variable of the class is declared outside the loop/literal of its definition"
							}
						}
					}
					if debug {
						var ms []string
						for _, m := range c.members {
							ms = append(ms, m.Name())
						}
						fmt.Printf("sroa %s in %s: %v bad=%v %s (defs %d, uses %d)\n", c.named.Obj().Name(), fd.Name.Name, ms, c.bad, c.why, len(c.defs), len(c.uses))
					}
					if c.bad || len(c.uses) == 0 {
						continue // (nothing selects a field: what an earlier round left behind)
					}
					// field variables
					counter++
					fv := func(field string) string { return fmt.Sprintf("_s%d_%s", counter, field) }
					okTypes := true
					var decl strings.Builder
					decl.WriteString("\n")
					for k := 0; k < c.st.NumFields(); k++ {
						fld := c.st.Field(k)
						ts := types.TypeString(fld.Type(), qual(&okTypes))
						fmt.Fprintf(&decl, "var %s %s\n_ = %s\n", fv(fld.Name()), ts, fv(fld.Name()))
					}
					if !okTypes {
						continue
					}
					def := c.defs[0]
					var classEdits []edit
					zero := func(skip map[string]bool) string {
						var b strings.Builder
						for k := 0; k < c.st.NumFields(); k++ {
							fld := c.st.Field(k)
							if skip[fld.Name()] {
								continue
							}
							okT := true
							fmt.Fprintf(&b, "%s = *new(%s)\n", fv(fld.Name()), types.TypeString(fld.Type(), qual(&okT)))
						}
						return b.String()
					}
					tname := c.named.Obj().Name()
					okAllDefs := true
					rewriteDef := func(def sroaDef) {
						if def.lit == nil {
							// var a T  →  var a T; fields zeroed (matters when the declaration is in a loop)
							classEdits = append(classEdits, edit{off(def.stmt.End()), off(def.stmt.End()), "\n" + zero(nil)})
						} else {
							given := map[string]bool{}
							type elt struct {
								field string
								val   ast.Expr
								start token.Pos
							}
							var elts []elt
							okLit := true
							for k, e := range def.lit.Elts {
								if kv, isKV := e.(*ast.KeyValueExpr); isKV {
									kid, isId := kv.Key.(*ast.Ident)
									if !isId {
										okLit = false
										break
									}
									elts = append(elts, elt{kid.Name, kv.Value, kv.Pos()})
									given[kid.Name] = true
								} else {
									if k >= c.st.NumFields() {
										okLit = false
										break
									}
									elts = append(elts, elt{c.st.Field(k).Name(), e, e.Pos()})
									given[c.st.Field(k).Name()] = true
								}
							}
							if !okLit {
								okAllDefs = false
								return
							}
							prefix := string(src[off(def.stmt.Pos()):off(def.whole.Pos())]) // `x := ` / `x = ` / `var x *T = `
							nilForm := "(*" + tname + ")(nil)"
							if !isPtr(def.v) {
								nilForm = tname + "{}"
							}
							tail := string(src[off(def.whole.End()):off(def.stmt.End())])
							if hdr := headerOf(def.stmt); hdr != nil {
								// defined in the header of an if/switch: the fields are set right before the
								// statement (nothing lies between), the literal in the header becomes the zero value
								var b strings.Builder
								b.WriteString(zero(given))
								for _, e := range elts {
									fmt.Fprintf(&b, "%s = %s\n", fv(e.field), text(e.val))
								}
								classEdits = append(classEdits, edit{off(hdr.Pos()), off(hdr.Pos()), b.String()})
								classEdits = append(classEdits, edit{off(def.whole.Pos()), off(def.whole.End()), nilForm})
							} else if len(elts) == 0 {
								classEdits = append(classEdits, edit{off(def.stmt.Pos()), off(def.stmt.Pos()), zero(nil)})
								classEdits = append(classEdits, edit{off(def.whole.Pos()), off(def.whole.End()), nilForm})
							} else {
								// the value expressions stay where they are (edits inside them remain valid);
								// only the text between them is rewritten
								classEdits = append(classEdits, edit{off(def.stmt.Pos()), off(elts[0].val.Pos()), zero(given) + fv(elts[0].field) + " = "})
								for k := 1; k < len(elts); k++ {
									classEdits = append(classEdits, edit{off(elts[k-1].val.End()), off(elts[k].val.Pos()), "\n" + fv(elts[k].field) + " = "})
								}
								classEdits = append(classEdits, edit{off(elts[len(elts)-1].val.End()), off(def.stmt.End()), "\n" + prefix + nilForm + tail})
							}
						}
					}
					rewriteDef(def)
					for _, d := range extraDefs {
						rewriteDef(d)
					}
					if !okAllDefs {
						continue
					}
					// declared-and-not-used: every variable of the class declared by a statement gets a blank use
					for _, m := range c.members {
						if isParam[m] {
							continue
						}
						id := declIdent[m]
						var s ast.Stmt
						for n := ast.Node(id); n != nil; n = parent[n] {
							if st, isS := n.(ast.Stmt); isS {
								s = st
								break
							}
						}
						if as, isAs := s.(*ast.AssignStmt); isAs && s != nil && !inList(s) && as.Tok == token.DEFINE && len(as.Lhs) == 1 && len(as.Rhs) == 1 {
							// declared in the header of an if/switch/for: "r := x" becomes "_ = x" (every use of r is a field selection and is replaced)
							classEdits = append(classEdits, edit{off(as.Lhs[0].Pos()), off(as.TokPos) + 2, "_ ="})
							continue
						}
						if s == nil || !inList(s) {
							c.bad = true
							break
						}
						classEdits = append(classEdits, edit{off(s.End()), off(s.End()), "\n_ = " + m.Name()})
					}
					if c.bad {
						continue
					}
					for _, u := range c.uses {
						classEdits = append(classEdits, edit{off(u.sel.Pos()), off(u.sel.End()), fv(u.field)})
					}
					classEdits = append(classEdits, edit{off(region.Lbrace) + 1, off(region.Lbrace) + 1, decl.String()})
					edits = append(edits, classEdits...)
					st.Scalarised = append(st.Scalarised, p.PkgPath[strings.LastIndex(p.PkgPath, "/")+1:]+"."+tname+" in "+fd.Name.Name)
				}
			}
			if len(edits) == 0 {
				continue
			}
			if len(needImp) > 0 {
				var as []string
				for a := range needImp {
					as = append(as, a)
				}
				sort.Strings(as)
				imp := ""
				for _, a := range as {
					imp += fmt.Sprintf("; import %s %q", a, needImp[a])
				}
				edits = append(edits, edit{off(f.Name.End()), off(f.Name.End()), imp})
			}
			out, ok := applyEdits(src, edits)
			if !ok {
				st.Note += "scalar replacement: overlapping edits in " + filepath.Base(name) + "; "
				continue
			}
			overlay[name] = out
			changed = true
		}
	}
	return changed
}

func parentExprOrSelf(parent map[ast.Node]ast.Node, n ast.Node) ast.Node {
	if p := parent[n]; p != nil {
		switch p.(type) {
		case ast.Expr, *ast.AssignStmt, *ast.ReturnStmt, *ast.ExprStmt:
			return p
		}
	}
	return n
}

// isInlResult: v is the result variable the first stage declared for an expanded call
// (assigned as a whole at each return of the helper, read once where the call stood).
func isInlResult(v *types.Var) bool {
	return inlNameRe.MatchString(v.Name()) && strings.Contains(v.Name(), "_r")
}
