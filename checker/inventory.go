package main

// Inventories: what NEW code may not bring in.
//
// Most rules of this checker quantify over the code of the reference functions ("every send in
// uploadReportContents lies under …"). A change that adds a function, a clean-up step, a fast
// path or a cache, and only calls it from the old code, can break a property without touching a
// construct those rules look at. Three inventories of the reference tree, recorded in
// baseline_inventory.txt (-dump-inventory), close that door structurally:
//
//	effect   <top-level function>  <class>     primitive effects the function performs itself
//	                                            (after new helpers were expanded into it)
//	xcall    <top-level function>  <callee>    calls into OTHER packages of the module
//	state    <package>             <variable>  package-level variables that are written after
//	                                            initialisation (assigned, updated through a map,
//	                                            slice, pointer or method with pointer receiver)
//
// On the analysed tree every entry must be in the reference inventory (renamed functions and
// variables count under their reference names). An entry that is not is reported under every
// property whose code lives in that package: a new kind of effect in a function, a new way into
// another package, new process-wide state. Nothing is said about entries that disappeared.
//
// Classes are coarse on purpose, so that os.Create vs os.OpenFile(O_CREATE|O_TRUNC), or one
// more removal in a function that already removes, are not news: remove, write (create, write,
// truncate, append), rename (rename, link, symlink), mkdir, attr (chmod, chtimes), net, exec,
// env, map.

import (
	_ "embed"
	"fmt"
	"go/token"
	"go/types"
	"sort"
	"strings"

	"golang.org/x/tools/go/ssa"
)

//go:embed baseline_inventory.txt
var baselineInventoryTxt string

var baselineInventory = func() map[string]bool {
	m := map[string]bool{}
	for _, l := range strings.Split(baselineInventoryTxt, "\n") {
		if l = strings.TrimSpace(l); l != "" && !strings.HasPrefix(l, "#") {
			m[l] = true
		}
	}
	return m
}()

func effectClass(e effectSite) string {
	switch e.Kind {
	case effNet:
		return "net"
	case effExec:
		return "exec"
	case effEnv:
		return "env"
	case effMap:
		return "map"
	}
	n := e.Name
	switch {
	case strings.HasPrefix(n, "os.Remove"):
		return "remove"
	case n == "os.Rename" || n == "os.Link" || n == "os.Symlink":
		return "rename"
	case strings.HasPrefix(n, "os.Mkdir"):
		return "mkdir"
	case strings.Contains(n, "Chmod") || strings.Contains(n, "Chtimes"):
		return "attr"
	}
	return "write"
}

// propsOfPackage: the properties whose code lives in a package (relative path; module name for godev).
func propsOfPackage(module, rel string) []string {
	key := rel
	if module == "godev" {
		key = "godev/" + rel
	}
	switch key {
	case "internal/upload":
		return []string{"C01", "C02", "C07", "C08", "C09"}
	case "internal/counter":
		return []string{"C03", "C04", "C05", "C06", "C09", "C10", "C15"}
	case "internal/telemetry":
		return []string{"C02", "C16", "C19"}
	case "", ".":
		return []string{"C16"}
	case "counter":
		return []string{"C05", "C15"}
	case "internal/crashmonitor":
		return []string{"C14"}
	case "internal/config", "internal/configstore":
		return []string{"C01", "C11"}
	case "internal/configgen", "internal/chartconfig":
		return []string{"C17"}
	case "internal/mmap":
		return []string{"C04", "C05"}
	case "cmd/gotelemetry":
		return []string{"C19"}
	case "cmd/gotelemetry/internal/view":
		return []string{"C11"}
	case "godev/cmd/telemetrygodev":
		return []string{"C11", "C12", "C18"}
	case "godev/cmd/worker":
		return []string{"C13", "C18"}
	case "godev/internal/storage":
		return []string{"C12", "C13", "C18"}
	case "godev/internal/middleware", "godev/internal/content":
		return []string{"C12"}
	}
	return nil
}

// anchorFiles: the files each property names as its anchors (properties.jsonl, anchors.files).
var anchorFiles = map[string][]string{
	"C01": {"internal/upload/reports.go", "internal/config/config.go", "internal/upload/upload.go", "internal/upload/findwork.go", "internal/telemetry/types.go"},
	"C02": {"internal/telemetry/dir.go", "mode.go", "internal/upload/findwork.go", "internal/upload/reports.go", "internal/upload/date.go", "internal/upload/run.go", "internal/counter/file.go"},
	"C03": {"internal/counter/counter.go", "internal/counter/file.go"},
	"C04": {"internal/counter/file.go", "internal/mmap/mmap_unix.go", "internal/counter/parse.go"},
	"C05": {"internal/counter/file.go", "internal/counter/counter.go", "internal/mmap/mmap_unix.go", "internal/telemetry/dir.go", "internal/upload/run.go", "internal/upload/date.go", "counter/counter.go"},
	"C06": {"internal/counter/parse.go", "internal/counter/file.go", "internal/counter/stackcounter.go", "internal/upload/date.go", "cmd/gotelemetry/main.go", "cmd/gotelemetry/internal/view/view.go"},
	"C07": {"internal/upload/reports.go", "internal/upload/findwork.go", "internal/upload/date.go", "internal/upload/Doc.txt"},
	"C08": {"internal/upload/upload.go", "internal/upload/reports.go", "internal/upload/findwork.go", "internal/upload/Doc.txt", "start.go"},
	"C09": {"internal/counter/file.go", "internal/upload/findwork.go", "internal/upload/reports.go", "internal/upload/date.go"},
	"C10": {"internal/counter/file.go", "internal/counter/parse.go"},
	"C11": {"internal/upload/reports.go", "godev/cmd/telemetrygodev/main.go", "cmd/gotelemetry/internal/view/view.go", "internal/config/config.go"},
	"C12": {"godev/cmd/telemetrygodev/main.go", "godev/internal/middleware/middleware.go", "godev/internal/storage/storage.go", "godev/internal/content/content.go"},
	"C13": {"godev/cmd/worker/main.go", "godev/internal/storage/storage.go"},
	"C14": {"internal/crashmonitor/monitor.go", "internal/counter/stackcounter.go", "start.go"},
	"C15": {"internal/counter/stackcounter.go", "internal/counter/parse.go"},
	"C16": {"start.go", "start_posix.go", "internal/telemetry/dir.go"},
	"C17": {"internal/chartconfig/load.go", "internal/chartconfig/chartconfig.go", "internal/configgen/main.go", "internal/configgen/validate.go", "config/config.json"},
	"C18": {"godev/internal/storage/storage.go", "godev/internal/storage/api.go"},
	"C19": {"cmd/gotelemetry/main.go", "internal/telemetry/dir.go"},
}

// propsOfSite: the properties a new inventory entry found in file (relative to the repository) is
// reported under: those anchored in that file; for a file no property is anchored in, those of
// the package.
func propsOfSite(module, rel, file string) []string {
	var out []string
	for p, fs := range anchorFiles {
		for _, f := range fs {
			if f == file {
				out = append(out, p)
			}
		}
	}
	if len(out) == 0 {
		return propsOfPackage(module, rel)
	}
	sort.Strings(out)
	return out
}

type invEntry struct {
	line   string
	pos    token.Pos
	rel    string // package, relative
	what   string
	tops   map[string]bool // the top-level functions the entry was found in
	g      *ssa.Global     // state entries: the variable
	fa     *ssa.FieldAddr  // field entries: one address of the field
	callee *ssa.Function   // xcall entries
}

// Entries that a rule of the property decides on its own (so that they need not be in the
// reference inventory): kind, module:package, and the only functions that may carry them.
var inventoryCovered = []struct{ kind, pkg, fn, why string }{
	{"state", "root:internal/configgen", "internal/configgen.listProxyVersions", "C17.generate-shape decides every retention of a proxy listing in listProxyVersions (stored as a clone, returned as a fresh slice)"},
}

// inventoryOf computes the three inventories of a loaded module.
func inventoryOf(m *Module) []invEntry {
	var out []invEntry
	seen := map[string]int{}
	curTop := ""
	var curG *ssa.Global
	var curFA *ssa.FieldAddr
	var curCallee *ssa.Function
	add := func(line string, pos token.Pos, rel, what string) {
		i, ok := seen[line]
		if !ok {
			i = len(out)
			seen[line] = i
			out = append(out, invEntry{line, pos, rel, what, map[string]bool{}, curG, curFA, curCallee})
		}
		out[i].tops[curTop] = true
	}
	relOf := func(p *ssa.Package) string {
		return strings.TrimPrefix(strings.TrimPrefix(p.Pkg.Path(), m.modulePath()), "/")
	}
	for _, fn := range m.srcFns {
		top := fn
		for top.Parent() != nil {
			top = top.Parent()
		}
		pkg := top.Pkg
		if pkg == nil && top.Origin() != nil {
			pkg = top.Origin().Pkg
		}
		if pkg == nil || m.byPath[pkg.Pkg.Path()] != pkg {
			continue
		}
		rel := relOf(pkg)
		if strings.HasSuffix(top.Name(), "init") && top.Synthetic != "" {
			continue
		}
		tname := m.Name + ":" + fname(top)
		curTop = fname(top)
		for _, e := range directEffects(fn) {
			add("effect\t"+tname+"\t"+effectClass(e), e.Call.Pos(), rel, "performs a "+effectClass(e)+" effect ("+e.Name+")")
		}
		for _, cs := range callsIn(fn) {
			callee := cs.Common().StaticCallee()
			if callee == nil || callee.Pkg == nil || callee.Pkg == pkg {
				continue
			}
			if !strings.HasPrefix(callee.Pkg.Pkg.Path(), modPath) {
				continue
			}
			ctop := callee
			for ctop.Parent() != nil {
				ctop = ctop.Parent()
			}
			curCallee = ctop
			add("xcall\t"+tname+"\t"+fname(ctop), cs.Pos(), rel, "calls "+fname(ctop)+" of another package")
			curCallee = nil
		}
		// writes to package-level variables after initialisation
		if top.Name() == "init" && top.Parent() == nil {
			continue
		}
		for _, in := range instrsOf(fn) {
			var g *ssa.Global
			switch x := in.(type) {
			case *ssa.Store:
				g, _ = rootGlobal(x.Addr)
			case *ssa.MapUpdate:
				g, _ = rootGlobal(x.Map)
			case ssa.CallInstruction:
				// a method with pointer receiver called on the variable (sync.Map.Store, mu.Lock, …)
				c := x.Common()
				if !c.IsInvoke() && len(c.Args) > 0 {
					if sig, ok := c.Value.Type().(*types.Signature); ok && sig.Recv() != nil {
						if _, isPtr := sig.Recv().Type().(*types.Pointer); isPtr {
							if gg, direct := rootGlobal(c.Args[0]); direct {
								g = gg
							}
						}
					}
				}
			}
			// channels: a package-level channel that is sent on or received from is shared state too
			switch x := in.(type) {
			case *ssa.Send:
				g, _ = rootGlobal(x.Chan)
			case *ssa.Select:
				for _, st := range x.States {
					if gg, _ := rootGlobal(st.Chan); gg != nil {
						g = gg
					}
				}
			case *ssa.UnOp:
				if x.Op == token.ARROW {
					g, _ = rootGlobal(x.X)
				}
			}
			// objects: a field of a named struct type that is changed in an object that already
			// exists (not the one this function has just built), as a whole or element-wise
			for _, fw := range fieldWritesOf(in) {
				if fieldNeverReadOpt(fn.Prog, fw.fa, true) {
					continue
				}
				nt := fw.named
				if nt.Obj().Pkg() == nil || m.byPath[nt.Obj().Pkg().Path()] == nil {
					continue
				}
				if !baselineFuncs["type:"+nt.Obj().Pkg().Path()+"."+refTypeNameOf(nt)] {
					continue // a type the reference tree does not have: its objects are reachable only through new fields or variables, which are entries themselves
				}
				frel := strings.TrimPrefix(strings.TrimPrefix(nt.Obj().Pkg().Path(), m.modulePath()), "/")
				fld := refTypeNameOf(nt) + "." + refFieldName(fw.fa.X.Type(), fw.fa.Field)
				curFA = fw.fa
				add("field\t"+tname+"\t"+short(nt.Obj().Pkg().Path())+"."+fld+"\t"+fw.kind, in.Pos(), frel,
					"changes field "+fld+" of an existing object ("+fw.kind+")")
				curFA = nil
			}
			if g == nil || g.Pkg == nil || m.byPath[g.Pkg.Pkg.Path()] != g.Pkg {
				continue
			}
			curG = g
			add("state\t"+m.Name+":"+relOf(g.Pkg)+"\t"+refGlobalName(g), in.Pos(), relOf(g.Pkg), "package-level variable "+refGlobalName(g)+" is written after initialisation (in "+fname(top)+")")
			curG = nil
		}
	}
	sort.Slice(out, func(i, j int) bool { return out[i].line < out[j].line })
	return out
}

// rootGlobal: the package-level variable an address or a map/slice/pointer value is rooted in.
// direct is true when v is the variable's own address (not something loaded from it).
func rootGlobal(v ssa.Value) (g *ssa.Global, direct bool) {
	direct = true
	for i := 0; i < 8; i++ {
		switch x := v.(type) {
		case *ssa.Global:
			return x, direct
		case *ssa.FieldAddr:
			v = x.X
		case *ssa.IndexAddr:
			v = x.X
		case *ssa.UnOp:
			if x.Op != token.MUL {
				return nil, false
			}
			v = x.X
			direct = false
		case *ssa.ChangeType:
			v = x.X
		default:
			return nil, false
		}
	}
	return nil, false
}

func (m *Module) modulePath() string {
	if m.Name == "godev" {
		return modPath + "/godev"
	}
	return modPath
}

// checkInventory reports, under property prop, the inventory entries of its packages that the
// reference inventory does not have.
func checkInventory(c *Ctx, prop string) {
	r := c.R
	n := 0
	for _, m := range []*Module{c.Root(), c.Godev()} {
		for _, e := range inventoryOf(m) {
			mine := false
			file, _, _ := strings.Cut(m.Pos(e.pos), ":")
			for _, p := range propsOfSite(m.Name, e.rel, file) {
				if p == prop {
					mine = true
				}
			}
			if !mine {
				continue
			}
			n++
			if baselineInventory[e.line] {
				continue
			}
			kind, rest, _ := strings.Cut(e.line, "\t")
			// book-keeping state (tally.go): only ever updated, read by nothing that is reachable
			if kind == "state" && e.g != nil {
				if ok, _ := tallyOnlyGlobal(m.Prog, e.g); ok {
					r.Check(prop+".inventory", "new "+kind+": "+strings.ReplaceAll(rest, "\t", " → ")+" (book-keeping only)", m.Pos(e.pos), true, "only updated; never read by reachable code")
					continue
				}
			}
			if kind == "field" && e.fa != nil && isNewField(e.fa) {
				if ok, _ := tallyOnlyField(m.Prog, e.fa); ok {
					r.Check(prop+".inventory", "new "+kind+": "+strings.ReplaceAll(rest, "\t", " → ")+" (book-keeping only)", m.Pos(e.pos), true, "only updated; never read by reachable code")
					continue
				}
			}
			// a reference function of another package that neither performs an effect nor changes any
			// state (transitively) adds nothing to the surface
			if kind == "xcall" && e.callee != nil && e.callee.Pkg != nil && !changesAnything(m, e.callee) {
				r.Check(prop+".inventory", "new "+kind+": "+strings.ReplaceAll(rest, "\t", " → ")+" (no effect, no state)", m.Pos(e.pos), true, "the callee performs no effect and changes no state")
				continue
			}
			if why := coveredEntry(kind, rest, e); why != "" {
				r.Check(prop+".inventory", "new "+kind+": "+strings.ReplaceAll(rest, "\t", " → ")+" (decided by a rule)", m.Pos(e.pos), true, why)
				continue
			}
			r.Check(prop+".inventory", "new "+kind+": "+strings.ReplaceAll(rest, "\t", " → "), m.Pos(e.pos), false,
				"not in the reference inventory: "+e.what+". New effects, new ways into other packages and new process-wide state are outside what the rules of this property have looked at; they must be reviewed (and the inventory regenerated) before the property can be considered decided for this tree")
		}
	}
	r.Check(prop+".inventory", "inventory entries of this property's packages are all in the reference inventory", "-", n >= 1, fmt.Sprintf("%d entries compared", n))
}

func dumpInventory(repo string) {
	c := &Ctx{Repo: repo, Tier: "quick", R: newReport("inventory", "quick", 0)}
	c.goos, c.arch = "linux", "amd64"
	var lines []string
	for _, m := range []*Module{c.Root(), c.Godev()} {
		for _, e := range inventoryOf(m) {
			lines = append(lines, e.line)
		}
	}
	sort.Strings(lines)
	fmt.Println("# reference inventory (effects per function, calls into other packages, package-level state); regenerate with -dump-inventory")
	prev := ""
	for _, l := range lines {
		if l != prev {
			fmt.Println(l)
		}
		prev = l
	}
}

type fieldWrite struct {
	fa    *ssa.FieldAddr
	named *types.Named
	kind  string // assign | element
}

// fieldWritesOf: the writes instruction in makes to fields of objects it did not allocate
// itself: p.f = v (assign), p.f[i] = v / p.f[k] = v / copy(p.f[…], …) (element).
func fieldWritesOf(in ssa.Instruction) []fieldWrite {
	var out []fieldWrite
	fieldOf := func(addr ssa.Value, throughLoad bool) (*ssa.FieldAddr, bool) {
		// addr is &p.f (assign) or derived from a load of p.f (element)
		v := addr
		loaded := false
		for i := 0; i < 6; i++ {
			switch x := v.(type) {
			case *ssa.FieldAddr:
				if _, fresh := x.X.(*ssa.Alloc); fresh {
					return nil, false
				}
				// … or a pointer variable that holds the object this (top-level) function built
				if a, ok := deref(x.X).(*ssa.Alloc); ok && fnameTop(a.Parent()) == fnameTop(in.Parent()) {
					if _, isStruct := a.Type().Underlying().(*types.Pointer).Elem().Underlying().(*types.Struct); isStruct {
						return nil, false
					}
				}
				return x, loaded
			case *ssa.IndexAddr:
				v = x.X
			case *ssa.Slice:
				v = x.X
			case *ssa.UnOp:
				if x.Op != token.MUL {
					return nil, false
				}
				v = x.X
				loaded = true
			default:
				return nil, false
			}
		}
		return nil, false
	}
	namedOf := func(fa *ssa.FieldAddr) *types.Named {
		pt, ok := fa.X.Type().Underlying().(*types.Pointer)
		if !ok {
			return nil
		}
		nt, _ := pt.Elem().(*types.Named)
		return nt
	}
	record := func(addr ssa.Value, forceElement bool) {
		fa, loaded := fieldOf(addr, false)
		if fa == nil {
			return
		}
		nt := namedOf(fa)
		if nt == nil {
			return
		}
		kind := "assign"
		if loaded || forceElement {
			kind = "element"
		}
		out = append(out, fieldWrite{fa, nt, kind})
	}
	switch x := in.(type) {
	case *ssa.Store:
		if _, isFA := x.Addr.(*ssa.FieldAddr); isFA {
			record(x.Addr, false)
		} else {
			// an element of a slice/array held in a field
			if ia, isIA := x.Addr.(*ssa.IndexAddr); isIA {
				record(ia.X, true)
			}
		}
	case *ssa.MapUpdate:
		record(x.Map, true)
	case *ssa.Call:
		if b, isB := x.Call.Value.(*ssa.Builtin); isB && b.Name() == "copy" && len(x.Call.Args) == 2 {
			record(x.Call.Args[0], true)
		}
	}
	return out
}

func coveredEntry(kind, rest string, e invEntry) string {
	for _, cv := range inventoryCovered {
		if cv.kind != kind || !strings.HasPrefix(rest, cv.pkg+"\t") || len(e.tops) == 0 {
			continue
		}
		all := true
		for t := range e.tops {
			if t != cv.fn {
				all = false
			}
		}
		if all {
			return cv.why
		}
	}
	return ""
}

// isNewField: the field addressed by fa is not a field of the reference tree's struct type.
func isNewField(fa *ssa.FieldAddr) bool {
	pt, ok := fa.X.Type().Underlying().(*types.Pointer)
	if !ok {
		return false
	}
	nt, ok := pt.Elem().(*types.Named)
	if !ok || nt.Obj().Pkg() == nil {
		return false
	}
	payload, ok := baselineDecl["fields:"+nt.Obj().Pkg().Path()+"."+refTypeNameOf(nt)]
	if !ok {
		return false
	}
	name := refFieldName(fa.X.Type(), fa.Field)
	for _, alt := range strings.Split(payload, "\x00") {
		for _, f := range strings.Split(alt, "|") {
			if n, _, _ := strings.Cut(f, " "); n == name {
				return false
			}
		}
	}
	return true
}

// changesAnything: some function reachable from f performs a primitive effect, writes a
// package-level variable, a field of an object it did not build, a channel, or starts a goroutine.
func changesAnything(m *Module, f *ssa.Function) bool {
	// static calls and closures only: what a dynamically dispatched call does depends on the
	// values the caller hands in, and those are the caller's own entries
	seen := map[*ssa.Function]bool{f: true}
	work := []*ssa.Function{f}
	for len(work) > 0 {
		g := work[0]
		work = work[1:]
		if g.Blocks == nil || g.Pkg == nil && g.Parent() == nil || !strings.HasPrefix(pkgPathOfFn(g), modPath) {
			continue
		}
		if len(directEffects(g)) > 0 {
			return true
		}
		for _, in := range instrsOf(g) {
			switch x := in.(type) {
			case *ssa.Go, *ssa.Send:
				return true
			case *ssa.Store:
				if gg, _ := rootGlobal(x.Addr); gg != nil {
					return true
				}
			case *ssa.MapUpdate:
				if gg, _ := rootGlobal(x.Map); gg != nil {
					return true
				}
			}
			// function values mentioned anywhere (literals with or without captured variables, method values)
			for _, op := range in.Operands(nil) {
				if op == nil || *op == nil {
					continue
				}
				if fn, ok := (*op).(*ssa.Function); ok && !seen[fn] {
					seen[fn] = true
					work = append(work, fn)
				}
			}
			if len(fieldWritesOf(in)) > 0 {
				return true
			}
			if ci, ok := in.(ssa.CallInstruction); ok {
				if cal := ci.Common().StaticCallee(); cal != nil && !seen[cal] {
					seen[cal] = true
					work = append(work, cal)
				}
			}
		}
	}
	return false
}

func pkgPathOfFn(f *ssa.Function) string {
	for f.Parent() != nil {
		f = f.Parent()
	}
	if f.Pkg != nil {
		return f.Pkg.Pkg.Path()
	}
	if f.Origin() != nil && f.Origin().Pkg != nil {
		return f.Origin().Pkg.Pkg.Path()
	}
	return ""
}
