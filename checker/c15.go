package main

// C15 — stack counter names identify call stacks faithfully and within bounds (structural part).

import (
	"fmt"
	"go/token"
	"go/types"
	"strings"

	"golang.org/x/tools/go/ssa"
)

func init() {
	register("C15", &propDef{
		run: runC15,
		decided: []string{
			"every value EncodeStack returns has len ≤ maxNameLen (length algebra on each return edge) and the truncated form ends with the visible marker",
			"one separator: every site that decides 'stack counter or not' or splits off the counter name uses the same newline constant",
			"DecodeStack is the identity on names without a newline and total (bounds/loops obligations)",
			"ditto state: after every frame EncodeStack's remembered import path is that frame's path (what DecodeStack remembers after the corresponding line), on every path to the next frame",
			"cache: a cached counter is reused only when the full PC slices are equal (length and every element), the new entry stores the PCs it encoded, all under the counter's mutex",
		},
		notDecided: []string{"DecodeStack(EncodeStack(frames)) equals the uncompressed rendering", "injectivity on non-truncated stacks"},
	})
}

// c15Length: every value EncodeStack returns is at most maxNameLen bytes (shared with C14.name-cap).
func c15Length(c *Ctx, m *Module, rule string) {
	r := c.R
	enc := m.Func("internal/counter", "EncodeStack")
	maxName := int64(0)
	fmt.Sscan(m.ConstVal("internal/counter", "maxNameLen"), &maxName)
	// ---- length --------------------------------------------------------------
	for _, b := range enc.Blocks {
		ret, ok := b.Instrs[len(b.Instrs)-1].(*ssa.Return)
		if !ok {
			continue
		}
		type edge struct {
			v     ssa.Value
			facts []Fact
			what  string
		}
		var edges []edge
		if phi, ok := strip(ret.Results[0]).(*ssa.Phi); ok {
			for i, e := range phi.Edges {
				pred := phi.Block().Preds[i]
				fs := append(blockFacts(pred), lastBranchFact(pred, phi.Block())...)
				edges = append(edges, edge{e, fs, fmt.Sprintf("edge %d", i)})
			}
		} else {
			edges = append(edges, edge{ret.Results[0], factsAt(ret), "return"})
		}
		for _, e := range edges {
			p := newProver()
			ln := p.lenOf(e.v)
			var facts []lin
			for _, f := range e.facts {
				facts = append(facts, p.factLin(f)...)
			}
			ok, why := p.prove(linConst(maxName).add(ln, -1), facts)
			kind := "untruncated"
			d := describe(e.v)
			if strings.Contains(d, "slice(") {
				kind = "truncated"
			}
			r.Check(rule, "EncodeStack/"+kind+" result is at most maxNameLen bytes", m.Pos(ret.Pos()), ok, "need maxNameLen − len(result) ≥ 0: "+why+"; result "+shortDesc(d))
			if kind == "truncated" {
				// ends with a marker constant containing "truncated" and a newline on both sides
				marker := ""
				if bo, ok := strip(e.v).(*ssa.BinOp); ok && bo.Op == token.ADD {
					marker, _ = constOf(bo.Y)
				}
				r.Check(rule, "EncodeStack/truncation is visibly marked", m.Pos(ret.Pos()), strings.Contains(marker, "truncated") && strings.HasPrefix(marker, "\n") && strings.HasSuffix(marker, "\n"),
					fmt.Sprintf("the truncated name must end with a marker line; got %q", marker))
			}
		}
	}
	r.Floor(rule, 2)
	// bounds of EncodeStack's own slice expression
	boundsObligationsT(r, m, rule, enc, nil)

}

func runC15(c *Ctx) {
	m := c.Root()
	r := c.R
	c10Constants(c, m, "C15.length")
	enc := m.Func("internal/counter", "EncodeStack")
	maxName := int64(0)
	fmt.Sscan(m.ConstVal("internal/counter", "maxNameLen"), &maxName)

	c15Length(c, m, "C15.length")
	c15DittoState(c, m)

	// ---- separator ---------------------------------------------------------------
	sepSites := 0
	// roles of a separator site and the calls that can play them (the separator is argument 1;
	// IsStackCounter is the shared newline test itself)
	families := map[string][]string{
		"test":  {"strings.Contains", "strings.ContainsRune", "strings.Index", "strings.IndexByte", "strings.IndexRune", "strings.Count", "internal/counter.IsStackCounter"},
		"split": {"strings.Cut", "strings.Split", "strings.SplitN", "strings.SplitAfter", "strings.SplitAfterN", "strings.Index", "strings.IndexByte", "strings.IndexRune"},
		"join":  {"strings.Join", "(*strings.Builder).WriteByte", "(*strings.Builder).WriteRune", "(*strings.Builder).WriteString"},
	}
	isNewline := func(v ssa.Value) (bool, string) {
		if k, isC := constOf(v); isC {
			if n, isInt := intConst(v); isInt {
				return n == 10, fmt.Sprintf("%q", rune(n))
			}
			return k == "\n", fmt.Sprintf("%q", k)
		}
		return false, describe(v)
	}
	checkSep := func(mod *Module, pkg, fn string, roles ...string) {
		f := mod.FuncOpt(pkg, fn)
		if f == nil {
			r.Check("C15.separator-agreement", pkg+"."+fn, "-", false, "function not found")
			return
		}
		seenCall := map[ssa.CallInstruction]bool{}
		for _, role := range roles {
			n := 0
			for _, cs := range callsInAll(f, families[role]...) {
				n++
				if seenCall[cs] {
					continue
				}
				seenCall[cs] = true
				sepSites++
				if calleeName(cs.Common()) == "internal/counter.IsStackCounter" {
					continue // the shared test; its own separator is checked at IsStackCounter
				}
				if strings.Contains(calleeName(cs.Common()), "strings.Builder).Write") {
					// writing into a builder joins lines only where a CONSTANT is written between them
					if _, isC := constOf(argsOf(cs)[1]); !isC {
						n--
						continue
					}
				}
				ok, got := isNewline(argsOf(cs)[1])
				r.Check("C15.separator-agreement", short(refName(f))+"/"+calleeName(cs.Common()), mod.Pos(cs.Pos()), ok, "separator must be the newline; got "+got)
			}
			r.Check("C15.separator-agreement", short(refName(f))+"/uses the separator ("+role+")", mod.Pos(f.Pos()), n >= 1, "expected a newline "+role+" here")
		}
	}
	checkSep(m, "internal/counter", "IsStackCounter", "test")
	c15IsStackCounter(c, m, "C15.separator-agreement")
	c15DecodeResult(c, m, "C15.decode-total")
	c15PublicForwarding(c, m)
	checkSep(m, "internal/counter", "DecodeStack", "test", "split", "join")
	checkSep(m, "internal/counter", "EncodeStack", "join")
	checkSep(m, "internal/upload", "uploader.createReport", "split")
	checkSep(m, "cmd/gotelemetry/internal/view", "summary", "split")
	checkSep(m, "cmd/gotelemetry/internal/view", "newCounterFile", "split")
	checkSep(c.Godev(), "cmd/telemetrygodev", "validate", "split")
	// EncodeStack: prefix + "\n" + joined
	okPrefix := false
	for _, in := range instrsOf(enc) {
		if bo, ok := in.(*ssa.BinOp); ok && bo.Op == token.ADD {
			if k, isC := constOf(bo.Y); isC && k == "\n" && bo.X == ssa.Value(enc.Params[1]) {
				okPrefix = true
			}
		}
	}
	r.Check("C15.separator-agreement", "EncodeStack/name = prefix + newline + frames", m.Pos(enc.Pos()), okPrefix, "the counter name is everything before the first newline")
	// the frames joined are all the frames: Join's argument grows by append only (never resliced,
	// filtered or replaced), so dropping frames can only happen in the marked truncation of the name
	for _, cs := range callsIn(enc, "strings.Join") {
		var bad string
		seen := map[ssa.Value]bool{}
		var visit func(v ssa.Value)
		visit = func(v ssa.Value) {
			if seen[v] || bad != "" {
				return
			}
			seen[v] = true
			switch x := v.(type) {
			case *ssa.Phi:
				for _, e := range x.Edges {
					visit(e)
				}
			case *ssa.Const:
				if !x.IsNil() {
					bad = describe(v)
				}
			case *ssa.MakeSlice:
			case *ssa.Call:
				if base, _, ok := appendedElems(x); ok {
					visit(base)
				} else {
					bad = shortDesc(describe(v))
				}
			default:
				bad = shortDesc(describe(v))
			}
		}
		visit(cs.Common().Args[0])
		r.Check("C15.separator-agreement", "EncodeStack/joins every encoded frame", m.Pos(cs.Pos()), bad == "", "the joined slice must be built by append alone; found "+bad)
	}
	r.Analysed["separator_sites"] = sepSites
	// createReport and ReadFile classify with IsStackCounter
	for _, spec := range [][2]string{{"internal/upload", "uploader.createReport"}, {"internal/counter", "ReadFile"}} {
		f := m.Func(spec[0], spec[1])
		r.Check("C15.separator-agreement", short(refName(f))+"/classifies with IsStackCounter", m.Pos(f.Pos()), len(callsIn(f, "internal/counter.IsStackCounter")) >= 1, "one predicate decides what a stack counter is")
	}

	// ---- decode: identity on plain names -------------------------------------------
	dec := m.Func("internal/counter", "DecodeStack")
	okId := false
	for _, b := range dec.Blocks {
		if ret, ok := b.Instrs[len(b.Instrs)-1].(*ssa.Return); ok && ret.Results[0] == ssa.Value(dec.Params[0]) {
			okId = hasFact(factsAt(ret), callResultIs("strings.Contains", false, func(a []ssa.Value, _ *ssa.Call) bool {
				k, isC := constOf(a[1])
				return a[0] == ssa.Value(dec.Params[0]) && isC && k == "\n"
			})) || hasFact(factsAt(ret), callResultIs("internal/counter.IsStackCounter", false, func(a []ssa.Value, _ *ssa.Call) bool {
				return a[0] == ssa.Value(dec.Params[0]) // the shared newline test (its separator: C15.separator-agreement)
			}))
		}
	}
	r.Check("C15.decode-total", "DecodeStack/identity on names without a newline", m.Pos(dec.Pos()), okId, "return ename itself under ¬Contains(ename, newline)")
	for _, f := range []*ssa.Function{dec, m.Func("internal/counter", "cutLastDot")} {
		boundsObligationsT(r, m, "C15.decode-total", f, nil)
		loopObligations(r, m, "C15.decode-total", f, nil)
	}

	// ---- cache key -----------------------------------------------------------------
	inc := m.Func("internal/counter", "StackCounter.Inc")
	eq := m.FuncOpt("internal/counter", "eq")
	// the pcs captured for this call
	var pcs ssa.Value
	for _, cs := range callsIn(inc, "runtime.Callers") {
		for _, in := range instrsOf(inc) {
			if sl, ok := in.(*ssa.Slice); ok && sl.X == argsOf(cs)[1] && sl.High == ssa.Value(cs.(*ssa.Call)) {
				pcs = sl
			}
		}
	}
	r.Check("C15.cache-key", "StackCounter.Inc/captures the caller's PCs", m.Pos(inc.Pos()), pcs != nil, "pcs = buf[:runtime.Callers(…)]")
	// reuse: every non-nil, non-new value flowing into the incremented counter lies under eq(s.pcs, pcs)
	for _, cs := range callsIn(inc, "(*internal/counter.Counter).Inc") {
		var check func(v ssa.Value, facts []Fact, seen map[ssa.Value]bool)
		check = func(v ssa.Value, facts []Fact, seen map[ssa.Value]bool) {
			v = strip(v)
			if seen[v] || isNilConst(v) {
				return
			}
			seen[v] = true
			switch x := v.(type) {
			case *ssa.Phi:
				for i, e := range x.Edges {
					pred := x.Block().Preds[i]
					check(e, append(blockFacts(pred), lastBranchFact(pred, x.Block())...), seen)
				}
			case *ssa.Alloc:
				// the newly created counter: its name is EncodeStack(pcs, c.name) and the entry appended stores the same pcs
				lit, _ := structLit(x)
				nd := describe(lit["name"])
				okNew := pcs != nil && strings.HasPrefix(nd, "internal/counter.EncodeStack(") && strings.Contains(nd, "param:c.name")
				if cl, ok := strip(lit["name"]).(*ssa.Call); ok && pcs != nil {
					okNew = okNew && argsOf(cl)[0] == pcs
				}
				r.Check("C15.cache-key", "StackCounter.Inc/new counter is named by EncodeStack(pcs, c.name)", m.Pos(x.Pos()), okNew, "got "+nd)
				// appended stack entry
				okEntry := false
				for _, in := range instrsOf(inc) {
					if al, ok := in.(*ssa.Alloc); ok && namedType(al.Type()) == "internal/counter.stack" {
						if l2, ok := structLit(al); ok && l2["counter"] != nil && strip(l2["counter"]) == ssa.Value(x) {
							okEntry = pcs != nil && l2["pcs"] == pcs
						}
					}
				}
				r.Check("C15.cache-key", "StackCounter.Inc/cache entry stores the encoded PCs with the new counter", m.Pos(x.Pos()), okEntry, "stack{pcs: pcs, counter: ctr}")
				// … and is remembered whatever its name looks like: from its creation, every path to the
				// increment passes the store into c.stacks
				isRemember := func(in ssa.Instruction) bool {
					st, ok := in.(*ssa.Store)
					if !ok {
						return false
					}
					fa, ok := st.Addr.(*ssa.FieldAddr)
					if !ok {
						return false
					}
					_, fld, _ := fieldAddrName(fa)
					return fld == "stacks"
				}
				skipped := reachesWithout(x, func(in ssa.Instruction) bool { return in == cs.(ssa.Instruction) }, isRemember)
				r.Check("C15.cache-key", "StackCounter.Inc/every new counter is remembered", m.Pos(x.Pos()), skipped == nil,
					"a counter that is created but not appended to c.stacks is created again by the next increment from the same stack")
			default:
				// a cached counter: must lie under eq(s.pcs, pcs) where the counter is s.counter of the same s
				okEq := false
				if eq != nil {
					okEq = hasFact(facts, callResultIs("internal/counter.eq", true, func(a []ssa.Value, _ *ssa.Call) bool {
						if pcs == nil {
							return false
						}
						other := a[0]
						if a[0] == pcs {
							other = a[1]
						} else if a[1] != pcs {
							return false
						}
						ob, of, ok1 := fieldLoad(other)
						cb, cf, ok2 := fieldLoad(v)
						return ok1 && ok2 && of == "pcs" && cf == "counter" && describe(ob) == describe(cb)
					}))
				}
				r.Check("C15.cache-key", "StackCounter.Inc/cached counter reused only for equal PCs", m.Pos(cs.Pos()), okEq,
					"a cached counter may be incremented only under eq(entry.pcs, pcs) for the entry it belongs to; value "+describe(v))
			}
		}
		check(argsOf(cs)[0], factsAt(cs), map[ssa.Value]bool{})
	}
	// eq: length equality and element-wise comparison
	if eq == nil {
		r.Check("C15.cache-key", "eq/compares whole PC slices", "-", false, "no slice-equality helper found: the cache must compare the complete PC slices")
	} else {
		okLen, okElem := false, false
		for _, b := range eq.Blocks {
			ret, ok := b.Instrs[len(b.Instrs)-1].(*ssa.Return)
			if !ok {
				continue
			}
			if k, _ := constOf(ret.Results[0]); k == "true" {
				// under len(a) == len(b), after a loop over all indices
				for _, f := range factsAt(ret) {
					if bo, isB := f.Cond.(*ssa.BinOp); isB && describe(bo.X) == "builtin:len(param:a)" && describe(bo.Y) == "builtin:len(param:b)" {
						if (bo.Op == token.NEQ && !f.Pol) || (bo.Op == token.EQL && f.Pol) {
							okLen = true
						}
					}
				}
			}
		}
		for _, l := range naturalLoops(eq) {
			cl := classifyLoop(l)
			for blk := range l.blocks {
				if cond, val, ok := l.exitsOn(blk); ok {
					if bo, isB := cond.(*ssa.BinOp); isB && bo.Op == token.NEQ && val {
						dx, dy := describe(bo.X), describe(bo.Y)
						if strings.HasPrefix(dx, "param:b[") {
							dx, dy = dy, dx // != is symmetric
						}
						if strings.HasPrefix(dx, "param:a[") && strings.HasPrefix(dy, "param:b[") && dx[len("param:a"):] == dy[len("param:b"):] {
							if rb := returnBlock(blk.Succs[0]); rb != nil {
								if k, _ := constOf(rb.Results[0]); k == "false" {
									okElem = cl.Kind == "counted" || cl.Kind == "range"
								}
							}
						}
					}
				}
			}
		}
		r.Check("C15.cache-key", "eq/true only for equal lengths", m.Pos(eq.Pos()), okLen, "return true must lie under len(a) == len(b)")
		r.Check("C15.cache-key", "eq/false on the first differing element over all indices", m.Pos(eq.Pos()), okElem, "for every i: a[i] != b[i] ⇒ return false")
	}
	// mutex: Lock precedes the cache scan, Unlock is deferred
	var lock ssa.CallInstruction
	for _, cs := range callsIn(inc, "(*sync.Mutex).Lock") {
		lock = cs
	}
	okMu := false
	if lock != nil {
		for _, in := range instrsOf(inc) {
			if d, ok := in.(*ssa.Defer); ok && calleeName(&d.Call) == "(*sync.Mutex).Unlock" && describeArg(d, 0) == describeArg(lock, 0) && precedes(lock, d) {
				okMu = true
			}
		}
		// every access to c.stacks after the lock
		for _, in := range instrsOf(inc) {
			if fa, ok := in.(*ssa.FieldAddr); ok {
				if _, f, _ := fieldAddrName(fa); f == "stacks" && !precedes(lock, fa) {
					okMu = false
				}
			}
		}
	}
	r.Check("C15.cache-key", "StackCounter.Inc/lookup-or-create runs under c.mu", m.Pos(inc.Pos()), okMu, "Lock, deferred Unlock, and every access to c.stacks after the Lock")
}

// c15DittoState: the encoder abbreviates a frame's import path to the ditto mark when it equals
// the path it remembers, and the decoder expands the mark from the path IT remembers (the last
// explicit one). The two agree only if, after every frame, the encoder remembers that frame's
// path: every value carried to the next iteration is the frame's path itself, or the old value
// on an edge where it was found equal to the frame's path.
func c15DittoState(c *Ctx, m *Module) {
	r := c.R
	enc := m.Func("internal/counter", "EncodeStack")
	n := 0
	for _, l := range naturalLoops(enc) {
		for _, in := range l.header.Instrs {
			h, ok := in.(*ssa.Phi)
			if !ok || !isStringy(h.Type()) {
				continue
			}
			// the comparison path == remembered
			var cmp *ssa.BinOp
			var p0 ssa.Value
			for _, u := range referrers(h) {
				if bo, ok := u.(*ssa.BinOp); ok && (bo.Op == token.EQL || bo.Op == token.NEQ) && l.blocks[bo.Block()] {
					other := bo.X
					if other == ssa.Value(h) {
						other = bo.Y
					}
					if strings.Contains(describe(other), "internal/counter.cutLastDot(") {
						cmp, p0 = bo, other
					}
				}
			}
			if cmp == nil {
				continue
			}
			n++
			bad := ""
			seen := map[*ssa.Phi]bool{}
			var leaf func(e ssa.Value, pred, blk *ssa.BasicBlock)
			leaf = func(e ssa.Value, pred, blk *ssa.BasicBlock) {
				if phi, ok := e.(*ssa.Phi); ok && phi != h && l.blocks[phi.Block()] {
					if seen[phi] {
						return
					}
					seen[phi] = true
					for i, e2 := range phi.Edges {
						leaf(e2, phi.Block().Preds[i], phi.Block())
					}
					return
				}
				switch {
				case e == p0:
				case e == ssa.Value(h):
					facts := append(append([]Fact{}, blockFacts(pred)...), lastBranchFact(pred, blk)...)
					okEq := hasFact(facts, func(f Fact) bool {
						bo, ok := f.Cond.(*ssa.BinOp)
						return ok && bo == cmp && assertsEq(bo, f.Pol)
					})
					if !okEq {
						bad += " the old value is carried over on a path where it was not found equal to the frame's path (from block " + fmt.Sprint(pred.Index) + ");"
					}
				default:
					bad += " " + shortDesc(describe(e)) + " is remembered instead of the frame's path;"
				}
			}
			for i, e := range h.Edges {
				if l.blocks[l.header.Preds[i]] {
					leaf(e, l.header.Preds[i], l.header)
				}
			}
			r.Check("C15.separator-agreement", "EncodeStack/remembers each frame's path for the ditto mark", m.Pos(h.Pos()), bad == "",
				"DecodeStack expands a ditto mark from the last explicit path, so after EVERY frame the encoder must remember that frame's path:"+bad)
		}
	}
	r.Check("C15.separator-agreement", "EncodeStack/has the ditto state", m.Pos(enc.Pos()), n == 1, fmt.Sprintf("%d remembered-path variables compared with the frame's path", n))
}

// c15IsStackCounter: IsStackCounter is exactly "the name contains a newline" (shared with C11:
// uploader, server and viewer must classify a key the same way).
func c15IsStackCounter(c *Ctx, m *Module, rule string) {
	r := c.R
	// IsStackCounter is exactly "the name contains a newline": the result is the containment
	// call itself, or an index compared so that position 0 counts as found
	{
		isc := m.Func("internal/counter", "IsStackCounter")
		for _, ex := range exitPaths(isc) {
			v := strip(ex.vals[0])
			okRes, got := false, describe(v)
			switch x := v.(type) {
			case *ssa.Call:
				n := calleeName(&x.Call)
				okRes = n == "strings.Contains" || n == "strings.ContainsRune"
			case *ssa.BinOp:
				var idx ssa.Value = x.X
				k, isC := intConst(x.Y)
				if cl, ok := strip(idx).(*ssa.Call); ok && isC && strings.HasPrefix(calleeName(&cl.Call), "strings.Index") {
					okRes = (x.Op == token.GEQ && k == 0) || (x.Op == token.GTR && k == -1) || (x.Op == token.NEQ && k == -1)
				}
			case *ssa.Const:
				okRes = false
			}
			r.Check(rule, "IsStackCounter/true exactly when the name contains a newline", m.Pos(ex.ret.Pos()), okRes,
				"a newline at index 0 (an empty counter prefix) counts: Contains(name, \"\\n\") or Index… >= 0; got "+shortDesc(got))
		}
	}
}

// c15DecodeResult: what DecodeStack returns is the name itself (no newline in it) or the lines
// joined again with the separator — nothing trimmed, appended or replaced afterwards. A decoder
// that drops a trailing newline turns the stored name "runs\n" (a stack counter with no
// frames) into the plain counter name "runs". Shared with C01 (near-misses of approved names)
// and C06 (the recorded name is the once-decoded record name).
func c15DecodeResult(c *Ctx, m *Module, rule string) {
	r := c.R
	dec := m.Func("internal/counter", "DecodeStack")
	n := 0
	// a line is rewritten (its path replaced by the remembered one) exactly when its path is the
	// ditto mark — a one-letter import path ("p.report") is a path like any other
	nRw := 0
	for _, in := range instrsOf(dec) {
		st, ok := in.(*ssa.Store)
		if !ok {
			continue
		}
		if _, isEl := st.Addr.(*ssa.IndexAddr); !isEl {
			continue
		}
		if b, isB := st.Val.Type().Underlying().(*types.Basic); !isB || b.Kind() != types.String {
			continue
		}
		// the value stored: a rewritten line (a concatenation), possibly merged with the unchanged line
		type rwCase struct {
			v     ssa.Value
			facts []Fact
		}
		var cases []rwCase
		var collect func(v ssa.Value, facts []Fact, depth int)
		collect = func(v ssa.Value, facts []Fact, depth int) {
			if phi, isPhi := v.(*ssa.Phi); isPhi && depth < 4 {
				for i, e := range phi.Edges {
					fs := append([]Fact{}, facts...)
					for _, g := range edgeFactsOf(phi, i) {
						fs = append(fs, expandFact(g)...)
					}
					collect(e, fs, depth+1)
				}
				return
			}
			cases = append(cases, rwCase{v, facts})
		}
		collect(st.Val, factsAt(st), 0)
		for _, cse := range cases {
			if bo, isCat := strip(cse.v).(*ssa.BinOp); !isCat || bo.Op != token.ADD {
				continue // the line as it was
			}
			nRw++
			isLen1, isQuote, isEq := false, false, false
			for _, f := range cse.facts {
				bo, isBo := f.Cond.(*ssa.BinOp)
				if !isBo {
					continue
				}
				d := describe(bo)
				k, isC := constOf(bo.Y)
				switch {
				case bo.Op == token.EQL && f.Pol && isC && k == "1" && strings.Contains(d, "builtin:len("):
					isLen1 = true
				case bo.Op == token.EQL && f.Pol && isC && k == "34":
					isQuote = true
				case bo.Op == token.EQL && f.Pol && isC && k == "\"":
					isEq = true
				}
			}
			r.Check(rule, "DecodeStack/a line is rewritten only when its path is the ditto mark", m.Pos(st.Pos()), isEq || (isLen1 && isQuote),
				"lines[i] = lastPath + rest must lie under len(path) == 1 && path[0] == '\"' (both)")
		}
	}
	r.Analysed["decode_rewrite_sites"] = nRw // 0 when the result is built in a strings.Builder (not examined)
	for _, ex := range exitPaths(dec) {
		n++
		v := strip(refine(ex.vals[0], ex.facts))
		ok := v == ssa.Value(dec.Params[0])
		if cl, isCall := v.(*ssa.Call); isCall && calleeName(&cl.Call) == "strings.Join" {
			k, isC := constOf(argsOf(cl)[1])
			ok = isC && k == "\n"
		}
		if cl, isCall := v.(*ssa.Call); isCall && calleeName(&cl.Call) == "(*strings.Builder).String" {
			ok = true // the lines written one by one (what is written between them: separator families above)
		}
		r.Check(rule, fmt.Sprintf("DecodeStack/result #%d is the name or the re-joined lines", n), m.Pos(ex.ret.Pos()), ok,
			"the decoded name must be returned as joined (strings.Join(lines, newline)) or unchanged; got "+shortDesc(describe(v)))
	}
	r.Check(rule, "DecodeStack/results enumerated", m.Pos(dec.Pos()), n >= 2, fmt.Sprintf("%d", n))
}

// c15PublicForwarding: the public constructor hands the caller's name and depth to the
// internal one unchanged (a depth clamped on the way makes stacks that differ only beyond the
// clamp share a counter, although their names would not have been truncated).
func c15PublicForwarding(c *Ctx, m *Module) {
	r := c.R
	f := m.Func("counter", "NewStack")
	n := 0
	for _, cs := range callsIn(f, "internal/counter.NewStack") {
		n++
		a := cs.Common().Args
		ok := len(a) == len(f.Params)
		for i := range a {
			if ok && strip(a[i]) != ssa.Value(f.Params[i]) {
				ok = false
			}
		}
		r.Check("C15.separator-agreement", "counter.NewStack forwards name and depth unchanged", m.Pos(cs.Pos()), ok,
			"got NewStack("+shortDesc(describe(a[0]))+", "+shortDesc(describe(a[len(a)-1]))+")")
	}
	r.Check("C15.separator-agreement", "counter.NewStack calls the internal constructor", m.Pos(f.Pos()), n == 1, fmt.Sprintf("%d calls", n))
}
