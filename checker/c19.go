package main

// C19 — gotelemetry mode commands and clean touch exactly what they promise.

import (
	"fmt"
	"sort"
	"strings"

	"golang.org/x/tools/go/ssa"
)

func init() {
	register("C19", &propDef{
		run: runC19,
		decided: []string{
			"clean: the only file-system mutation reachable is os.Remove(Join(dir, entry.Name())) for entries of LocalDir/UploadDir listings whose name has one of that directory's suffixes; a failed removal does not stop the sweep",
			"suffix agreement: clean's suffixes equal the suffixes the library gives counter files, reports and upload markers; every other file name the library creates in those directories matches none of them",
			"on/local/off: the only reachable mutations are SetModeAsOf's MkdirAll+WriteFile of the mode file; SetMode(K) lies under old != K with the same constant K bound to the command; env reads through the same Mode()",
		},
		notDecided: []string{"byte identity of untouched files (decided as: no mutating call can name them)", "os.Remove on odd directory entries", "files in use on Windows"},
	})
}

func runC19(c *Ctx) {
	m := c.Root()
	r := c.R
	clean := m.Func("cmd/gotelemetry", "runClean")

	// a later `env` or library read reports the mode and the date that a mode command recorded
	c02ModeRead(c, m, "C19.mode-commands")

	// ---- clean effects -----------------------------------------------------
	effs, chains := m.reachableEffects([]*ssa.Function{clean}, nil)
	nRemove := 0
	for _, e := range effs {
		if e.Kind != effFS {
			r.Check("C19.clean-effects", "clean reaches "+e.Kind+" "+e.Name+" in "+fname(e.Fn), m.Pos(e.Call.Pos()), false, "clean may only remove files; chain: "+chainString(chains[e.Fn]))
			continue
		}
		if e.Name != "os.Remove" {
			r.Check("C19.clean-effects", "clean reaches "+e.Name+" in "+fname(e.Fn), m.Pos(e.Call.Pos()), false, "the only mutation allowed is os.Remove of a single directory entry (no RemoveAll, no writes); chain: "+chainString(chains[e.Fn]))
			continue
		}
		nRemove++
		fn := e.Fn
		path := describeArg(e.Call, 0)
		// path = Join([dir, entry.Name()])
		okPath := strings.HasPrefix(path, "path/filepath.Join([") && strings.Contains(path, "DirEntry).Name(") && strings.Contains(path, "os.ReadDir(")
		r.Check("C19.clean-effects", "clean/removed path is a listed entry of the swept directory", m.Pos(e.Call.Pos()), okPath, "got "+path)
		// under HasSuffix(entry.Name(), suffix) — directly, via a helper, or via a flag
		gated := false
		for _, f := range factsAt(e.Call) {
			if f.Pol && suffixGuard(f.Cond, map[ssa.Value]bool{}) {
				gated = true
			}
		}
		r.Check("C19.clean-effects", "clean/removal only for a matching suffix", m.Pos(e.Call.Pos()), gated, "os.Remove must lie under strings.HasSuffix(entry.Name(), suffix)")
		// a failed removal must not end the sweep: no return reachable from the Remove without passing the loop header
		hdr := innermostLoopHeader(e.Call.Block())
		okCont := hdr != nil
		if hdr != nil {
			w := reachesWithout(e.Call, isReturnOrExit, func(in ssa.Instruction) bool { return in.Block() == hdr })
			okCont = w == nil
		}
		r.Check("C19.clean-complete", "clean/sweep continues after a removal in "+short(refName(fn)), m.Pos(e.Call.Pos()), okCont,
			"after os.Remove (whatever its result) control must return to the entries loop; an early return leaves later counter files and reports behind")
		// and the function containing the remove loop must itself be invoked for every directory: if it is a helper, its error result must not stop the caller's loop
		if fn != clean {
			for _, cs := range m.callersOf(fn) {
				h2 := innermostLoopHeader(cs.Block())
				ok2 := h2 != nil && reachesWithout(cs, isReturnOrExit, func(in ssa.Instruction) bool { return in.Block() == h2 }) == nil
				r.Check("C19.clean-complete", "clean/helper "+short(refName(fn))+" called for every directory", m.Pos(cs.Pos()), ok2, "the per-directory helper's outcome must not end the sweep over directories")
			}
		}
	}
	r.Check("C19.clean-effects", "clean/has exactly one removal site", m.Pos(clean.Pos()), nRemove == 1, fmt.Sprintf("%d os.Remove sites reachable", nRemove))
	// clean ends only after the sweep: no return before (or instead of) the sweep of the directories —
	// one directory missing says nothing about the other
	nSweep := 0
	for _, cs := range callsIn(clean) {
		callee := cs.Common().StaticCallee()
		isSweep := calleeName(cs.Common()) == "os.ReadDir"
		if !isSweep && callee != nil && callee.Blocks != nil && strings.HasPrefix(pkgPathOfFn(callee), modPath) {
			for g := range m.reach([]*ssa.Function{callee}, nil) {
				if g.Blocks != nil && len(callsIn(g, "os.ReadDir")) > 0 {
					isSweep = true
				}
			}
		}
		if !isSweep {
			continue
		}
		nSweep++
		anchor := cs.Block()
		for _, l := range naturalLoops(clean) {
			if l.blocks[cs.Block()] && l.header.Dominates(anchor) {
				anchor = l.header
			}
		}
		early := ""
		for _, b := range clean.Blocks {
			last := b.Instrs[len(b.Instrs)-1]
			if _, isRet := last.(*ssa.Return); (isRet || isReturnOrExit(last)) && b.Comment != "recover" && !anchor.Dominates(b) {
				early = m.Pos(last.Pos())
			}
		}
		r.Check("C19.clean-complete", "clean/does not end before the sweep", m.Pos(cs.Pos()), early == "", "clean returns at "+early+" without having swept the directories")
	}
	r.Check("C19.clean-complete", "clean/sweep sites", m.Pos(clean.Pos()), nSweep >= 1, fmt.Sprintf("%d", nSweep))

	// ---- suffix agreement -----------------------------------------------------
	fileVersion := m.ConstVal("internal/counter", "FileVersion")
	countSuffix := "." + fileVersion + ".count"
	dirSuffixes := cleanSuffixTable(clean)
	r.Check("C19.suffix-agreement", "clean/local suffixes", m.Pos(clean.Pos()), strings.Join(dirSuffixes["LocalDir"], "|") == ".json|"+countSuffix,
		fmt.Sprintf("local dir: want {.json, %s}; got %v", countSuffix, dirSuffixes["LocalDir"]))
	r.Check("C19.suffix-agreement", "clean/upload suffixes", m.Pos(clean.Pos()), strings.Join(dirSuffixes["UploadDir"], "|") == ".json", fmt.Sprintf("upload dir: want {.json}; got %v", dirSuffixes["UploadDir"]))
	// the library's names
	rot := m.Func("internal/counter", "file.rotate1")
	okRot := false
	for _, v := range builtStrings(rot) {
		// … + "." + FileVersion + ".count", however it is put together
		if strings.HasSuffix(describe(v), fmt.Sprintf(` + ".") + %q) + ".count")`, fileVersion)) {
			okRot = true
		}
	}
	r.Check("C19.suffix-agreement", "rotate1/counter file suffix", m.Pos(rot.Pos()), okRot, "counter files are named …%s.<FileVersion>.count")
	fw := m.Func("internal/upload", "uploader.findWork")
	okFW := false
	for _, cs := range callsIn(fw, "strings.HasSuffix") {
		if k, _ := constOf(argsOf(cs)[1]); k == countSuffix {
			okFW = true
		}
	}
	r.Check("C19.suffix-agreement", "findWork/counter file suffix", m.Pos(fw.Pos()), okFW, "the uploader selects counter files by "+countSuffix)
	cr := m.Func("internal/upload", "uploader.createReport")
	for _, cs := range callsIn(cr, "internal/upload.exclusiveWrite") {
		d := describeArg(cs, 0)
		r.Check("C19.suffix-agreement", "createReport/report name ends in .json", m.Pos(cs.Pos()), strings.HasSuffix(d, `".json")])`) && strings.Contains(d, "LocalDir("), "got "+d)
	}
	urc := m.Func("internal/upload", "uploader.uploadReportContents")
	for _, cs := range callsIn(urc, "os.WriteFile") {
		d := describeArg(cs, 0)
		r.Check("C19.suffix-agreement", "uploadReportContents/marker name ends in .json", m.Pos(cs.Pos()), strings.HasSuffix(d, `".json")])`) && strings.Contains(d, "UploadDir("), "got "+d)
	}
	// complement: every other constant file name joined with LocalDir()/UploadDir() in library code matches no clean suffix
	allSuf := append(append([]string{}, dirSuffixes["LocalDir"]...), dirSuffixes["UploadDir"]...)
	nOther := 0
	for _, fn := range m.srcFns {
		p := ""
		if fn.Pkg != nil {
			p = short(fn.Pkg.Pkg.Path())
		}
		if strings.HasPrefix(p, "cmd/") || strings.Contains(p, "test") || strings.Contains(p, "regtest") {
			continue
		}
		for _, cs := range callsIn(fn, "path/filepath.Join") {
			sl, ok := argsOf(cs)[0].(*ssa.Slice)
			if !ok {
				continue
			}
			el, ok := varargElems(sl)
			if !ok || len(el) != 2 {
				continue
			}
			d0 := describe(el[0])
			if !strings.Contains(d0, "LocalDir(") && !strings.Contains(d0, "UploadDir(") {
				continue
			}
			k, isC := constOf(el[1])
			if !isC {
				continue
			}
			nOther++
			match := false
			for _, s := range allSuf {
				if strings.HasSuffix(k, s) {
					match = true
				}
			}
			r.Check("C19.suffix-agreement", "other library file "+fmt.Sprintf("%q", k)+" is not swept", m.Pos(cs.Pos()), !match, "files such as the week-end setting and the upload token must match none of clean's suffixes")
		}
	}
	// lock files: name + ".lock"
	for _, s := range allSuf {
		r.Check("C19.suffix-agreement", "lock files are not swept by "+s, "-", !strings.HasSuffix(".json.lock", s), "<week>.json.lock must not match")
	}
	r.Check("C19.suffix-agreement", "other library files enumerated", "-", nOther >= 2, fmt.Sprintf("%d constant names found (weekends, upload.token)", nOther))
	// the mode file is outside both directories
	nd := m.Func("internal/telemetry", "NewDir")
	if lit := dirLiteral(nd); lit != nil {
		r.Check("C19.suffix-agreement", "mode file lives beside, not inside, the data directories", m.Pos(nd.Pos()),
			lit["modefile"] == `path/filepath.Join([param:dir, "mode"])` && lit["local"] == `path/filepath.Join([param:dir, "local"])` && lit["upload"] == `path/filepath.Join([param:dir, "upload"])`,
			fmt.Sprintf("layout: %v", lit))
	}

	// ---- mode commands ----------------------------------------------------------
	for _, spec := range []struct{ fn, k string }{{"runOn", "on"}, {"runLocal", "local"}, {"runOff", "off"}} {
		fn := m.Func("cmd/gotelemetry", spec.fn)
		effs, chains := m.reachableEffects([]*ssa.Function{fn}, func(f *ssa.Function) bool {
			return fname(f) == "cmd/gotelemetry.failf" // exits the process after printing
		})
		for _, e := range effs {
			if e.Kind == effFS || e.Kind == effExec || e.Kind == effNet || e.Kind == effEnv {
				ok := fname(e.Fn) == "(internal/telemetry.Dir).SetModeAsOf" && (e.Name == "os.MkdirAll" || e.Name == "os.WriteFile")
				r.Check("C19.mode-commands", spec.fn+"/effect "+e.Name+" in "+fname(e.Fn), m.Pos(e.Call.Pos()), ok, "mode commands may only create the mode file's directory and write the mode file; chain: "+chainString(chains[e.Fn]))
			}
		}
		sets := callsIn(fn, "(internal/telemetry.Dir).SetMode", "(internal/telemetry.Dir).SetModeAsOf")
		r.Check("C19.mode-commands", spec.fn+"/sets the mode once", m.Pos(fn.Pos()), len(sets) == 1, fmt.Sprintf("%d SetMode calls", len(sets)))
		for _, cs := range sets {
			a := callArgs(cs.Common())
			k, isC := constOf(a[0])
			r.Check("C19.mode-commands", spec.fn+"/requested mode constant", m.Pos(cs.Pos()), isC && k == spec.k, fmt.Sprintf("%s must request %q; requests %s", spec.fn, spec.k, describe(a[0])))
			r.Check("C19.mode-commands", spec.fn+"/no-op when already in that mode", m.Pos(cs.Pos()), hasFact(factsAt(cs), strEq(isModeString, spec.k, false)),
				"SetMode must lie under old != "+fmt.Sprintf("%q", spec.k)+" where old is Default.Mode(): the mode file (and its date) stays untouched when the mode is already the requested one")
			r.Check("C19.mode-commands", spec.fn+"/writes the default directory's mode", m.Pos(cs.Pos()), strings.HasPrefix(describe(recvOf(cs.Common())), "global:internal/telemetry.Default") || strings.Contains(describe(recvOf(cs.Common())), "internal/telemetry.Default"), "got "+describe(recvOf(cs.Common())))
		}
	}
	// SetMode passes time.Now
	sm := m.Func("internal/telemetry", "Dir.SetMode")
	for _, cs := range callsIn(sm, "(internal/telemetry.Dir).SetModeAsOf") {
		a := callArgs(cs.Common())
		r.Check("C19.mode-commands", "SetMode/records the current date", m.Pos(cs.Pos()), describe(a[1]) == "time.Now()" && a[0] == ssa.Value(sm.Params[1]), "SetMode(mode) = SetModeAsOf(mode, time.Now()); got "+describe(a[0])+", "+describe(a[1]))
	}
	// SetModeAsOf always writes (no content-dependent skip): the WriteFile is reached on every path on which validation passed
	sma := m.Func("internal/telemetry", "Dir.SetModeAsOf")
	for _, cs := range callsIn(sma, "os.ReadFile", "os.Stat", "os.Open") {
		r.Check("C19.mode-commands", "SetModeAsOf/does not consult the old file", m.Pos(cs.Pos()), false, "SetModeAsOf must write unconditionally; deciding on the old content changes when the date is refreshed")
	}
	// env prints Default.Mode()
	env := m.Func("cmd/gotelemetry", "runEnv")
	r.Check("C19.mode-commands", "runEnv/reads the mode through Dir.Mode", m.Pos(env.Pos()), len(callsIn(env, dirMode)) == 1, "env must report what the library reads")
}

// lastBranchFact: the fact established by taking the edge pred -> succ.
func lastBranchFact(pred, succ *ssa.BasicBlock) []Fact {
	if len(pred.Instrs) == 0 {
		return nil
	}
	if ifi, ok := pred.Instrs[len(pred.Instrs)-1].(*ssa.If); ok && pred.Succs[0] != pred.Succs[1] {
		return expandFact(normFact(ifi.Cond, pred.Succs[0] == succ))
	}
	return nil
}

func phiOnlyFalseOr(p *ssa.Phi, self *ssa.Phi) bool {
	for _, e := range p.Edges {
		if k, isC := constOf(e); isC && k == "false" {
			continue
		}
		if e == ssa.Value(self) || e == ssa.Value(p) {
			continue
		}
		return false
	}
	return true
}

// innermostLoopHeader: the deepest dominator of b that lies on a cycle through b.
func innermostLoopHeader(b *ssa.BasicBlock) *ssa.BasicBlock {
	for h := b; h != nil; h = h.Idom() {
		// is there a back edge p -> h with p reachable from b (and h dominating p)?
		for _, p := range h.Preds {
			if h.Dominates(p) && (b == h || blockReachesAvoiding(b, p, h)) {
				return h
			}
		}
	}
	return nil
}

func blockReaches(from, to *ssa.BasicBlock) bool { return blockReachesAvoiding(from, to, nil) }

// blockReachesAvoiding: to is reachable from `from` without entering block avoid
// (membership of `from` in the natural loop of a back edge to->avoid).
func blockReachesAvoiding(from, to, avoid *ssa.BasicBlock) bool {
	if from == to {
		return true
	}
	seen := map[*ssa.BasicBlock]bool{from: true}
	if avoid != nil {
		seen[avoid] = true
	}
	work := []*ssa.BasicBlock{from}
	for len(work) > 0 {
		x := work[len(work)-1]
		work = work[:len(work)-1]
		for _, s := range x.Succs {
			if s == to {
				return true
			}
			if !seen[s] {
				seen[s] = true
				work = append(work, s)
			}
		}
	}
	return false
}

// cleanSuffixTable extracts the {dir accessor -> suffix constants} table built in runClean.
func cleanSuffixTable(fn *ssa.Function) map[string][]string {
	out := map[string][]string{}
	for _, f := range WithClosures(fn) {
		for _, in := range instrsOf(f) {
			mu, ok := in.(*ssa.MapUpdate)
			if !ok {
				continue
			}
			kd := describe(mu.Key)
			dir := ""
			switch {
			case strings.Contains(kd, ".LocalDir("):
				dir = "LocalDir"
			case strings.Contains(kd, ".UploadDir("):
				dir = "UploadDir"
			default:
				continue
			}
			if sl, ok := mu.Value.(*ssa.Slice); ok {
				if el, ok := varargElems(sl); ok {
					for _, e := range el {
						if k, isC := constOf(e); isC {
							out[dir] = append(out[dir], k)
						} else {
							out[dir] = append(out[dir], "?"+describe(e))
						}
					}
				}
			}
		}
	}
	for k := range out {
		sort.Strings(out[k])
	}
	return out
}

func dirLiteral(fn *ssa.Function) map[string]string {
	for _, in := range instrsOf(fn) {
		if al, ok := in.(*ssa.Alloc); ok && namedType(al.Type()) == "internal/telemetry.Dir" {
			if lit, ok := structLit(al); ok {
				out := map[string]string{}
				for k, v := range lit {
					out[k] = describe(v)
				}
				return out
			}
		}
	}
	return nil
}

func isEntryName(v ssa.Value) bool { return strings.Contains(describe(v), "DirEntry).Name(") }

// suffixGuard: v being true implies strings.HasSuffix(<entry name>, ·) returned true.
func suffixGuard(v ssa.Value, seen map[ssa.Value]bool) bool {
	v = strip(v)
	if seen[v] {
		return true // a cycle adds no new way of becoming true
	}
	seen[v] = true
	if kind, sv, _, ok := affixTest(v); ok && kind == "HasSuffix" {
		return isEntryName(sv) // the library call or the hand-written tail comparison
	}
	switch x := v.(type) {
	case *ssa.Call:
		if calleeName(&x.Call) == "strings.HasSuffix" {
			return isEntryName(argsOf(x)[0])
		}
		// slices.ContainsFunc(suffixes, pred) / slices.IndexFunc(…) >= 0 is handled by its caller;
		// ContainsFunc is true only if pred(element) was true for some element: the predicate must
		// be a literal whose every non-false result is HasSuffix(entry name, its parameter)
		if strings.HasPrefix(calleeName(&x.Call), "slices.ContainsFunc") {
			pf := funcValue(argsOf(x)[1])
			if pf == nil || len(pf.Params) != 1 {
				return false
			}
			for _, b := range pf.Blocks {
				ret, ok := b.Instrs[len(b.Instrs)-1].(*ssa.Return)
				if !ok || len(ret.Results) != 1 {
					continue
				}
				if k, isC := constOf(ret.Results[0]); isC && k == "false" {
					continue
				}
				c2, isCall := strip(ret.Results[0]).(*ssa.Call)
				if !isCall || calleeName(&c2.Call) != "strings.HasSuffix" || !isEntryName(argsOf(c2)[0]) || argsOf(c2)[1] != ssa.Value(pf.Params[0]) {
					return false
				}
			}
			return true
		}
		f := x.Call.StaticCallee()
		if f == nil || f.Blocks == nil {
			return false
		}
		// helper: every non-false return lies under HasSuffix(param, ·) for a parameter bound to the entry name
		var nameParams []*ssa.Parameter
		for i, a := range argsOf(x) {
			if isEntryName(a) && i < len(f.Params) {
				nameParams = append(nameParams, f.Params[i])
			}
		}
		if len(nameParams) == 0 {
			return false
		}
		for _, b := range f.Blocks {
			ret, ok := b.Instrs[len(b.Instrs)-1].(*ssa.Return)
			if !ok || len(ret.Results) != 1 {
				continue
			}
			if k, isC := constOf(ret.Results[0]); isC && k == "false" {
				continue
			}
			okRet := hasFact(factsAt(ret), callResultIs("strings.HasSuffix", true, func(a []ssa.Value, _ *ssa.Call) bool {
				for _, p := range nameParams {
					if a[0] == ssa.Value(p) {
						return true
					}
				}
				return false
			}))
			if !okRet {
				if c2, isCall := strip(ret.Results[0]).(*ssa.Call); isCall && calleeName(&c2.Call) == "strings.HasSuffix" {
					for _, p := range nameParams {
						if argsOf(c2)[0] == ssa.Value(p) {
							okRet = true
						}
					}
				}
			}
			if !okRet {
				return false
			}
		}
		return true
	case *ssa.Phi:
		some := false
		for i, ed := range x.Edges {
			if k, isC := constOf(ed); isC {
				if k == "false" {
					continue
				}
				pred := x.Block().Preds[i]
				if hasFact(append(blockFacts(pred), lastBranchFact(pred, x.Block())...), callResultIs("strings.HasSuffix", true, func(a []ssa.Value, _ *ssa.Call) bool { return isEntryName(a[0]) })) {
					some = true
					continue
				}
				return false
			}
			if !suffixGuard(ed, seen) {
				return false
			}
			some = true
		}
		return some
	}
	return false
}
