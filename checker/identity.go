package main

// Program-build identity (shared by C01 and C07): the keys that decide whether two
// counter files belong to the same program build.

import (
	"fmt"
	"sort"
	"strings"

	"golang.org/x/tools/go/ssa"
)

var identityFields = []string{"GOARCH", "GOOS", "GoVersion", "Program", "Version"}

func identityRule(c *Ctx, m *Module, rule string) {
	r := c.R
	fn := m.Func("internal/upload", "findProgReport")
	want := strings.Join(identityFields, ",")
	// (a) the return of an existing entry lies under equality of all identity fields
	nFound := 0
	for _, b := range fn.Blocks {
		ret, ok := b.Instrs[len(b.Instrs)-1].(*ssa.Return)
		if !ok {
			continue
		}
		if _, isAlloc := strip(ret.Results[0]).(*ssa.Alloc); isAlloc {
			continue // the freshly created entry
		}
		nFound++
		got := map[string]bool{}
		for _, f := range factsAt(ret) {
			bo, ok := f.Cond.(*ssa.BinOp)
			if !ok || !assertsEq(bo, f.Pol) {
				continue
			}
			for _, pair := range [][2]ssa.Value{{bo.X, bo.Y}, {bo.Y, bo.X}} {
				base, fld, ok1 := fieldLoad(pair[0])
				mp, k, ok2 := mapLookup(pair[1])
				if !ok1 || !ok2 {
					continue
				}
				ks, isC := constOf(k)
				if isC && ks == fld && strip(base) == strip(ret.Results[0]) && mp == ssa.Value(fn.Params[0]) {
					got[fld] = true
				}
			}
		}
		var gl []string
		for f := range got {
			gl = append(gl, f)
		}
		sort.Strings(gl)
		r.Check(rule, "findProgReport/existing entry matched on all identity fields", m.Pos(ret.Pos()), strings.Join(gl, ",") == want,
			fmt.Sprintf("an existing program entry may be reused only when {%s} all equal the file's metadata; compared: {%s}", want, strings.Join(gl, ",")))
	}
	r.Check(rule, "findProgReport/has a reuse path", m.Pos(fn.Pos()), nFound >= 1, "findProgReport returns an existing entry when one matches")
	// (b) the new entry copies the same keys
	for _, in := range instrsOf(fn) {
		al, ok := in.(*ssa.Alloc)
		if !ok || namedType(al.Type()) != "internal/telemetry.ProgramReport" {
			continue
		}
		lit, ok := structLit(al)
		if !ok {
			r.Check(rule, "findProgReport/new entry literal", m.Pos(al.Pos()), false, "cannot resolve the new entry's fields")
			continue
		}
		for _, f := range identityFields {
			mp, k, ok := mapLookup(lit[f])
			ks, _ := constOf(k)
			r.Check(rule, "findProgReport/new entry."+f, m.Pos(al.Pos()), ok && ks == f && mp == ssa.Value(fn.Params[0]),
				fmt.Sprintf("new entry's %s must be meta[%q]; got %s", f, f, describe(lit[f])))
		}
		for f, v := range lit {
			if f == "Counters" || f == "Stacks" {
				_, isMake := strip(v).(*ssa.MakeMap)
				r.Check(rule, "findProgReport/new entry."+f+" starts empty", m.Pos(al.Pos()), isMake, "got "+describe(v))
			}
		}
	}
	// (c) the keys are among those rotate1 writes
	keys := metadataKeysWritten(m)
	for _, f := range identityFields {
		r.Check(rule, "metadata key "+f+" is written by rotate1", "-", keys[f], fmt.Sprintf("keys written by the counter file header: %v", keysSorted(keys)))
	}
}

func keysSorted(m map[string]bool) []string {
	var k []string
	for s := range m {
		k = append(k, s)
	}
	sort.Strings(k)
	return k
}

// metadataKeysWritten parses the format constant of the metadata Sprintf in rotate1.
func metadataKeysWritten(m *Module) map[string]bool {
	rot := m.Func("internal/counter", "file.rotate1")
	out := map[string]bool{}
	for _, cs := range callsIn(rot, "fmt.Sprintf") {
		f, ok := constOf(argsOf(cs)[0])
		if !ok || !strings.Contains(f, "TimeBegin") {
			continue
		}
		for _, line := range strings.Split(f, "\n") {
			if k, _, ok := strings.Cut(line, ": "); ok {
				out[k] = true
			}
		}
	}
	return out
}
