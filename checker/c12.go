package main

// C12 — the upload endpoint stores exactly the valid reports it is sent.

import (
	"fmt"
	"go/token"
	"go/types"
	"strings"

	"golang.org/x/tools/go/ssa"
)

func init() {
	register("C12", &propDef{
		run: runC12,
		decided: []string{
			"the storage write is dominated by Method==POST, Decode ok, whole body consumed (decoder at EOF), validate ok; the value stored is the validated report; the object name is Week/X.json built from the validated fields",
			"validate accepts only under: week parses as DateOnly, config is valid semver, X != 0, and (per program/counter/stack) the C11 predicate set with a rejecting return on each false edge",
			"status classes: request-derived failures answer a constant 4xx; bare errors only from storage calls; 200 only after the write; 405 for other methods; handleErr maps content errors to their code",
			"middleware: the handler returned by newHandler is Chain(…, RequestSize(cfg.MaxRequestBytes), Recover())(mux); RequestSize replaces the body by http.MaxBytesReader before delegating; the upload route is on that mux",
			"no panic on request data: every dereference of a pointer that came out of the decoded JSON lies under a non-nil fact",
		},
		notDecided: []string{"stored object decodes to the same report (codec round trip)", "atomicity when the storage write fails half-way", "storage failures (assumed absent for 'no 5xx')"},
	})
}

func runC12(c *Ctx) {
	gd := c.Godev()
	r := c.R
	// the stored object carries the name it was given
	c18FSObjectPath(c, gd, "C12.name")
	// … in the upload bucket
	c18BucketWiring(c, gd, "C12.name")
	cCloseBeforeSuccess(c, gd, gd.Func("cmd/telemetrygodev", "handleUpload$1"), "C12.write-gate")
	h := gd.Func("cmd/telemetrygodev", "handleUpload$1")
	val := gd.Func("cmd/telemetrygodev", "validate")

	// the report variable
	var report *ssa.Alloc
	var decode, validateCall, tokenCall *ssa.Call
	for _, cs := range callsIn(h) {
		cl, ok := cs.(*ssa.Call)
		if !ok {
			continue
		}
		switch calleeName(&cl.Call) {
		case "(*encoding/json.Decoder).Decode":
			decode = cl
			if mi, ok := argsOf(cl)[1].(*ssa.MakeInterface); ok {
				report, _ = mi.X.(*ssa.Alloc)
			}
		case "godev/cmd/telemetrygodev.validate":
			validateCall = cl
		case "(*encoding/json.Decoder).Token":
			tokenCall = cl
		}
	}
	r.Check("C12.write-gate", "handleUpload/decodes into a report", gd.Pos(h.Pos()), decode != nil && report != nil && namedType(report.Type()) == "internal/telemetry.Report", "the body must be decoded into a telemetry.Report")
	if decode == nil || report == nil {
		return
	}
	// decoder reads r.Body
	dd := describeArg(decode, 0)
	r.Check("C12.write-gate", "handleUpload/decoder reads the request body", gd.Pos(decode.Pos()), dd == "encoding/json.NewDecoder(param:r.Body)", "got "+dd)

	// storage writes
	nW := 0
	for _, cs := range callsIn(h) {
		n := calleeName(cs.Common())
		if !(strings.HasSuffix(n, ".ObjectHandle).NewWriter") || strings.HasSuffix(n, ".BucketHandle).Object")) {
			continue
		}
		nW++
		facts := factsAt(cs)
		isPost := hasFact(facts, strEq(func(v ssa.Value) bool { _, f, ok := fieldLoad(v); return ok && f == "Method" }, "POST", true))
		r.Check("C12.write-gate", "handleUpload/"+n[strings.LastIndex(n, ".")+1:]+" only for POST", gd.Pos(cs.Pos()), isPost, "storage is touched only when r.Method == \"POST\"")
		r.Check("C12.write-gate", "handleUpload/"+n[strings.LastIndex(n, ".")+1:]+" only after a successful decode", gd.Pos(cs.Pos()), hasFact(facts, errNilOf(decode)), "Decode must have returned nil")
		okVal := validateCall != nil && hasFact(facts, errNilOf(validateCall)) && argsOf(validateCall)[0] == ssa.Value(report)
		r.Check("C12.write-gate", "handleUpload/"+n[strings.LastIndex(n, ".")+1:]+" only after validate(report) == nil", gd.Pos(cs.Pos()), okVal, "validate must have accepted this very report")
		// whole body
		okWhole := false
		if tokenCall != nil && argsOf(tokenCall)[0] == argsOf(decode)[0] && precedes(decode, tokenCall) {
			for _, f := range facts {
				b, ok := f.Cond.(*ssa.BinOp)
				if !ok {
					continue
				}
				isEq := (b.Op == token.EQL) == f.Pol
				if (b.Op != token.EQL && b.Op != token.NEQ) || !isEq {
					continue
				}
				for _, pair := range [][2]ssa.Value{{b.X, b.Y}, {b.Y, b.X}} {
					if isErrOf(pair[0], tokenCall) && describe(pair[1]) == "*global:io.EOF" {
						okWhole = true
					}
				}
			}
		}
		// alternative accepted form: json.Unmarshal(io.ReadAll(r.Body))
		if !okWhole {
			for _, u := range callsIn(h, "encoding/json.Unmarshal") {
				if strings.HasPrefix(describeArg(u, 0), "io.ReadAll(param:r.Body)") && hasFact(facts, errNilOf(u.(*ssa.Call))) {
					okWhole = true
				}
			}
		}
		r.Check("C12.whole-body", "cmd/telemetrygodev.handleUpload$1", gd.Pos(cs.Pos()), okWhole,
			"before anything is stored the whole body must have been consumed through the size-limited reader: after Decode, dec.Token() must have returned io.EOF (dec.More() is not enough: it is false for '}' / ']' and on read errors)")
	}
	r.Check("C12.write-gate", "handleUpload/storage write sites", gd.Pos(h.Pos()), nW >= 2, fmt.Sprintf("%d storage calls", nW))
	// the report, or a variable that holds a by-value copy of it (a helper returning the struct)
	isReportVar := func(a *ssa.Alloc, at ssa.Instruction) bool {
		for _, o := range copyOrigins(a, factsAt(at)) {
			if o != report {
				return false
			}
		}
		return true
	}
	canon := func(d string, at ssa.Instruction) string {
		for _, in := range instrsOf(h) {
			if a, ok := in.(*ssa.Alloc); ok && namedType(a.Type()) == "internal/telemetry.Report" && isReportVar(a, at) {
				d = strings.ReplaceAll(d, "alloc:"+allocName(a), "alloc:REPORT")
			}
		}
		return d
	}
	// the encoded value is the validated report
	for _, cs := range callsIn(h, "(*encoding/json.Encoder).Encode") {
		d := describeArg(cs, 1)
		okRep := false
		switch x := strip(argsOf(cs)[1]).(type) {
		case *ssa.Alloc:
			okRep = isReportVar(x, cs)
		case *ssa.UnOp:
			if a, ok := x.X.(*ssa.Alloc); ok && x.Op == token.MUL {
				okRep = isReportVar(a, cs)
			}
		}
		r.Check("C12.write-gate", "handleUpload/stores the validated report", gd.Pos(cs.Pos()), okRep, "the value encoded into storage must be the report that was validated (or a by-value copy of it); got "+d)
		// encoder writes into the storage writer
		ed := describeArg(cs, 0)
		r.Check("C12.write-gate", "handleUpload/encoder writes to the storage object", gd.Pos(cs.Pos()), strings.Contains(ed, ".NewWriter(") && strings.Contains(ed, ".Object("), "got "+ed)
	}

	// ---- name ------------------------------------------------------------------
	for _, cs := range callsIn(h) {
		n := calleeName(cs.Common())
		if !strings.HasSuffix(n, ".BucketHandle).Object") {
			continue
		}
		nm := canon(describeArg(cs, 0), cs)
		nm = strings.ReplaceAll(nm, "*alloc:REPORT.", "alloc:REPORT.") // the report reached through a pointer to the same variable
		// (canonical rendering of string building: Sprintf("%s/%g.json", …), concatenation with
		// strconv.FormatFloat(X, 'g', -1, 64), … all read the same)
		want := `(((alloc:REPORT.Week + "/") + fmtg(alloc:REPORT.X)) + ".json")`
		r.Check("C12.name", "handleUpload/object name", gd.Pos(cs.Pos()), nm == want, "the object must be named <Week>/<X>.json from the validated report; got "+nm)
		bd := describe(cs.Common().Value)
		r.Check("C12.name", "handleUpload/bucket", gd.Pos(cs.Pos()), strings.Contains(bd, "uploadBucket"), "got "+bd)
	}

	// ---- validate -----------------------------------------------------------------
	c12Validate(c, gd, val)
	// the stored object holds exactly the bytes encoded now: the writer replaces any previous object
	c18Writer(c, gd, "C12.write-gate")

	// ---- status classes -------------------------------------------------------------
	for _, b := range h.Blocks {
		ret, ok := b.Instrs[len(b.Instrs)-1].(*ssa.Return)
		if !ok || b.Comment == "recover" {
			continue
		}
		var v ssa.Value
		for _, in := range b.Instrs {
			if st, ok := in.(*ssa.Store); ok && isErrorType(st.Val.Type()) {
				v = st.Val
			}
		}
		if v == nil && len(ret.Results) == 1 {
			v = ret.Results[0]
		}
		facts := factsAt(ret)
		// a result merged from several exits (a phi) is classified exit by exit
		for _, v := range alternatives(v, facts) {
			d := describe(v)
			switch cl := strip(v).(type) {
			case *ssa.Call:
				switch calleeName(&cl.Call) {
				case "godev/internal/content.Error":
					code, isC := intConst(argsOf(cl)[1])
					if !isC {
						// a status chosen among constants (400 for most payload errors, 413 for an oversized one): each of them
						isC = true
						for _, sv := range alternatives(argsOf(cl)[1], facts) {
							c2, ok2 := intConst(sv)
							if !ok2 || c2 < 400 || c2 >= 500 {
								isC = false
							}
							code = c2
						}
						if !isC {
							code = 0
						}
					}
					r.Check("C12.status-classes", fmt.Sprintf("handleUpload/content.Error %d", code), gd.Pos(ret.Pos()), isC && code >= 400 && code < 500, "request-derived failures must answer a constant 4xx; got "+d)
				case "godev/internal/content.Status":
					code, isC := intConst(argsOf(cl)[1])
					switch {
					case isC && code == 200:
						okAfter := false
						for _, cs := range callsIn(h, "(*encoding/json.Encoder).Encode") {
							if hasFact(facts, errNilOf(cs.(*ssa.Call))) {
								okAfter = true
							}
						}
						r.Check("C12.status-classes", "handleUpload/200 only after the object was written", gd.Pos(ret.Pos()), okAfter, "OK must be answered only after Encode returned nil")
					case isC && code == 405:
						notPost := hasFact(facts, strEq(func(v ssa.Value) bool { _, f, ok := fieldLoad(v); return ok && f == "Method" }, "POST", false))
						r.Check("C12.status-classes", "handleUpload/405 for other methods", gd.Pos(ret.Pos()), notPost, "405 only when the method is not POST")
					default:
						r.Check("C12.status-classes", "handleUpload/status "+d, gd.Pos(ret.Pos()), false, "unexpected status")
					}
				default:
					// bare error from a storage call
					okStorage := strings.HasSuffix(calleeName(&cl.Call), ".WriteCloser).Close") || strings.HasSuffix(calleeName(&cl.Call), ".Encoder).Encode")
					r.Check("C12.status-classes", "handleUpload/bare error from "+calleeName(&cl.Call), gd.Pos(ret.Pos()), okStorage, "a bare error (answered 500) may only come from a storage call, never from the request")
				}
			case *ssa.Extract:
				tc, _ := cl.Tuple.(*ssa.Call)
				okStorage := tc != nil && strings.HasSuffix(calleeName(&tc.Call), ".ObjectHandle).NewWriter")
				r.Check("C12.status-classes", "handleUpload/bare error "+d, gd.Pos(ret.Pos()), okStorage, "a bare error (answered 500) may only come from a storage call")
			default:
				r.Check("C12.status-classes", "handleUpload/result "+d, gd.Pos(ret.Pos()), false, "unclassified result")
			}
		}
	}
	// handleErr maps *contentError to its code
	he := gd.Func("internal/content", "handleErr")
	okMap := false
	for _, in := range instrsOf(he) {
		if ta, ok := in.(*ssa.TypeAssert); ok && strings.HasSuffix(namedType(ta.AssertedType), "contentError") && ta.CommaOk {
			okMap = true
		}
	}
	r.Check("C12.status-classes", "content.handleErr/maps content errors to their code", gd.Pos(he.Pos()), okMap, "a *contentError must be answered with its Code")

	// ---- middleware --------------------------------------------------------------------
	c12Middleware(c, gd)

	// ---- no panic on input ---------------------------------------------------------------
	c12NilDerefs(c, gd, val)
}

// c12AcceptHeader: validate accepts (returns nil) only reports whose week parses as a date,
// whose config is a valid semantic version and whose X is not zero. Shared with C18: the
// upload object name <Week>/<X>.json is confined to the bucket because the week is a date.
func c12AcceptHeader(c *Ctx, gd *Module, val *ssa.Function, rule string) {
	r := c.R
	namer := func(v ssa.Value) (string, bool) {
		if e, ok := v.(*ssa.Extract); ok && e.Index == 1 {
			if cl, ok := e.Tuple.(*ssa.Call); ok && calleeName(&cl.Call) == "time.Parse" {
				k, _ := constOf(argsOf(cl)[0])
				_, f, okf := fieldLoad(argsOf(cl)[1])
				if k == gd_dateOnly(gd) && okf && f == "Week" {
					return "weekErr", true
				}
			}
		}
		if cl, ok := v.(*ssa.Call); ok && calleeName(&cl.Call) == "golang.org/x/mod/semver.IsValid" {
			if _, f, okf := fieldLoad(argsOf(cl)[0]); okf && f == "Config" {
				return "semverOK", true
			}
		}
		if _, f, ok := fieldLoad(v); ok && f == "X" {
			return "X", true
		}
		return "", false
	}
	want := bAnd{[]BExpr{bBool{"isnil(weekErr)"}, bBool{"semverOK"}, mkOrd("X", "!=", "0")}}
	n := 0
	for _, b := range val.Blocks {
		ret, ok := b.Instrs[len(b.Instrs)-1].(*ssa.Return)
		if !ok {
			continue
		}
		// the conditions under which nil is returned here: the block's own path condition, or,
		// for a result merged from several exits, that of each edge carrying nil
		var conds []BExpr
		fb := newFormulaBuilder()
		fb.namer = namer
		if isNilConst(ret.Results[0]) {
			conds = append(conds, fb.reach(b))
		} else if phi, ok := ret.Results[0].(*ssa.Phi); ok {
			for i, e := range phi.Edges {
				if isNilConst(e) {
					conds = append(conds, bAnd{[]BExpr{fb.reach(b), fb.edgeCond(phi.Block().Preds[i], phi.Block())}})
				}
			}
		}
		for _, got := range conds {
			n++
			ok2, why, _ := implies(got, want)
			r.Check(rule, "validate/accept implies week, config and X are valid", gd.Pos(ret.Pos()), ok2,
				"return nil ⇒ time.Parse(DateOnly, r.Week) ok ∧ semver.IsValid(r.Config) ∧ r.X != 0; "+why)
		}
	}
	r.Check(rule, "validate/has an accepting return", gd.Pos(val.Pos()), n >= 1, fmt.Sprintf("%d", n))
}

func c12Validate(c *Ctx, gd *Module, val *ssa.Function) {
	r := c.R
	c12AcceptHeader(c, gd, val, "C12.validate-complete")
	// per program / counter / stack rejections (the C11 reference set)
	calls := approvalCallsIn(val)
	bySig := map[string][]approvalCall{}
	for _, a := range calls {
		bySig[a.Sig()] = append(bySig[a.Sig()], a)
	}
	for _, want := range append(append([]string{}, programLevel...), "HasCounter(Program,key)", "HasStack(Program,cutnl(key))") {
		ok := false
		for _, a := range bySig[want] {
			for _, succ := range branchSucc(a.Call, false) {
				if _, rej := rejectBlock(succ); rej {
					ok = true
				}
			}
			// the tested program must be an element of the report's Programs; the key a key of its maps
			if len(a.Bases) > 0 && a.Bases[0] != nil {
				bd := describe(a.Bases[0])
				if !strings.Contains(bd, "param:r.Programs[") {
					ok = false
				}
			}
		}
		r.Check("C12.validate-complete", "validate/rejects when "+want+" is false", gd.Pos(val.Pos()), ok, "each approval predicate's false edge must be a rejecting return, applied to the elements of r.Programs; calls: "+sigList(calls))
	}
	// every element is visited: the three loops range over r.Programs, p.Counters, p.Stacks
	ranged := map[string]bool{}
	for _, in := range instrsOf(val) {
		switch x := in.(type) {
		case *ssa.Range:
			if _, f, ok := fieldLoad(x.X); ok {
				ranged[f] = true
			}
		case *ssa.IndexAddr:
			if _, f, ok := fieldLoad(x.X); ok {
				ranged[f] = true
			}
		}
	}
	for _, f := range []string{"Programs", "Counters", "Stacks"} {
		r.Check("C12.validate-complete", "validate/visits every element of "+f, gd.Pos(val.Pos()), ranged[f], "validate must range over "+f)
	}
}

func gd_dateOnly(gd *Module) string {
	for _, p := range gd.Prog.AllPackages() {
		if p.Pkg.Path() == modPath+"/internal/telemetry" {
			if c, ok := p.Pkg.Scope().Lookup("DateOnly").(*types.Const); ok {
				return constString(c.Val())
			}
		}
	}
	infra("UNRESOLVED anchor telemetry.DateOnly (godev)")
	return ""
}

func c12Middleware(c *Ctx, gd *Module) {
	r := c.R
	nh := gd.Func("cmd/telemetrygodev", "newHandler")
	var chain *ssa.Call
	for _, cs := range callsIn(nh, "godev/internal/middleware.Chain") {
		chain = cs.(*ssa.Call)
	}
	r.Check("C12.middleware", "newHandler/builds a middleware chain", gd.Pos(nh.Pos()), chain != nil, "middleware.Chain(...) expected")
	if chain == nil {
		return
	}
	var names []string
	var sizeArg string
	if sl, ok := argsOf(chain)[0].(*ssa.Slice); ok {
		if el, ok := varargElems(sl); ok {
			for _, e := range el {
				if cl, ok := strip(e).(*ssa.Call); ok {
					n := calleeName(&cl.Call)
					names = append(names, n[strings.LastIndex(n, ".")+1:])
					if strings.HasSuffix(n, ".RequestSize") {
						sizeArg = describeArg(cl, 0)
					}
				}
			}
		}
	}
	idx := func(s string) int {
		for i, n := range names {
			if n == s {
				return i
			}
		}
		return -1
	}
	r.Check("C12.middleware", "newHandler/chain has RequestSize(cfg.MaxRequestBytes)", gd.Pos(chain.Pos()), idx("RequestSize") >= 0 && strings.HasSuffix(sizeArg, ".MaxRequestBytes"), fmt.Sprintf("chain: %v size arg: %s", names, sizeArg))
	r.Check("C12.middleware", "newHandler/chain has Recover inside Timeout", gd.Pos(chain.Pos()), idx("Recover") >= 0 && (idx("Timeout") < 0 || idx("Recover") > idx("Timeout")), fmt.Sprintf("chain: %v", names))
	// the returned handler is chain(mux) and the upload route is registered on that mux
	okRet := false
	for _, b := range nh.Blocks {
		if ret, ok := b.Instrs[len(b.Instrs)-1].(*ssa.Return); ok {
			if cl, ok := strip(ret.Results[0]).(*ssa.Call); ok && cl.Call.Value == ssa.Value(chain) {
				muxd := describeArg(cl, 0)
				for _, cs := range callsIn(nh, "(*net/http.ServeMux).Handle") {
					pat, _ := constOf(argsOf(cs)[1])
					if pat == "/upload/" && describeArg(cs, 0) == muxd && strings.Contains(describeArg(cs, 2), "handleUpload(") {
						okRet = true
					}
				}
			}
		}
	}
	r.Check("C12.middleware", "newHandler/upload route is served through the chain", gd.Pos(nh.Pos()), okRet, "return Chain(...)(mux) with mux.Handle(\"/upload/\", handleUpload(...))")
	// Chain applies every middleware (loop over its parameter)
	// RequestSize: body replaced by MaxBytesReader(w, r.Body, n) before delegating
	// the handler installed by RequestSize is found by what it does: the one function of the
	// middleware package that wraps the body in http.MaxBytesReader (a function literal in the
	// reference tree; a method of a small handler type would do as well)
	var rs *ssa.Function
	for _, f := range gd.srcFns {
		if f.Pkg != nil && f.Pkg == gd.Pkg("internal/middleware") && len(callsIn(f, "net/http.MaxBytesReader")) > 0 {
			if rs != nil {
				rs = nil
				break
			}
			rs = f
		}
	}
	if rs == nil {
		r.Check("C12.middleware", "RequestSize/handler that limits the body found", "-", false, "exactly one function of internal/middleware must call http.MaxBytesReader")
		return
	}
	var store *ssa.Store
	for _, in := range instrsOf(rs) {
		st, ok := in.(*ssa.Store)
		if !ok {
			continue
		}
		fa, ok := st.Addr.(*ssa.FieldAddr)
		if !ok {
			continue
		}
		if _, f, _ := fieldAddrName(fa); f != "Body" {
			continue
		}
		req, isParam := fa.X.(*ssa.Parameter)
		cl, isCall := strip(st.Val).(*ssa.Call)
		if !isParam || !isCall || calleeName(&cl.Call) != "net/http.MaxBytesReader" {
			continue
		}
		a := argsOf(cl)
		_, wIsParam := a[0].(*ssa.Parameter)
		bb, bf, isBody := fieldLoad(a[1])
		// the limit is RequestSize's parameter (directly captured, or stored in the handler value)
		ld := describe(a[2])
		if wIsParam && isBody && bf == "Body" && strip(bb) == ssa.Value(req) && (ld == "param:n" || strings.HasSuffix(ld, ":n")) {
			store = st
		}
	}
	okOrder := store != nil
	if store != nil {
		w := entryReachesWithout(rs, func(in ssa.Instruction) bool {
			cc := callOf(in)
			return cc != nil && strings.HasSuffix(calleeName(cc), ".Handler).ServeHTTP")
		}, func(in ssa.Instruction) bool { return in == ssa.Instruction(store) })
		okOrder = w == nil
	}
	r.Check("C12.middleware", "RequestSize/every request body is size-limited before delegation", gd.Pos(rs.Pos()), okOrder,
		"r.Body = http.MaxBytesReader(w, r.Body, n) must execute on every path before h.ServeHTTP (Content-Length is not a bound: chunked bodies have none)")
	// Recover: deferred closure calling recover and answering 500
	rc := gd.Func("internal/middleware", "Recover$1$1")
	okRec := false
	for _, in := range instrsOf(rc) {
		if d, ok := in.(*ssa.Defer); ok {
			if f := funcValue(d.Call.Value); f != nil && len(callsIn(f, "builtin:recover")) == 1 {
				okRec = true
			}
		}
	}
	r.Check("C12.middleware", "Recover/recovers handler panics", gd.Pos(rc.Pos()), okRec, "Recover must defer a function that calls recover()")
}

// c12NilDerefs: pointers that come out of decoded JSON (elements of []*T fields,
// *T fields, map values of pointer type) may be nil.
func c12NilDerefs(c *Ctx, gd *Module, val *ssa.Function) {
	r := c.R
	n := 0
	for _, fn := range []*ssa.Function{val} {
		for _, in := range instrsOf(fn) {
			var base ssa.Value
			switch x := in.(type) {
			case *ssa.FieldAddr:
				base = x.X
			case *ssa.UnOp:
				if x.Op == token.MUL {
					if _, isPtr := x.X.Type().Underlying().(*types.Pointer); isPtr {
						if _, isFA := x.X.(*ssa.FieldAddr); !isFA {
							if _, isIA := x.X.(*ssa.IndexAddr); !isIA {
								base = x.X
							}
						}
					}
				}
			}
			if base == nil {
				continue
			}
			// is base loaded from inside the decoded report (not the report pointer itself)?
			ld, ok := strip(base).(*ssa.UnOp)
			if !ok || ld.Op != token.MUL {
				continue
			}
			if _, isPtrElem := ld.Type().Underlying().(*types.Pointer); !isPtrElem {
				continue
			}
			src := describe(ld)
			if !strings.HasPrefix(src, "param:r.") {
				continue
			}
			n++
			okNil := hasFact(factsAt(in), func(f Fact) bool {
				b, ok := f.Cond.(*ssa.BinOp)
				if !ok {
					return false
				}
				var other ssa.Value
				if isNilConst(b.Y) {
					other = b.X
				} else if isNilConst(b.X) {
					other = b.Y
				} else {
					return false
				}
				nonNil := (b.Op == token.NEQ) == f.Pol
				return nonNil && (other == base || describe(other) == describe(base))
			})
			what := "deref element of r.Programs"
			if !strings.Contains(src, "Programs[") {
				what = "deref " + src
			}
			r.Check("C12.no-panic-on-input", "cmd/telemetrygodev.validate/"+what, gd.Pos(in.Pos()), okNil,
				"a pointer decoded from the request body may be null; dereferencing it without a nil test panics, and Recover answers 500: "+src)
		}
	}
	r.Check("C12.no-panic-on-input", "validate/decoded pointers enumerated", gd.Pos(val.Pos()), n >= 1, fmt.Sprintf("%d dereferences of decoded pointers", n))
	// explicit panics / index expressions in handler and validate
	for _, fn := range []*ssa.Function{val, gd.Func("cmd/telemetrygodev", "handleUpload$1")} {
		for _, in := range instrsOf(fn) {
			switch x := in.(type) {
			case *ssa.Panic:
				r.Check("C12.no-panic-on-input", fname(fn)+"/explicit panic", gd.Pos(x.Pos()), false, "no explicit panic on the upload path")
			case *ssa.TypeAssert:
				if !x.CommaOk {
					r.Check("C12.no-panic-on-input", fname(fn)+"/unchecked type assertion", gd.Pos(x.Pos()), false, "an unchecked type assertion can panic")
				}
			}
		}
	}
}
