package main

// E7: primitive effects, reachability over the resolved call graph, who-may-call.

import (
	"go/constant"
	"go/types"
	"sort"
	"strings"

	"golang.org/x/tools/go/ssa"
)

// effect kinds
const (
	effFS   = "fs-mutate"
	effNet  = "net-send"
	effExec = "exec"
	effEnv  = "env"
	effMap  = "mmap"
)

var effectTable = map[string]string{
	"os.Remove": effFS, "os.RemoveAll": effFS, "os.WriteFile": effFS, "os.Create": effFS, "os.Mkdir": effFS,
	"os.MkdirAll": effFS, "os.Rename": effFS, "os.CreateTemp": effFS, "os.MkdirTemp": effFS, "os.Truncate": effFS,
	"os.Chmod": effFS, "os.Chtimes": effFS, "os.Link": effFS, "os.Symlink": effFS,
	"(*os.File).Write": effFS, "(*os.File).WriteAt": effFS, "(*os.File).WriteString": effFS, "(*os.File).Truncate": effFS,
	"(*os.File).ReadFrom": effFS, "(*os.File).Chmod": effFS,
	"io/ioutil.WriteFile": effFS,
	"net/http.Post":       effNet, "net/http.Get": effNet, "net/http.Head": effNet, "net/http.PostForm": effNet,
	"(*net/http.Client).Do": effNet, "(*net/http.Client).Post": effNet, "(*net/http.Client).Get": effNet,
	"(*net/http.Client).Head": effNet, "(*net/http.Client).PostForm": effNet, "(*net/http.Transport).RoundTrip": effNet,
	"net.Dial": effNet, "net.DialTimeout": effNet, "(*net.Dialer).Dial": effNet, "(*net.Dialer).DialContext": effNet,
	"net.DialTCP": effNet, "net.DialUDP": effNet, "net.DialUnix": effNet, "net.DialIP": effNet,
	"os/exec.Command": effExec, "os/exec.CommandContext": effExec, "os.StartProcess": effExec, "syscall.Exec": effExec, "syscall.ForkExec": effExec,
	"os.Setenv": effEnv, "os.Unsetenv": effEnv, "os.Clearenv": effEnv,
	"syscall.Mmap": effMap, "syscall.Munmap": effMap,
}

// openFileWrites reports whether an os.OpenFile call's flag argument (a constant)
// can create or modify a file.
func openFileFlags(c *ssa.CallCommon) (flags int64, isConst bool) {
	if len(c.Args) < 2 {
		return 0, false
	}
	k, ok := strip(c.Args[1]).(*ssa.Const)
	if !ok || k.Value == nil || k.Value.Kind() != constant.Int {
		return 0, false
	}
	n, _ := constant.Int64Val(k.Value)
	return n, true
}

// Linux values (the flags' *meaning* is what matters; quick tier is linux/amd64;
// thorough tier re-evaluates per GOOS via constants from the syscall package at load
// time — here we only need "read-only or not").
const (
	oWRONLY = 0x1
	oRDWR   = 0x2
	oAPPEND = 0x400
	oCREATE = 0x40
	oEXCL   = 0x80
	oTRUNC  = 0x200
)

type effectSite struct {
	Fn   *ssa.Function
	Call ssa.CallInstruction
	Kind string
	Name string // callee
}

// directEffects lists the primitive-effect call sites in fn (not closures).
func directEffects(fn *ssa.Function) []effectSite {
	var out []effectSite
	for _, ci := range callsIn(fn) {
		n := calleeName(ci.Common())
		if k, ok := effectTable[n]; ok {
			out = append(out, effectSite{fn, ci, k, n})
			continue
		}
		if n == "os.OpenFile" {
			fl, isC := openFileFlags(ci.Common())
			if !isC || fl&(oWRONLY|oRDWR|oAPPEND|oCREATE|oTRUNC) != 0 {
				kind := effFS
				out = append(out, effectSite{fn, ci, kind, n})
			}
		}
	}
	return out
}

// callEdges returns the functions fn may call: call-graph out-edges plus
// function values handed to body-less (library) callees, which may call them back.
func (m *Module) callEdges(fn *ssa.Function) []*ssa.Function {
	seen := map[*ssa.Function]bool{}
	var out []*ssa.Function
	add := func(f *ssa.Function) {
		if f != nil && !seen[f] {
			seen[f] = true
			out = append(out, f)
		}
	}
	if n := m.CG().Nodes[fn]; n != nil {
		for _, e := range n.Out {
			add(e.Callee.Func)
		}
	}
	for _, b := range fn.Blocks {
		for _, in := range b.Instrs {
			switch x := in.(type) {
			case ssa.CallInstruction:
				c := x.Common()
				callee := c.StaticCallee()
				if callee != nil && callee.Blocks != nil {
					continue
				}
				for _, a := range c.Args {
					add(funcValue(a))
				}
				if !c.IsInvoke() {
					if mc, ok := c.Value.(*ssa.MakeClosure); ok {
						add(mc.Fn.(*ssa.Function))
					}
				}
			case *ssa.MakeClosure:
				// a closure created here is conservatively considered callable from here
				add(x.Fn.(*ssa.Function))
			}
		}
	}
	sort.Slice(out, func(i, j int) bool { return out[i].String() < out[j].String() })
	return out
}

// funcValue resolves v to a function if it is a function literal, a named
// function, or a bound-method closure.
func funcValue(v ssa.Value) *ssa.Function {
	switch x := strip(v).(type) {
	case *ssa.Function:
		return x
	case *ssa.MakeClosure:
		f := x.Fn.(*ssa.Function)
		return f
	}
	return nil
}

// reach computes the functions reachable from roots, with one witness chain each.
// stop (optional) prunes: functions for which stop returns true are not expanded
// (they are still included).
func (m *Module) reach(roots []*ssa.Function, stop func(*ssa.Function) bool) map[*ssa.Function][]*ssa.Function {
	chains := map[*ssa.Function][]*ssa.Function{}
	var work []*ssa.Function
	for _, r := range roots {
		if _, ok := chains[r]; !ok {
			chains[r] = []*ssa.Function{r}
			work = append(work, r)
		}
	}
	for len(work) > 0 {
		fn := work[0]
		work = work[1:]
		if stop != nil && stop(fn) {
			continue
		}
		if fn.Blocks == nil {
			continue
		}
		// bound method wrappers etc. have bodies too (synthetic) and are followed
		for _, cal := range m.callEdges(fn) {
			if _, ok := chains[cal]; ok {
				continue
			}
			chains[cal] = append(append([]*ssa.Function{}, chains[fn]...), cal)
			work = append(work, cal)
		}
	}
	return chains
}

func chainString(ch []*ssa.Function) string {
	var s []string
	for _, f := range ch {
		s = append(s, fname(f))
	}
	return strings.Join(s, " -> ")
}

// reachableEffects lists primitive effects in all functions reachable from roots.
func (m *Module) reachableEffects(roots []*ssa.Function, stop func(*ssa.Function) bool) ([]effectSite, map[*ssa.Function][]*ssa.Function) {
	chains := m.reach(roots, stop)
	var fns []*ssa.Function
	for f := range chains {
		fns = append(fns, f)
	}
	sort.Slice(fns, func(i, j int) bool { return fns[i].String() < fns[j].String() })
	var out []effectSite
	for _, f := range fns {
		if f.Blocks == nil {
			continue
		}
		out = append(out, directEffects(f)...)
	}
	return out, chains
}

// callersOf lists (function, call instruction) pairs that call target, over all
// source functions of the module (static calls, closures bound at call, and
// call-graph edges for dynamic calls).
func (m *Module) callersOf(target *ssa.Function) []ssa.CallInstruction {
	var out []ssa.CallInstruction
	seen := map[ssa.CallInstruction]bool{}
	if n := m.CG().Nodes[target]; n != nil {
		for _, e := range n.In {
			if e.Site != nil && !seen[e.Site] {
				seen[e.Site] = true
				out = append(out, e.Site)
			}
		}
	}
	sort.Slice(out, func(i, j int) bool {
		a, b := out[i], out[j]
		if a.Parent().String() != b.Parent().String() {
			return a.Parent().String() < b.Parent().String()
		}
		return a.Pos() < b.Pos()
	})
	return out
}

// usesOfFunc lists instructions that reference fn as a value (not as a static callee).
func (m *Module) usesOfFunc(target *ssa.Function) []ssa.Instruction {
	var out []ssa.Instruction
	for _, fn := range m.srcFns {
		for _, b := range fn.Blocks {
			for _, in := range b.Instrs {
				for _, op := range in.Operands(nil) {
					if *op == nil {
						continue
					}
					if f, ok := (*op).(*ssa.Function); ok && f == target {
						if c := callOf(in); c != nil && c.Value == f {
							continue
						}
						out = append(out, in)
					}
				}
			}
		}
	}
	return out
}

// osFlag returns the value of os.O_* for the loaded build configuration.
func (m *Module) osFlag(name string) int64 {
	p := m.Prog.ImportedPackage("os")
	if p == nil {
		infra("package os not loaded")
	}
	c, ok := p.Pkg.Scope().Lookup(name).(*types.Const)
	if !ok {
		infra("os.%s not found", name)
	}
	n, _ := constant.Int64Val(c.Val())
	return n
}

// openFlagsHave: the constant flag argument of an os.OpenFile call includes all named flags.
func (m *Module) openFlagsHave(c *ssa.CallCommon, names ...string) bool {
	fl, ok := openFileFlags(c)
	if !ok {
		return false
	}
	for _, n := range names {
		v := m.osFlag(n)
		if v == 0 || fl&v != v {
			return false
		}
	}
	return true
}
