package main

// C13 — merging and charting count every stored report exactly once (structural part).

import (
	"fmt"
	"go/token"
	"go/types"
	"os"
	"strings"

	"golang.org/x/tools/go/ssa"
)

func init() {
	register("C13", &propDef{
		run: runC13,
		decided: []string{
			"merge: between a successful Next() and the next iteration every path either returns a non-nil error or encodes exactly once the report decoded, into a FRESH value, from that object; listing prefix is the validated date, target is <date>.json in the merge bucket",
			"merged objects are read with a reader without a token limit (or a Scanner with an adequate Buffer and a checked Err)",
			"chart: every day of [start,end] is read (step one day, inclusive end), every report is appended to both the report list and the ID list, NumReports = number of IDs, read errors are returned unchanged and a missing day maps to 404",
			"partition value = size of a set of report IDs inserted only from the grouped data; IDs derive from the report's X",
			"determinism: every range over a map in charts/partition/group/writeCount has order-insensitive effects (set/max accumulation, or append followed by a sort with a total comparator before the slice escapes)",
		},
		notDecided: []string{"numeric equality of every partition value for arbitrary report sets", "that storage listing returns every object", "collapse of duplicate X (by design)"},
	})
}

func runC13(c *Ctx) {
	gd := c.Godev()
	r := c.R
	c13Merge(c, gd)
	// merged reports and charts live in different buckets (both are named <date>.json)
	c18BucketWiring(c, gd, "C13.rewrite-replaces")
	cCloseBeforeSuccess(c, gd, gd.Func("cmd/worker", "handleMerge$1"), "C13.merge-one-per-object")
	cCloseBeforeSuccess(c, gd, gd.Func("cmd/worker", "handleChart$1"), "C13.every-report-counted")
	c13Reader(c, gd)
	c13Chart(c, gd)
	c13Determinism(c, gd)
	c13IDType(c, gd)
	cToolchainPred(c, c.Root(), "C13.partition-counts-ids")
	// re-writing a merged or chart object must replace it (otherwise a shorter re-merge keeps stale records)
	c18Writer(c, gd, "C13.rewrite-replaces")
	_ = r
}

func c13Merge(c *Ctx, gd *Module) {
	r := c.R
	h := gd.Func("cmd/worker", "handleMerge$1")
	var next, decode, encode *ssa.Call
	for _, cs := range callsIn(h) {
		cl, ok := cs.(*ssa.Call)
		if !ok {
			continue
		}
		n := calleeName(&cl.Call)
		switch {
		case strings.HasSuffix(n, ".ObjectIterator).Next"):
			next = cl
		case n == "(*encoding/json.Decoder).Decode":
			decode = cl
		case n == "(*encoding/json.Encoder).Encode":
			encode = cl
		}
	}
	okA := next != nil && decode != nil && encode != nil
	r.Check("C13.merge-one-per-object", "handleMerge/iterates, decodes and encodes", gd.Pos(h.Pos()), okA, "expected it.Next(), Decode and Encode")
	if !okA {
		return
	}
	nEnc := len(callsIn(h, "(*encoding/json.Encoder).Encode"))
	r.Check("C13.merge-one-per-object", "handleMerge/one encode site", gd.Pos(encode.Pos()), nEnc == 1, fmt.Sprintf("%d Encode calls", nEnc))
	// loop containing Next
	var loop *loopInfo
	for _, l := range naturalLoops(h) {
		if l.blocks[next.Block()] {
			loop = l
		}
	}
	r.Check("C13.merge-one-per-object", "handleMerge/objects are processed in a loop over the iterator", gd.Pos(next.Pos()), loop != nil, "")
	if loop == nil {
		return
	}
	// from the point where Next succeeded (err == nil and not Done), the loop header is not reachable without passing Encode
	var start ssa.Instruction
	for b := range loop.blocks {
		fs := blockFacts(b)
		if hasFact(fs, errNilOf(next)) && hasFact(fs, callResultIs("errors.Is", false, nil)) {
			if start == nil || b.Dominates(start.Block()) {
				start = b.Instrs[0]
			}
		}
	}
	okPath := start != nil
	if start != nil {
		w := reachesWithout(start, func(in ssa.Instruction) bool { return in == ssa.Instruction(next) }, func(in ssa.Instruction) bool { return in == ssa.Instruction(encode) })
		if start == ssa.Instruction(encode) {
			w = nil
		}
		okPath = w == nil
	}
	r.Check("C13.merge-one-per-object", "handleMerge/every listed object is encoded before the next one is fetched", gd.Pos(encode.Pos()), okPath,
		"no path from a successful Next() back to Next() may skip encoder.Encode (a skipped object is a lost report)")
	// every return inside the loop body (after a successful Next) returns a non-nil error
	for b := range loop.blocks {
		_ = b
	}
	for _, b := range h.Blocks {
		ret, ok := b.Instrs[len(b.Instrs)-1].(*ssa.Return)
		if !ok || b.Comment == "recover" || start == nil {
			continue
		}
		if !start.Block().Dominates(b) {
			continue
		}
		v := resultStored(ret, 0)
		r.Check("C13.merge-one-per-object", "handleMerge/abort inside the loop reports an error", gd.Pos(ret.Pos()), v != nil && !isNilConst(v) && isErrorType(v.Type()),
			"a return between Next() and the next iteration must carry the error (never a silent skip): returns "+describe(v))
	}
	// the encoded value is the one decoded in THIS iteration into a fresh report
	var target *ssa.Alloc
	if mi, ok := argsOf(decode)[1].(*ssa.MakeInterface); ok {
		target, _ = mi.X.(*ssa.Alloc)
	}
	okFresh := target != nil && loop.blocks[target.Block()] && target.Heap
	r.Check("C13.merge-one-per-object", "handleMerge/each object is decoded into a fresh report value", gd.Pos(decode.Pos()), okFresh,
		"the Decode target must be allocated inside the loop: encoding/json decodes INTO existing maps, so a reused value keeps keys of earlier reports")
	if target != nil {
		ed := describeArg(encode, 1)
		r.Check("C13.merge-one-per-object", "handleMerge/encodes the report decoded from this object", gd.Pos(encode.Pos()), ed == "*alloc:"+allocName(target) || ed == "alloc:"+allocName(target), "got "+ed)
		r.Check("C13.merge-one-per-object", "handleMerge/encode only after a successful decode", gd.Pos(encode.Pos()), hasFact(factsAt(encode), errNilOf(decode)), "Decode error must not be ignored")
	}
	// the decoder reads the object named by Next()
	dd := describeArg(decode, 0)
	r.Check("C13.merge-one-per-object", "handleMerge/decodes the listed object", gd.Pos(decode.Pos()), strings.Contains(dd, ".Object(") && strings.Contains(dd, "ObjectIterator).Next(") && strings.Contains(dd, ".Upload"), "got "+shortDesc(dd))
	// listing prefix validated, merge target name
	it := describe(next.Call.Value)
	okIt := strings.Contains(it, ".Upload") && strings.Contains(it, ".Objects(")
	var dateV ssa.Value
	if cl, ok := strip(next.Call.Value).(*ssa.Call); ok {
		dateV = argsOf(cl)[len(argsOf(cl))-1]
	}
	okDate := false
	if dateV != nil {
		okDate = hasFact(factsAt(next), func(f Fact) bool {
			bo, ok := f.Cond.(*ssa.BinOp)
			if !ok || !isNilConst(bo.Y) {
				return false
			}
			e, ok := bo.X.(*ssa.Extract)
			if !ok {
				return false
			}
			pc, ok := e.Tuple.(*ssa.Call)
			if !ok || calleeName(&pc.Call) != "time.Parse" {
				return false
			}
			k, _ := constOf(argsOf(pc)[0])
			return k == "2006-01-02" && argsOf(pc)[1] == dateV && ((bo.Op == token.NEQ) != f.Pol)
		})
	}
	r.Check("C13.merge-one-per-object", "handleMerge/lists the upload bucket by a validated date", gd.Pos(next.Pos()), okIt && okDate, "s.Upload.Objects(ctx, date) with time.Parse(DateOnly, date) == nil; iterator "+shortDesc(it))
	ew := describeArg(encode, 0)
	r.Check("C13.merge-one-per-object", "handleMerge/writes <date>.json in the merge bucket", gd.Pos(encode.Pos()), strings.Contains(ew, ".Merge") && strings.Contains(ew, `+ ".json")`) && dateV != nil && strings.Contains(ew, describe(dateV)), "got "+shortDesc(ew))
}

func c13Reader(c *Ctx, gd *Module) {
	r := c.R
	rm := gd.Func("cmd/worker", "readMergedReports")
	scanners := callsIn(rm, "bufio.NewScanner")
	if len(scanners) == 0 {
		// a streaming decoder or ReadBytes has no token limit
		okDec := len(callsIn(rm, "encoding/json.NewDecoder")) == 1 || len(callsIn(rm, "(*bufio.Reader).ReadBytes")) > 0 || len(callsIn(rm, "io.ReadAll")) > 0
		r.Check("C13.line-reader-unbounded", "cmd/worker.readMergedReports", gd.Pos(rm.Pos()), okDec, "merged objects must be read with a reader that has no per-record size limit (json.Decoder / ReadBytes / ReadAll)")
	} else {
		for _, sc := range scanners {
			// Buffer(…, max) with max ≥ 100 KiB · 6 (worst-case JSON re-escaping) and Err() checked after the loop
			okBuf := false
			for _, b := range callsIn(rm, "(*bufio.Scanner).Buffer") {
				if n, isC := intConst(argsOf(b)[2]); isC && n >= 6*100*1024 {
					okBuf = true
				}
			}
			okErr := false
			for _, e := range callsIn(rm, "(*bufio.Scanner).Err") {
				for _, u := range referrers(e.(*ssa.Call)) {
					if _, isB := u.(*ssa.BinOp); isB {
						okErr = true
					}
				}
			}
			r.Check("C13.line-reader-unbounded", "cmd/worker.readMergedReports", gd.Pos(sc.Pos()), okBuf && okErr,
				fmt.Sprintf("a bufio.Scanner stops silently at a line longer than its buffer (default 64 KiB; a stored report may be 100 KiB and grows when re-encoded): Buffer with max ≥ 600 KiB: %v; Err() checked: %v", okBuf, okErr))
		}
	}
	// the loop ends only at EOF or with an error; every decoded report is appended
	var dec *ssa.Call
	for _, cs := range callsIn(rm, "(*encoding/json.Decoder).Decode") {
		dec = cs.(*ssa.Call)
	}
	if dec != nil {
		for _, b := range rm.Blocks {
			ret, ok := b.Instrs[len(b.Instrs)-1].(*ssa.Return)
			if !ok || b.Comment == "recover" {
				continue
			}
			errV := resultStored(ret, 1)
			if errV == nil || !isNilConst(errV) {
				continue
			}
			// success return: must lie under Decode's error == io.EOF
			okEOF := hasFact(factsAt(ret), func(f Fact) bool {
				bo, ok := f.Cond.(*ssa.BinOp)
				if !ok {
					return false
				}
				eq := (bo.Op == token.EQL) == f.Pol
				return eq && ((isErrOf(bo.X, dec) && describe(bo.Y) == "*global:io.EOF") || (isErrOf(bo.Y, dec) && describe(bo.X) == "*global:io.EOF"))
			})
			r.Check("C13.line-reader-unbounded", "readMergedReports/success only at end of input", gd.Pos(ret.Pos()), okEOF, "reports, nil may be returned only when the decoder reached io.EOF")
		}
		// append under err == nil
		for _, cs := range callsIn(rm, "builtin:append") {
			okApp := hasFact(factsAt(cs), errNilOf(dec))
			r.Check("C13.line-reader-unbounded", "readMergedReports/every decoded report is kept", gd.Pos(cs.Pos()), okApp, "append after a successful Decode")
		}
	}
	// missing object => 404
	ok404 := false
	for _, cs := range callsIn(rm, "godev/internal/content.Error") {
		if n, isC := intConst(argsOf(cs)[1]); isC && n == 404 {
			ok404 = hasFact(factsAt(cs), callResultIs("errors.Is", true, func(a []ssa.Value, _ *ssa.Call) bool {
				return strings.HasSuffix(describe(a[1]), "storage.ErrObjectNotExist")
			}))
		}
	}
	r.Check("C13.every-report-counted", "readMergedReports/missing day is 'not found'", gd.Pos(rm.Pos()), ok404, "ErrObjectNotExist must map to content.Error(…, 404), never to an empty list")
	for _, b := range rm.Blocks {
		ret, ok := b.Instrs[len(b.Instrs)-1].(*ssa.Return)
		if !ok || b.Comment == "recover" {
			continue
		}
		if hasFact(factsAt(ret), callResultIs("errors.Is", true, nil)) {
			ev := resultStored(ret, 1)
			r.Check("C13.every-report-counted", "readMergedReports/not-found returns an error", gd.Pos(ret.Pos()), ev != nil && !isNilConst(ev), "got "+describe(ev))
		}
	}
}

func c13Chart(c *Ctx, gd *Module) {
	r := c.R
	h := gd.Func("cmd/worker", "handleChart$1")
	var read *ssa.Call
	for _, cs := range callsIn(h, "godev/cmd/worker.readMergedReports") {
		read = cs.(*ssa.Call)
	}
	r.Check("C13.every-report-counted", "handleChart/reads merged reports", gd.Pos(h.Pos()), read != nil, "")
	if read == nil {
		return
	}
	// the day loop: date phi [start, date.AddDate(0,0,1)], continues while !date.After(end)
	var loop *loopInfo
	for _, l := range naturalLoops(h) {
		if l.blocks[read.Block()] {
			if loop == nil || len(l.blocks) > len(loop.blocks) {
				loop = l
			}
		}
	}
	okLoop := false
	if loop != nil {
		for _, in := range loop.header.Instrs {
			phi, ok := in.(*ssa.Phi)
			if !ok {
				continue
			}
			init, step := "", ""
			for i, e := range phi.Edges {
				if loop.blocks[loop.header.Preds[i]] {
					step = describe(e)
				} else {
					init = describe(e)
				}
			}
			if strings.HasSuffix(init, "parseDateRange(param:r.URL)#0") && strings.HasPrefix(step, "(time.Time).AddDate(phi:") && strings.HasSuffix(step, ", 0, 0, 1)") {
				// exit condition: date.After(end)
				if cond, val, ok := loop.exitsOn(loop.header); ok {
					d := describe(cond)
					if strings.HasPrefix(d, "(time.Time).After(phi:") && strings.HasSuffix(d, "parseDateRange(param:r.URL)#1)") && val {
						okLoop = true
					}
				}
			}
		}
	}
	r.Check("C13.every-report-counted", "handleChart/visits every day of [start, end]", gd.Pos(read.Pos()), okLoop, "for date := start; !date.After(end); date = date.AddDate(0, 0, 1)")
	// the file read is <date>.json
	fd := describeArg(read, 1)
	okName := strings.HasPrefix(fd, "((time.Time).Format(phi:") && strings.HasSuffix(fd, `"2006-01-02") + ".json")`)
	if cl, isCall := strip(argsOf(read)[1]).(*ssa.Call); isCall && !okName && calleeName(&cl.Call) == "godev/cmd/worker.fileName" {
		// fileName(date, date): the name helper of the merged files, asked for a one-day range.
		// Its exit for start.Equal(end) — the one taken when both operands are the same value —
		// must build <start>.json
		a := cl.Call.Args
		if len(a) == 2 && a[0] == a[1] && strings.HasPrefix(describe(a[0]), "phi:") {
			fnm := gd.Func("cmd/worker", "fileName")
			for _, ex := range exitPaths(fnm) {
				isEq := hasFact(ex.facts, callResultIs("(time.Time).Equal", true, func(args []ssa.Value, eqc *ssa.Call) bool {
					args = eqc.Call.Args // receiver and operand
					set := map[ssa.Value]bool{}
					for _, a := range args {
						set[strip(a)] = true
					}
					return set[fnm.Params[0]] && set[fnm.Params[1]]
				}))
				if isEq {
					d := describe(ex.vals[0])
					okName = d == `((time.Time).Format(param:start, "2006-01-02") + ".json")` || d == `((time.Time).Format(param:end, "2006-01-02") + ".json")`
					fd += " = " + d
				}
			}
		}
	}
	r.Check("C13.every-report-counted", "handleChart/reads <date>.json", gd.Pos(read.Pos()), okName, "got "+fd)
	// errors returned unchanged
	for _, b := range h.Blocks {
		ret, ok := b.Instrs[len(b.Instrs)-1].(*ssa.Return)
		if !ok || b.Comment == "recover" || !hasFact(factsAt(ret), errNonNilOf(read)) {
			continue
		}
		ev := resultStored(ret, 0)
		if ev != nil {
			ev = refine(ev, factsAt(ret))
		}
		r.Check("C13.every-report-counted", "handleChart/read errors are returned unchanged", gd.Pos(ret.Pos()), ev != nil && isErrOf(ev, read), "a failed/missing day must abort the chart (not be charted as empty); returns "+describe(ev))
	}
	// the error edge of the read must be a return (no 'continue' past a failed day)
	{
		okEdge := false
		for _, u := range referrers(read) {
			if e, ok := u.(*ssa.Extract); ok && e.Index == 1 {
				for _, u2 := range referrers(e) {
					if bo, ok := u2.(*ssa.BinOp); ok && isNilConst(bo.Y) {
						for _, succ := range branchSucc(bo, bo.Op == token.NEQ) {
							if ret := returnBlock(succ); ret != nil {
								okEdge = true
							} else {
								okEdge = false
							}
						}
					}
				}
			}
		}
		r.Check("C13.every-report-counted", "handleChart/a failed day aborts the chart", gd.Pos(read.Pos()), okEdge, "the err != nil edge of readMergedReports must lead straight to a return")
	}
	// every daily report goes to both lists
	var appends []*ssa.Call
	for _, cs := range callsIn(h, "builtin:append") {
		appends = append(appends, cs.(*ssa.Call))
	}
	toReports, toXs := false, false
	nList := 0
	listBases := map[string]bool{}
	var others []*ssa.Call
	for _, a := range appends {
		base, el, ok := appendedElems(a)
		if !ok || len(el) != 1 {
			// reports = append(reports, dailyReports...): the whole day's slice at once
			if args := argsOf(a); len(args) == 2 && strings.Contains(describe(args[1]), "readMergedReports(") {
				toReports = true
				nList++
				listBases[describe(args[0])] = true
				continue
			}
			others = append(others, a)
			continue
		}
		d := describe(el[0])
		hit := false
		if strings.Contains(d, "readMergedReports(") && strings.HasSuffix(d, "]") {
			toReports, hit = true, true
		}
		if strings.Contains(d, "readMergedReports(") && strings.HasSuffix(d, "].X") {
			toXs, hit = true, true
		}
		// alloc copy forms
		if strings.HasPrefix(d, "alloc:r#") || strings.HasPrefix(d, "*alloc:r#") {
			toReports, hit = true, true
		}
		if strings.HasSuffix(d, ".X") {
			toXs, hit = true, true
		}
		if hit {
			nList++
			listBases[describe(base)] = true
		} else {
			others = append(others, a)
		}
	}
	// appends to other slices (a diagnostic list, say) are none of this rule's business; a further
	// append to one of the two lists is
	extra := 0
	for _, a := range others {
		if base, _, ok := appendedElems(a); ok && listBases[describe(base)] {
			extra++
		}
	}
	r.Check("C13.every-report-counted", "handleChart/every report is both grouped and counted", gd.Pos(h.Pos()), toReports && toXs && nList == 2 && extra == 0, fmt.Sprintf("appends to the two lists: %d, further appends to them: %d (reports:%v ids:%v)", nList, extra, toReports, toXs))
	// same inner loop for both
	if len(appends) == 2 {
		same := appends[0].Block() == appends[1].Block()
		if !same {
			// … or the day's reports are appended as a whole (append(reports, daily...)) and the
			// ids are collected by an unconditional loop over the same daily slice
			for k := 0; k < 2; k++ {
				whole, other := appends[k], appends[1-k]
				if len(whole.Call.Args) != 2 {
					continue
				}
				daily := strip(whole.Call.Args[1])
				if _, isSlice := daily.Type().Underlying().(*types.Slice); !isSlice || !strings.Contains(describe(daily), "readMergedReports(") {
					continue
				}
				if _, el, ok := appendedElems(other); ok && len(el) == 1 {
					d := describe(el[0])
					overDaily := strings.HasSuffix(d, ".X") && strings.Contains(d, describe(daily))
					if !overDaily && strings.HasSuffix(d, ".X") {
						// for _, r := range daily { … r.X … }: r is a local copy of daily[i]
						if b, _, ok := fieldLoad(el[0]); ok {
							if a, isA := strip(b).(*ssa.Alloc); isA {
								for _, u := range referrers(a) {
									if st, isSt := u.(*ssa.Store); isSt && st.Addr == ssa.Value(a) && strings.Contains(describe(st.Val), describe(daily)) {
										overDaily = true
									}
								}
							}
						}
					}
					uncond := true
					for _, f := range factsAt(other) {
						if !isLoopMechanics(f) && !hasFact(factsAt(whole), func(g Fact) bool { return g == f }) {
							uncond = false
						}
					}
					if os.Getenv("VERIF_DEBUG_C13") != "" {
						fmt.Printf("C13DBG daily=%s elem=%s overDaily=%v uncond=%v\n", describe(daily), d, overDaily, uncond)
						for _, f := range factsAt(other) {
							fmt.Printf("   fact %v %s mech=%v\n", f.Pol, shortDesc(describe(f.Cond)), isLoopMechanics(f))
						}
					}
					if overDaily && uncond {
						same = true
					}
				}
			}
		}
		r.Check("C13.every-report-counted", "handleChart/both lists grow in the same iteration", gd.Pos(appends[0].Pos()), same, "one loop body appends to reports and xs (or the day's reports are appended whole and every one of them contributes its X)")
	}
	// charts(): NumReports = len(xs)
	ch := gd.Func("cmd/worker", "charts")
	okNum := false
	for _, in := range instrsOf(ch) {
		if st, ok := in.(*ssa.Store); ok {
			if fa, ok := st.Addr.(*ssa.FieldAddr); ok {
				if _, f, _ := fieldAddrName(fa); f == "NumReports" {
					okNum = describe(st.Val) == "builtin:len(param:xs)"
				}
			}
		}
	}
	r.Check("C13.every-report-counted", "charts/NumReports = len(ids)", gd.Pos(ch.Pos()), okNum, "")
	for _, cs := range callsIn(h, "godev/cmd/worker.charts") {
		a := argsOf(cs)
		r.Check("C13.every-report-counted", "handleChart/charts gets the grouped data and the id list", gd.Pos(cs.Pos()), strings.HasPrefix(describe(a[3]), "godev/cmd/worker.group(") && strings.Contains(describe(a[4]), "phi:"), "got "+describe(a[3])+", "+describe(a[4]))
	}
	// partition: Value = float64(len(merged[key set])), ids inserted from d[wk][pk][chart][bucket] keys
	pt := gd.Func("cmd/worker", "data.partition")
	okVal, okIns := false, false
	for _, in := range instrsOf(pt) {
		if al, ok := in.(*ssa.Alloc); ok && namedType(al.Type()) == "godev/cmd/worker.datum" {
			if lit, ok := structLit(al); ok {
				vd := describe(lit["Value"])
				okVal = strings.HasPrefix(vd, "conv<float64>(builtin:len(rangeval(")
			}
		}
		if mu, ok := in.(*ssa.MapUpdate); ok {
			kd := describe(mu.Key)
			if strings.HasPrefix(kd, "rangekey(rangeval(param:d)[") && strings.Contains(kd, "][param:chartName][") {
				okIns = true
			}
		}
	}
	r.Check("C13.partition-counts-ids", "partition/value is the size of the id set", gd.Pos(pt.Pos()), okVal, "datum.Value = float64(len(merged[bucket]))")
	r.Check("C13.partition-counts-ids", "partition/ids come from the grouped data of this program, chart and bucket", gd.Pos(pt.Pos()), okIns, "merged[key][id] for id ∈ keys(d[week][program][chart][bucket])")
	// every configured bucket contributes: the only skip in the bucket loop is an exact duplicate
	// of the configured name itself (not of its normalised key, which would drop whole buckets)
	{
		nSkip := 0
		for _, in := range instrsOf(pt) {
			lk, ok := in.(*ssa.Lookup)
			if !ok {
				continue
			}
			mm, isMake := strip(lk.X).(*ssa.MakeMap)
			if !isMake || !strings.Contains(mm.Type().String(), "bool") {
				continue
			}
			nSkip++
			kd := describe(lk.Index)
			okKey := strings.HasPrefix(kd, "param:buckets[")
			// inserted with the same key
			okIns2 := false
			for _, in2 := range instrsOf(pt) {
				if mu, ok := in2.(*ssa.MapUpdate); ok && strip(mu.Map) == ssa.Value(mm) && describe(mu.Key) == kd {
					okIns2 = true
				}
			}
			r.Check("C13.partition-counts-ids", "partition/duplicate-bucket skip is keyed by the configured bucket name", gd.Pos(lk.Pos()), okKey && okIns2,
				"a configured bucket may be skipped only if that very name was already processed; keying the skip by the normalised name drops every later bucket of the same group; key: "+kd)
		}
		r.Check("C13.partition-counts-ids", "partition/has the duplicate-bucket skip", gd.Pos(pt.Pos()), nSkip == 1, fmt.Sprintf("%d", nSkip))
		// the ids read are those of the configured bucket itself
		okSrc := false
		for _, in := range instrsOf(pt) {
			if rg, ok := in.(*ssa.Range); ok {
				d := describe(rg.X)
				if strings.HasPrefix(d, "param:d[") && strings.HasSuffix(d, "][param:chartName][param:buckets["+strings.SplitN(strings.SplitN(d+"[param:buckets[", "[param:buckets[", 2)[1], "]", 2)[0]+"]]") {
					okSrc = true
				}
			}
		}
		_ = okSrc
	}
	gr := gd.Func("cmd/worker", "group")
	okID := false
	for _, cs := range callsIn(gr, "(godev/cmd/worker.data).writeCount") {
		a := argsOf(cs)
		// reportID(r.X) with r the element of the range over the reports parameter
		idv := strip(a[5])
		if cv, ok := idv.(*ssa.Convert); ok {
			idv = strip(cv.X)
		}
		base, fld, isField := fieldLoad(idv)
		src := ""
		if isField {
			src = describe(base)
			if al, ok := strip(base).(*ssa.Alloc); ok {
				if sv := singleStore(al); sv != nil {
					src = describe(sv)
				}
			}
		}
		if isField && fld == "X" && strings.HasPrefix(src, "param:reports[") {
			okID = true
		} else {
			okID = false
			break
		}
	}
	r.Check("C13.partition-counts-ids", "group/report id is the report's X", gd.Pos(gr.Pos()), okID, "every writeCount of a report uses reportID(r.X)")
}

// c13Determinism (E11): ranges over maps must have order-insensitive effects.
func c13Determinism(c *Ctx, gd *Module) {
	r := c.R
	n := 0
	for _, name := range []string{"charts", "data.partition", "group", "data.writeCount"} {
		fn := gd.Func("cmd/worker", name)
		for _, l := range naturalLoops(fn) {
			var rg *ssa.Range
			for _, in := range l.header.Instrs {
				if nx, ok := in.(*ssa.Next); ok {
					rg, _ = nx.Iter.(*ssa.Range)
				}
			}
			if rg == nil {
				continue
			}
			if _, isMap := rg.X.Type().Underlying().(*types.Map); !isMap {
				continue
			}
			n++
			bad := ""
			for b := range l.blocks {
				for _, in := range b.Instrs {
					switch x := in.(type) {
					case *ssa.MapUpdate, *ssa.Next, *ssa.Range, *ssa.Phi, *ssa.If, *ssa.Jump, *ssa.Extract, *ssa.Lookup, *ssa.BinOp, *ssa.UnOp, *ssa.FieldAddr, *ssa.IndexAddr, *ssa.Index,
						*ssa.Convert, *ssa.ChangeType, *ssa.MakeMap, *ssa.MakeInterface, *ssa.Alloc, *ssa.Slice, *ssa.DebugRef, *ssa.MakeSlice, *ssa.MakeClosure, *ssa.Field, *ssa.ChangeInterface:
					case *ssa.Store:
						// stores into fresh locals / struct literals are fine; a store to a field of an outer object that is an append is handled at the append
						_ = x
					case *ssa.Return:
						bad = "return inside a map range (first match wins depends on iteration order)"
					case ssa.CallInstruction:
						cn := calleeName(x.Common())
						switch {
						case cn == "builtin:append":
							// the slice appended to must be sorted before it escapes
							cl := x.(*ssa.Call)
							if !appendIsSortedLater(fn, cl) {
								bad = "append to a slice that is not sorted afterwards: " + describeArg(cl, 0)
							}
						case cn == "builtin:len" || cn == "builtin:delete" || cn == "builtin:cap":
						case strings.HasPrefix(cn, "godev/cmd/worker.") || strings.HasPrefix(cn, "(godev/cmd/worker."):
							// repo helpers: writeCount (map insertion), splitCounterName (pure), normalizeBucket
							if !(strings.HasSuffix(cn, "writeCount") || strings.HasSuffix(cn, "splitCounterName") || strings.HasSuffix(cn, "goMajorMinor")) {
								bad = "call to " + cn + " inside a map range"
							}
						case cn == "dyn" || strings.HasPrefix(cn, "fmt.Sprintf") || strings.HasPrefix(cn, "strings."):
						default:
							bad = "call to " + cn + " inside a map range"
						}
					default:
						bad = fmt.Sprintf("instruction %T inside a map range", in)
					}
				}
			}
			r.Check("C13.determinism", fname(fn)+"/range over "+shortDesc(describe(rg.X)), gd.Pos(rg.Pos()), bad == "", "effects of a range over a map must not depend on the iteration order: "+bad)
		}
	}
	r.Check("C13.determinism", "map ranges enumerated", "-", n >= 3, fmt.Sprintf("%d ranges over maps", n))
	// the comparators used by partition's sort are total orders (table)
	pt := gd.Func("cmd/worker", "data.partition")
	okSort := false
	for _, cs := range callsIn(pt, "sort.Slice", "sort.SliceStable", "slices.SortFunc") {
		okSort = strings.Contains(describeArg(cs, 0), ".Data")
	}
	r.Check("C13.determinism", "partition/chart data is sorted before it is returned", gd.Pos(pt.Pos()), okSort, "sort.Slice(chart.Data, …)")
	// every comparator that can reach partition's sort is a total order on distinct strings:
	// either the lexical comparison itself or a comparison that falls back to it on a tie
	// (sort.Slice and sort.SliceStable alike leave the order of "equal" keys to the map range)
	lex := gd.Func("cmd/worker", "compareLexically")
	comparators := map[*ssa.Function]ssa.Instruction{}
	note := func(v ssa.Value, at ssa.Instruction) {
		switch f := strip(v).(type) {
		case *ssa.Function:
			comparators[f] = at
		case *ssa.MakeClosure:
			comparators[f.Fn.(*ssa.Function)] = at
		}
	}
	for _, fn := range gd.srcFns {
		if fn.Pkg == nil || fn.Pkg != pt.Pkg {
			continue
		}
		for _, in := range instrsOf(fn) {
			if st, ok := in.(*ssa.Store); ok {
				if fa, ok := st.Addr.(*ssa.FieldAddr); ok {
					if _, f, _ := fieldAddrName(fa); f == "compareBuckets" {
						note(st.Val, st)
					}
				}
			}
			if phi, ok := in.(*ssa.Phi); ok && fn == pt {
				if sig, ok := phi.Type().Underlying().(*types.Signature); ok && sig.Params().Len() == 2 {
					for _, e := range phi.Edges {
						note(e, phi)
					}
				}
			}
		}
	}
	r.Check("C13.determinism", "partition/comparators enumerated", gd.Pos(pt.Pos()), len(comparators) >= 2, fmt.Sprintf("%d comparator functions reach the sort", len(comparators)))
	for f, at := range comparators {
		okTotal := f == lex || len(callsIn(f, "godev/cmd/worker.compareLexically")) >= 1
		if !okTotal && fname(f) == "go/version.Compare" {
			// tabled: total on the keys it is given, provided the same options normalise every
			// bucket with goMajorMinor ("goN.M" without leading zeros, or the one invalid key "")
			if st, ok := at.(*ssa.Store); ok {
				if fa, ok := st.Addr.(*ssa.FieldAddr); ok {
					for _, u := range referrers(fa.X) {
						fa2, ok := u.(*ssa.FieldAddr)
						if !ok {
							continue
						}
						if _, f2, _ := fieldAddrName(fa2); f2 != "normalizeBucket" {
							continue
						}
						for _, u2 := range referrers(fa2) {
							if st2, ok := u2.(*ssa.Store); ok {
								var nf *ssa.Function
								switch x := strip(st2.Val).(type) {
								case *ssa.Function:
									nf = x
								case *ssa.MakeClosure:
									nf = x.Fn.(*ssa.Function)
								}
								if nf != nil && len(callsIn(nf, "godev/cmd/worker.goMajorMinor")) >= 1 {
									okTotal = true
								}
							}
						}
					}
				}
			}
		}
		r.Check("C13.determinism", "comparator "+fname(f)+" is a total order on distinct keys", gd.Pos(at.Pos()), okTotal,
			"a comparator that can return 0 for distinct bucket names (semver.Compare, version.Compare) leaves their order to the map iteration; it must break ties with compareLexically")
	}
	// compareLexically itself: -1 / +1 by string order, 0 only for equal strings
	{
		ops := map[token.Token]bool{}
		for _, in := range instrsOf(lex) {
			if bo, ok := in.(*ssa.BinOp); ok && bo.X == ssa.Value(lex.Params[0]) && bo.Y == ssa.Value(lex.Params[1]) {
				ops[bo.Op] = true
			}
		}
		n := 0
		for _, op := range []token.Token{token.LSS, token.GTR, token.EQL} {
			if ops[op] {
				n++
			}
		}
		// … or it is the library's three-way string comparison of its two parameters
		for _, cs := range callsIn(lex, "strings.Compare", "cmp.Compare[string]") {
			a := cs.Common().Args
			if len(a) == 2 && a[0] == ssa.Value(lex.Params[0]) && a[1] == ssa.Value(lex.Params[1]) {
				for _, u := range referrers(cs.(*ssa.Call)) {
					if _, isRet := u.(*ssa.Return); isRet {
						n = 2
					}
				}
			}
		}
		r.Check("C13.determinism", "compareLexically/orders by the strings themselves", gd.Pos(lex.Pos()), n >= 2, "two of x < y, x > y, x == y decide among -1, 0, +1; 0 only when equal")
	}
}

// appendIsSortedLater: the result of the append is stored into a location that a later
// sort.Slice/SortFunc call (dominating every return) sorts.
func appendIsSortedLater(fn *ssa.Function, app *ssa.Call) bool {
	// where does the grown slice end up? follow it through merges to the locations it is stored in
	targets := map[string]bool{}
	seen := map[ssa.Value]bool{}
	var follow func(v ssa.Value, depth int)
	follow = func(v ssa.Value, depth int) {
		if seen[v] || depth > 6 {
			return
		}
		seen[v] = true
		for _, u := range referrers(v) {
			switch x := u.(type) {
			case *ssa.Store:
				if x.Val == v {
					targets[strings.TrimPrefix(describe(x.Addr), "&")] = true
				}
			case *ssa.Phi:
				follow(x, depth+1)
			case *ssa.ChangeType:
				follow(x, depth+1)
			}
		}
	}
	follow(app, 0)
	for _, cs := range callsIn(fn, "sort.Slice", "sort.SliceStable", "sort.Strings", "slices.SortFunc", "slices.Sort", "sort.Sort") {
		d := describeArg(cs, 0)
		for t := range targets {
			if t != "" && strings.Contains(d, t) {
				return true
			}
		}
		// sorted directly as a value (the merged slice itself)
		if seen[strip(argsOf(cs)[0])] {
			return true
		}
	}
	return false
}

// c13IDType: a report's identity is its X; the type that carries it through partition's ID sets
// must not be narrower than X's own type (a float32 key merges distinct reports whose X agree
// to seven digits and counts them once).
func c13IDType(c *Ctx, gd *Module) {
	r := c.R
	wp := gd.Pkg("cmd/worker")
	obj := wp.Pkg.Scope().Lookup("reportID")
	xType := "?"
	for _, p := range gd.Prog.AllPackages() {
		if strings.HasSuffix(p.Pkg.Path(), "x/telemetry/internal/telemetry") {
			if ro := p.Pkg.Scope().Lookup("Report"); ro != nil {
				if st, ok := ro.Type().Underlying().(*types.Struct); ok {
					for i := 0; i < st.NumFields(); i++ {
						if st.Field(i).Name() == "X" {
							xType = st.Field(i).Type().Underlying().String()
						}
					}
				}
			}
		}
	}
	got := "reportID not found"
	ok := false
	if obj != nil {
		got = obj.Type().Underlying().String()
		ok = got == xType && xType != "?"
	}
	pos := "-"
	if obj != nil {
		pos = gd.Pos(obj.Pos())
	}
	r.Check("C13.partition-counts-ids", "reportID has the type of Report.X", pos, ok, "Report.X is "+xType+"; reportID is "+got)
}

// cToolchainPred: IsToolchainProgram(p) is exactly "p begins with cmd/". The chart worker drops the
// Version partition of toolchain programs and the configuration answers HasVersion for them from
// the Go version list: widening the predicate silently re-classifies configured programs.
func cToolchainPred(c *Ctx, m *Module, rule string) {
	r := c.R
	f := m.Func("internal/telemetry", "IsToolchainProgram")
	n := 0
	for _, ex := range exitPaths(f) {
		n++
		v := strip(refine(ex.vals[0], ex.facts))
		ok := false
		if kind, sv, pv, isT := affixTest(v); isT && kind == "HasPrefix" {
			k, isC := constOf(pv)
			ok = isC && k == "cmd/" && strip(sv) == ssa.Value(f.Params[0])
		}
		if k, isC := constOf(v); isC && k == "false" {
			// the short-circuit exit of the hand-written form: the path is shorter than the prefix
			ok = hasFact(ex.facts, func(fc Fact) bool {
				bo, isB := fc.Cond.(*ssa.BinOp)
				if !isB {
					return false
				}
				d := describe(bo)
				return strings.Contains(d, "builtin:len(param:progPath)") && strings.Contains(d, " 4")
			})
		}
		r.Check(rule, fmt.Sprintf("IsToolchainProgram/result #%d is HasPrefix(path, \"cmd/\")", n), m.Pos(ex.ret.Pos()), ok, "got "+shortDesc(describe(v)))
	}
	r.Check(rule, "IsToolchainProgram/results enumerated", m.Pos(f.Pos()), n >= 1, fmt.Sprintf("%d", n))
}

// cCloseBeforeSuccess: a handler that writes an object answers 200 only after Close of the
// object's writer returned nil — with Cloud Storage, Close is where a failed write is reported and
// the object is then not there. The deferred Close (its error dropped) does not count.
func cCloseBeforeSuccess(c *Ctx, gd *Module, h *ssa.Function, rule string) {
	r := c.R
	n := 0
	for _, cs := range callsIn(h) {
		cc := cs.Common()
		if !cc.IsInvoke() || cc.Method.Name() != "NewWriter" {
			continue
		}
		nw, ok := cs.(*ssa.Call)
		if !ok {
			continue
		}
		var w ssa.Value
		for _, u := range referrers(nw) {
			if ex, ok := u.(*ssa.Extract); ok && ex.Index == 0 {
				w = ex
			}
		}
		if w == nil {
			continue
		}
		var closes []*ssa.Call
		for _, cs2 := range callsIn(h) {
			c2 := cs2.Common()
			if cl, isCall := cs2.(*ssa.Call); isCall && c2.IsInvoke() && c2.Method.Name() == "Close" && strip(c2.Value) == strip(w) {
				closes = append(closes, cl)
			}
		}
		for _, cs3 := range callsIn(h) {
			name := calleeName(cs3.Common())
			if !strings.HasPrefix(name, "godev/internal/content.") || !nw.Block().Dominates(cs3.Block()) {
				continue
			}
			is200 := false
			for _, a := range cs3.Common().Args {
				if k, isC := constOf(a); isC && k == "200" {
					is200 = true
				}
			}
			if !is200 {
				continue
			}
			n++
			okClosed := true
			if os.Getenv("VERIF_DEBUG_CLOSE") != "" {
				for i, cse := range factCases(factsAt(cs3)) {
					for _, f := range cse {
						fmt.Printf("CLOSE case %d: %v %s\n", i, f.Pol, shortDesc(describe(f.Cond)))
					}
				}
				for _, cl := range closes {
					fmt.Printf("CLOSE call: %s at %s\n", cl.String(), gd.Pos(cl.Pos()))
				}
			}
			for _, cse := range factCases(factsAt(cs3)) {
				okCase := false
				for _, cl := range closes {
					if hasFact(cse, errNilOf(cl)) {
						okCase = true
					}
					// the error tested may be a merged variable (the result of an expanded helper): on
					// the only edge that can carry nil it is this Close's result
					for _, v := range knownNilValues(cse) {
						if strip(v) == ssa.Value(cl) {
							okCase = true
						}
					}
				}
				if !okCase {
					okClosed = false
				}
			}
			r.Check(rule, fname(h)+"/answers 200 only after the object's writer was closed without error", gd.Pos(cs3.Pos()), okClosed,
				"Close() of the writer returned by NewWriter must have been called and its error tested on every path to the 200 answer")
		}
	}
	r.Check(rule, fname(h)+"/success answers after a write enumerated", gd.Pos(h.Pos()), n >= 1, fmt.Sprintf("%d", n))
}

// knownNilValues: the values the facts assert to be nil; a merged value (phi) is replaced by the
// value of its only incoming edge that the facts do not rule out.
func knownNilValues(facts []Fact) []ssa.Value {
	var out []ssa.Value
	for _, f := range facts {
		bo, ok := f.Cond.(*ssa.BinOp)
		if !ok || !(bo.Op == token.EQL && f.Pol || bo.Op == token.NEQ && !f.Pol) {
			continue
		}
		var v ssa.Value
		if isNilConst(bo.Y) {
			v = bo.X
		} else if isNilConst(bo.X) {
			v = bo.Y
		} else {
			continue
		}
		out = append(out, v)
		cur := f
		for depth := 0; depth < 4; depth++ {
			phi, contradicts := phiFact(cur)
			if phi == nil {
				break
			}
			var feasible []int
			for i := range phi.Edges {
				if !contradicts(i) {
					feasible = append(feasible, i)
				}
			}
			if len(feasible) != 1 {
				break
			}
			e := phi.Edges[feasible[0]]
			out = append(out, e)
			if _, isPhi := e.(*ssa.Phi); !isPhi {
				break
			}
			break
		}
	}
	return out
}
