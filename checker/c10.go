package main

// C10 — written counter files conform to the documented v1 on-disk format (structural part).

import (
	"fmt"
	"go/token"
	"go/types"
	"sort"
	"strconv"
	"strings"

	"golang.org/x/tools/go/ssa"
)

func init() {
	register("C10", &propDef{
		run:    runC10,
		matrix: true,
		decided: []string{
			"layout constants have the documented values (prefix, version, record unit, hash table size, name/metadata caps, limit/hash offsets, page size)",
			"hash is FNV-1a over the BYTES of the name (xor then multiply, offset and prime constants), folded (h ^ h>>16) mod numHash",
			"writer/reader agreement: record field offsets and widths, length tag vs mask, header length word and metadata position, bucket address formula",
			"alignment: header length and record sizes are multiples of recordUnit; first record starts after the hash table; page-crossing test reserves the page tail; the only file write of extend is the 4-byte page-tail write",
			"limit only grows and stays within the mapping: the reservation CAS installs end = start + n with start ≥ limit under end ≤ len(mapping); names longer than maxNameLen are refused before any reservation",
		},
		notDecided: []string{"an independent implementation reads back what was written (needs execution)", "non-overlap for every (limit, name length) pair beyond the shape of the test"},
	})
}

var c10Consts = map[string]string{
	"FileVersion": "v1", "hdrPrefix": "# telemetry/counter file v1\n", "recordUnit": "32", "maxMetaLen": "512", "numHash": "512",
	"maxNameLen": "4096", "limitOff": "0", "hashOff": "4", "pageSize": "16384", "minFileLen": "16384",
}

func runC10(c *Ctx) {
	m := c.Root()
	r := c.R
	_ = r
	var names []string
	for k := range c10Consts {
		names = append(names, k)
	}
	sort.Strings(names)
	_ = names
	c10Constants(c, m, "C10.constants")
	c10Hash(c, m)
	// a process attaches only to a file whose whole header is the one it would have written (the
	// offsets of limit, table and records follow from the header length)
	c09HeaderVerified(c, m, "C10.record-offsets")
	c10HeaderLenRange(c, m, "C10.record-offsets")
	// names of any content are stored as given (file.lookup hands newCounter the caller's name)
	c03LookupTotal(c, m, "C10.record-offsets")
	// every record that was written can be found again (the walk is not given up early), and the
	// library's reader reports every record of the file
	c04LookupGuard(c, m, "C10.record-offsets")
	c.R.As(map[string]string{"C06.faithful": "C10.record-offsets"}, func() {
		c06Shape(c, m, m.Func("internal/counter", "Parse"))
	})
	c10Offsets(c, m)
	c10Alignment(c, m)
	c10ExtendTail(c, m, "C10.page-tail")
	c10Limit(c, m, "C10.limit-monotone")
	// several writers: what one writes is what every reader finds (publication discipline)
	c04Publication(c, m, "C10")
}

func commut(b *ssa.BinOp, op token.Token) (ssa.Value, ssa.Value, bool) {
	if b == nil || b.Op != op {
		return nil, nil, false
	}
	return b.X, b.Y, true
}

func c10Hash(c *Ctx, m *Module) {
	r := c.R
	h := m.Func("internal/counter", "hash")
	pos := m.Pos(h.Pos())
	fail := func(what string) { r.Check("C10.hash-shape", "internal/counter.hash", pos, false, what) }
	loops := naturalLoops(h)
	if len(loops) != 1 {
		fail(fmt.Sprintf("expected one loop over the name, found %d", len(loops)))
		return
	}
	l := loops[0]
	var hphi *ssa.Phi
	for _, in := range l.header.Instrs {
		if phi, ok := in.(*ssa.Phi); ok {
			for i, e := range phi.Edges {
				if l.blocks[l.header.Preds[i]] {
					continue
				}
				if k, isC := intConst(e); isC && k == 2166136261 {
					hphi = phi
				}
			}
		}
	}
	if hphi == nil {
		fail("no accumulator initialised with the FNV offset basis 2166136261")
		return
	}
	// accumulator update: (h ^ uint32(name[i])) * 16777619
	var upd ssa.Value
	for i, e := range hphi.Edges {
		if l.blocks[l.header.Preds[i]] {
			upd = e
		}
	}
	mul, _ := strip(upd).(*ssa.BinOp)
	x, y, ok := commut(mul, token.MUL)
	if !ok {
		fail("accumulator update is not a multiplication (FNV-1a: xor THEN multiply); got " + describe(upd))
		return
	}
	var xorV ssa.Value
	if k, isC := intConst(y); isC && k == 16777619 {
		xorV = x
	} else if k, isC := intConst(x); isC && k == 16777619 {
		xorV = y
	} else {
		fail("multiplier is not the FNV prime 16777619: " + describe(upd))
		return
	}
	xb, _ := strip(xorV).(*ssa.BinOp)
	a, b, ok := commut(xb, token.XOR)
	if !ok {
		fail("multiplicand is not h XOR byte (FNV-1, not FNV-1a?): " + describe(xorV))
		return
	}
	var byteV ssa.Value
	if strip(a) == ssa.Value(hphi) {
		byteV = b
	} else if strip(b) == ssa.Value(hphi) {
		byteV = a
	} else {
		fail("xor does not involve the accumulator: " + describe(xorV))
		return
	}
	// byteV = uint32(name[i]) with i running over 0 … len(name)-1: a BYTE index of the string
	// parameter (directly, or of its []byte conversion), in a counted loop or a range loop
	cv, isCv := strip(byteV).(*ssa.Convert)
	var idx ssa.Value
	if isCv {
		switch x := strip(cv.X).(type) {
		case *ssa.Index:
			if x.X == ssa.Value(h.Params[0]) {
				idx = strip(x.Index)
			}
		case *ssa.UnOp:
			if ia, ok := x.X.(*ssa.IndexAddr); ok && x.Op == token.MUL {
				if conv, ok := strip(ia.X).(*ssa.Convert); ok && conv.X == ssa.Value(h.Params[0]) && isByteSlice(conv.Type()) {
					idx = strip(ia.Index)
				}
			}
		}
	}
	// the index is the loop counter: phi(0, phi+1) itself, or phi+1 of phi(-1, phi+1) (range lowering)
	okByte := false
	counterOf := func(phi *ssa.Phi, init int64) bool {
		okInit, okStep := false, false
		for i, e := range phi.Edges {
			if l.blocks[l.header.Preds[i]] {
				bo, ok := strip(e).(*ssa.BinOp)
				if ok && bo.Op == token.ADD && strip(bo.X) == ssa.Value(phi) {
					if k, isC := intConst(bo.Y); isC && k == 1 {
						okStep = true
					}
				}
			} else if k, isC := intConst(e); isC && k == init {
				okInit = true
			}
		}
		return okInit && okStep && phi.Block() == l.header
	}
	switch x := idx.(type) {
	case *ssa.Phi:
		okByte = counterOf(x, 0)
	case *ssa.BinOp:
		if phi, ok := strip(x.X).(*ssa.Phi); ok && x.Op == token.ADD {
			if k, isC := intConst(x.Y); isC && k == 1 {
				okByte = counterOf(phi, -1)
			}
		}
	}
	if !okByte {
		fail("the value mixed in each step must be byte name[i] for i = 0 … len(name)-1 (ranging over runes is not FNV-1a for non-ASCII names); got " + describe(byteV))
		return
	}
	cl := classifyLoop(l)
	if (cl.Kind != "counted" && cl.Kind != "range") || !strings.Contains(cl.Detail, "param:name") {
		fail("the loop must visit every byte index below len(name): " + cl.Kind + " " + cl.Detail)
		return
	}
	// result
	numHash := m.ConstVal("internal/counter", "numHash")
	okRes := false
	for _, blk := range h.Blocks {
		if ret, ok := blk.Instrs[len(blk.Instrs)-1].(*ssa.Return); ok {
			rem, _ := strip(ret.Results[0]).(*ssa.BinOp)
			// x % numHash, or x & (numHash-1) for an unsigned x and numHash a power of two
			isMod := false
			if rem != nil && rem.Op == token.REM {
				if k, isC := constOf(rem.Y); isC && k == numHash {
					isMod = true
				}
			}
			if rem != nil && rem.Op == token.AND {
				nh, _ := strconv.ParseInt(numHash, 10, 64)
				if k, isC := intConst(rem.Y); isC && nh > 0 && nh&(nh-1) == 0 && k == nh-1 {
					if b, isB := rem.X.Type().Underlying().(*types.Basic); isB && b.Info()&types.IsUnsigned != 0 {
						isMod = true
					}
				}
			}
			if isMod {
				{
					fx, _ := strip(rem.X).(*ssa.BinOp)
					p, q, ok := commut(fx, token.XOR)
					if ok {
						for _, pair := range [][2]ssa.Value{{p, q}, {q, p}} {
							if strip(pair[0]) == ssa.Value(hphi) {
								if sh, ok := strip(pair[1]).(*ssa.BinOp); ok && sh.Op == token.SHR && strip(sh.X) == ssa.Value(hphi) {
									if k, isC := intConst(sh.Y); isC && k == 16 {
										okRes = true
									}
								}
							}
						}
					}
				}
			}
		}
	}
	if !okRes {
		fail("result must be (h ^ (h >> 16)) % numHash")
		return
	}
	r.Check("C10.hash-shape", "internal/counter.hash", pos, true, "FNV-1a over bytes: h0 = 2166136261; h = (h ^ name[i]) * 16777619; result (h ^ h>>16) % "+numHash)
}

// relOffsets: constant offsets (relative to parameter off) at which fn touches the mapping, with widths.
func relOffsets(fn *ssa.Function, off ssa.Value) map[string]bool {
	out := map[string]bool{}
	note := func(v ssa.Value, width string) {
		p := newProver()
		l := p.norm(v).add(p.norm(off), -1)
		if len(l.coef) == 0 {
			out[fmt.Sprintf("+%d:%s", l.k, width)] = true
		} else {
			out["?"+l.String()+":"+width] = true
		}
	}
	for _, in := range instrsOf(fn) {
		switch x := in.(type) {
		case *ssa.IndexAddr:
			if strings.HasSuffix(describe(x.X), ".mapping.Data") {
				note(x.Index, fmt.Sprint(accessWidth(x)))
			}
		case *ssa.Slice:
			if strings.HasSuffix(describe(x.X), ".mapping.Data") && x.Low != nil {
				note(x.Low, "name")
			}
		case *ssa.Call:
			if calleeName(&x.Call) == "(*internal/counter.mappedFile).load32" {
				note(argsOf(x)[1], "4")
			}
		}
	}
	return out
}

func setStr(m map[string]bool) string {
	return strings.Join(keysSorted(m), " ")
}

func c10Offsets(c *Ctx, m *Module) {
	r := c.R
	w := m.Func("internal/counter", "mappedFile.writeEntryAt")
	e := m.Func("internal/counter", "mappedFile.entryAt")
	const doc = "+0:8 +12:4 +16:name +8:4"
	ws, es := setStr(relOffsets(w, w.Params[1])), setStr(relOffsets(e, e.Params[1]))
	r.Check("C10.record-offsets", "writeEntryAt/record field offsets", m.Pos(w.Pos()), ws == doc, "documented: value +0 (8 bytes), name length +8 (4), next +12 (4), name +16; writer touches {"+ws+"}")
	r.Check("C10.record-offsets", "entryAt/record field offsets", m.Pos(e.Pos()), es == doc, "reader touches {"+es+"}")
	// roles: which offset carries the length, the next link and the value
	offOf := func(fn *ssa.Function, v ssa.Value) string {
		for x := range backwardSlice(v, 60) {
			if ia, ok := x.(*ssa.IndexAddr); ok && strings.HasSuffix(describe(ia.X), ".mapping.Data") {
				p := newProver()
				l := p.norm(ia.Index).add(p.norm(fn.Params[1]), -1)
				if len(l.coef) == 0 {
					return fmt.Sprintf("+%d", l.k)
				}
			}
			if cl, ok := x.(*ssa.Call); ok && calleeName(&cl.Call) == "(*internal/counter.mappedFile).load32" {
				p := newProver()
				l := p.norm(argsOf(cl)[1]).add(p.norm(fn.Params[1]), -1)
				if len(l.coef) == 0 {
					return fmt.Sprintf("+%d", l.k)
				}
			}
		}
		return "?"
	}
	wRoles, eRoles := map[string]string{}, map[string]string{}
	for _, cs := range callsIn(w) {
		if strings.HasPrefix(calleeName(cs.Common()), "sync/atomic.StoreUint32") {
			wRoles["length"] = offOf(w, argsOf(cs)[0])
		}
	}
	for _, b := range w.Blocks {
		if ret, ok := b.Instrs[len(b.Instrs)-1].(*ssa.Return); ok && len(ret.Results) == 3 {
			if k, isC := constOf(ret.Results[2]); isC && k == "true" {
				wRoles["next"] = offOf(w, ret.Results[0])
				wRoles["value"] = offOf(w, ret.Results[1])
			}
		}
	}
	for _, b := range e.Blocks {
		if ret, ok := b.Instrs[len(b.Instrs)-1].(*ssa.Return); ok && len(ret.Results) == 4 {
			if k, isC := constOf(ret.Results[3]); isC && k == "true" {
				eRoles["next"] = offOf(e, ret.Results[1])
				eRoles["value"] = offOf(e, ret.Results[2])
			}
		}
	}
	for _, in := range instrsOf(e) {
		if b, ok := in.(*ssa.BinOp); ok && b.Op == token.AND {
			eRoles["length"] = offOf(e, b.X)
		}
	}
	wantRoles := "length+8 next+12 value+0"
	rs := func(m map[string]string) string {
		return fmt.Sprintf("length%s next%s value%s", m["length"], m["next"], m["value"])
	}
	r.Check("C10.record-offsets", "writeEntryAt/field roles", m.Pos(w.Pos()), rs(wRoles) == wantRoles, "documented: value at +0, name length at +8, next link at +12; writer: "+rs(wRoles))
	r.Check("C10.record-offsets", "entryAt/field roles", m.Pos(e.Pos()), rs(eRoles) == wantRoles, "reader: "+rs(eRoles))
	c10LengthWord(c, m, "C10.record-offsets")
	// header: mappedHeader writes the length word at round(len(hdrPrefix),4), metadata at +4; Parse reads both
	mh := m.Func("internal/counter", "mappedHeader")
	pa := m.Func("internal/counter", "Parse")
	hw := map[string]bool{}
	for _, in := range instrsOf(mh) {
		switch x := in.(type) {
		case *ssa.IndexAddr:
			hw[fmt.Sprintf("word@%s:%d", describe(x.Index), accessWidth(x))] = true
		case *ssa.Slice:
			if x.Low != nil {
				hw["meta@"+describe(x.Low)] = true
			}
		}
	}
	hr := map[string]bool{}
	for _, in := range instrsOf(pa) {
		switch x := in.(type) {
		case *ssa.IndexAddr:
			if describe(x.X) == "param:data" {
				hr[fmt.Sprintf("word@%s:%d", describe(x.Index), accessWidth(x))] = true
			}
		case *ssa.Slice:
			if describe(x.X) == "param:data" && x.Low != nil {
				hr["meta@"+describe(x.Low)] = true
			}
		}
	}
	r.Check("C10.record-offsets", "header: writer and reader use the same positions", m.Pos(pa.Pos()), setStr(hw) == setStr(hr) && len(hw) == 2,
		"mappedHeader {"+setStr(hw)+"} vs Parse {"+setStr(hr)+"}")
	// bucket address in lookup (writer side) and Parse: hdrLen + hashOff + 4*i
	lk := m.Func("internal/counter", "mappedFile.lookup")
	for _, fn := range []*ssa.Function{lk, pa} {
		found := false
		for _, cs := range callsIn(fn, "(*internal/counter.mappedFile).load32") {
			p := newProver().at(cs)
			l := p.norm(argsOf(cs)[1])
			four := 0
			hdr := 0
			for t, cf := range l.coef {
				if cf == 4 {
					four++
				}
				if cf == 1 && (strings.HasSuffix(t, "hdrLen") || strings.Contains(t, "*conv<*uint32>")) {
					hdr++
				}
			}
			if four == 1 && hdr == 1 && fmt.Sprint(l.k) == m.ConstVal("internal/counter", "hashOff") {
				found = true
			}
		}
		r.Check("C10.record-offsets", short(refName(fn))+"/bucket head at hdrLen + hashOff + 4·bucket", m.Pos(fn.Pos()), found, "both sides must address bucket i the same way")
	}
	// lookup hashes the name it looks up with hash()
	okHash := false
	for _, cs := range callsIn(lk, "internal/counter.hash") {
		if argsOf(cs)[0] == ssa.Value(lk.Params[1]) {
			okHash = true
		}
	}
	r.Check("C10.record-offsets", "lookup/bucket chosen by hash(name)", m.Pos(lk.Pos()), okHash, "the bucket index is hash(name)")
}

func c10Alignment(c *Ctx, m *Module) {
	r := c.R
	mh := m.Func("internal/counter", "mappedHeader")
	okHdr := false
	for _, in := range instrsOf(mh) {
		if ms, ok := in.(*ssa.MakeSlice); ok {
			d := describe(ms.Len)
			okHdr = strings.HasPrefix(d, "internal/counter.round[int](") && strings.HasSuffix(d, ", 32)") && strings.Contains(d, "builtin:len(param:meta)")
		}
	}
	r.Check("C10.alignment", "mappedHeader/header length is round(prefix+4+len(meta), 32)", m.Pos(mh.Pos()), okHdr, "header length must be a multiple of recordUnit")
	pl := m.Func("internal/counter", "mappedFile.place")
	// results: start ∈ {round(limit',32), round(limit',pageSize)}, end = start + round(16+len(name),32)
	for _, b := range pl.Blocks {
		ret, ok := b.Instrs[len(b.Instrs)-1].(*ssa.Return)
		if !ok {
			continue
		}
		sd, ed := describe(ret.Results[0]), describe(ret.Results[1])
		okStart := false
		if phi, ok := strip(ret.Results[0]).(*ssa.Phi); ok {
			okStart = true
			for _, e := range phi.Edges {
				d := describe(e)
				if !(strings.HasPrefix(d, "internal/counter.round[uint32](") && (strings.HasSuffix(d, ", 32)") || strings.HasSuffix(d, ", 16384)"))) {
					okStart = false
				}
			}
		}
		r.Check("C10.alignment", "place/start is rounded to the record unit or the page", m.Pos(ret.Pos()), okStart, "got "+sd)
		// end = start + size, either on the merged values or edge by edge when both were merged
		// at the same join (end recomputed next to start on each path)
		isEndOf := func(end, start ssa.Value) bool {
			add, ok := strip(end).(*ssa.BinOp)
			if !ok || add.Op != token.ADD {
				return false
			}
			for _, pair := range [][2]ssa.Value{{add.X, add.Y}, {add.Y, add.X}} {
				if strip(pair[0]) == strip(start) && describe(pair[1]) == "internal/counter.round[uint32](conv<uint32>((16 + builtin:len(param:name))), 32)" {
					return true
				}
			}
			return false
		}
		okEnd := isEndOf(ret.Results[1], ret.Results[0])
		if ep, ok := strip(ret.Results[1]).(*ssa.Phi); ok && !okEnd {
			if sp, ok := strip(ret.Results[0]).(*ssa.Phi); ok && sp.Block() == ep.Block() {
				okEnd = true
				for i := range ep.Edges {
					if !isEndOf(ep.Edges[i], sp.Edges[i]) {
						okEnd = false
					}
				}
			}
		}
		r.Check("C10.alignment", "place/end = start + round(16+len(name), recordUnit)", m.Pos(ret.Pos()), okEnd, "got "+ed)
	}
	// first record: limit==0 ⇒ hdrLen + hashOff + 4*numHash
	okFirst := false
	for _, in := range instrsOf(pl) {
		if phi, ok := in.(*ssa.Phi); ok {
			for _, e := range phi.Edges {
				p := newProver()
				l := p.norm(e)
				if len(l.coef) == 1 && l.k == 4+4*512 {
					for t := range l.coef {
						if strings.HasSuffix(t, "hdrLen") {
							okFirst = true
						}
					}
				}
			}
		}
	}
	r.Check("C10.alignment", "place/first record starts after the hash table", m.Pos(pl.Pos()), okFirst, "limit 0 means hdrLen + hashOff + 4·numHash")
	c10PageTest(c, m, "C10.page-tail")
}

// c10PageTest: place() moves a record that would END at a page boundary to the next page.
func c10PageTest(c *Ctx, m *Module, rule string) {
	r := c.R
	pl := m.Func("internal/counter", "mappedFile.place")
	// page-crossing test: start/pageSize != (start+n)/pageSize  (constant term 0, not -1)
	okPage := false
	for _, in := range instrsOf(pl) {
		if ne, ok := in.(*ssa.BinOp); ok && ne.Op == token.NEQ {
			q1, ok1 := strip(ne.X).(*ssa.BinOp)
			q2, ok2 := strip(ne.Y).(*ssa.BinOp)
			if ok1 && ok2 && q1.Op == token.QUO && q2.Op == token.QUO {
				k1, _ := intConst(q1.Y)
				k2, _ := intConst(q2.Y)
				p := newProver()
				d := p.norm(q2.X).add(p.norm(q1.X), -1)
				// (start + n) - start = n exactly
				nOnly := len(d.coef) == 1 && d.k == 0
				okPage = k1 == 16384 && k2 == 16384 && nOnly
			}
		}
	}
	r.Check(rule, "place/page test compares start/pageSize with (start+n)/pageSize", m.Pos(pl.Pos()), okPage,
		"a record that would END exactly at a page boundary is moved to the next page (no -1): the last bytes of every page are reserved for extend")
}

// c10ExtendTail: extend's only file write is the 4-byte page-tail write.
func c10ExtendTail(c *Ctx, m *Module, rule string) {
	r := c.R
	ext := m.Func("internal/counter", "mappedFile.extend")
	n := 0
	for _, e := range directEffects(ext) {
		if e.Kind != effFS {
			continue
		}
		n++
		ok := e.Name == "(*os.File).WriteAt"
		detail := e.Name
		if ok {
			a := argsOf(e.Call)
			buf := describe(a[1])
			okBuf := strings.HasSuffix(buf, ".zero,_,_,_)") || strings.Contains(buf, ".zero")
			p := newProver()
			off := p.norm(a[2])
			// off = round(end, pageSize) - 4
			okOff := false
			for t, cf := range off.coef {
				if cf == 1 && strings.HasPrefix(t, "internal/counter.round[uint32](") && strings.HasSuffix(t, ", 16384)") && off.k == -4 && len(off.coef) == 1 {
					okOff = true
				}
			}
			// only when the file is shorter
			okCond := false
			for _, f := range factsAt(e.Call) {
				if b, isB := f.Cond.(*ssa.BinOp); isB && strings.Contains(describe(b), ".Size(") {
					okCond = true
				}
			}
			ok = okBuf && okOff && okCond
			detail = fmt.Sprintf("WriteAt(%s, %s) zero-buffer:%v tail-offset:%v size-guard:%v", buf, off.String(), okBuf, okOff, okCond)
		}
		r.Check(rule, "extend/file write "+e.Name, m.Pos(e.Call.Pos()), ok,
			"the only file mutation of extend is writing the 4 reserved zero bytes at the end of the target page, and only when the file is shorter (truncating or writing elsewhere can destroy another writer's records): "+detail)
	}
	r.Check(rule, "extend/has the tail write", m.Pos(ext.Pos()), n == 1, fmt.Sprintf("%d file mutations in extend", n))
	// extend succeeds only with a mapping that really covers the requested end: the caller
	// retries its reservation against the mapping it gets, and would do so for ever
	nOK := 0
	for _, ex := range exitPaths(ext) {
		v := strip(refine(ex.vals[0], ex.facts))
		if k, isC := v.(*ssa.Const); isC && k.IsNil() {
			continue
		}
		nOK++
		covered := hasFact(ex.facts, func(f Fact) bool {
			bo, ok := f.Cond.(*ssa.BinOp)
			if !ok {
				return false
			}
			isLen := func(x ssa.Value) bool {
				d := describe(x)
				return strings.Contains(d, "builtin:len(") && strings.Contains(d, ".mapping.Data")
			}
			isEnd := func(x ssa.Value) bool { return strings.Contains(describe(x), "param:end") }
			switch {
			case isLen(bo.X) && isEnd(bo.Y):
				return bo.Op == token.LSS && !f.Pol || bo.Op == token.GEQ && f.Pol
			case isEnd(bo.X) && isLen(bo.Y):
				return bo.Op == token.GTR && !f.Pol || bo.Op == token.LEQ && f.Pol
			}
			return false
		})
		r.Check(rule, fmt.Sprintf("extend/success #%d only with a mapping that covers the requested end", nOK), m.Pos(ex.ret.Pos()), covered,
			"a mapping shorter than the end asked for must be an error (errCorrupt): newCounter retries against the mapping it is given")
	}
	r.Check(rule, "extend/has a success exit", m.Pos(ext.Pos()), nOK >= 1, fmt.Sprintf("%d", nOK))
	// openMapped initialises a short file: the opener may write the header it built (at 0)
	// and the 4 reserved zero bytes at the tail of the first page — nothing in between, because
	// another process that saw the file first may already have records there
	om := m.Func("internal/counter", "openMapped")
	nw := 0
	for _, e := range directEffects(om) {
		if e.Kind != effFS || e.Name == "os.OpenFile" || e.Name == "(*os.File).Close" {
			continue
		}
		nw++
		ok := e.Name == "(*os.File).WriteAt"
		detail := e.Name
		if ok {
			a := argsOf(e.Call)
			buf := describe(a[1])
			// the offset as a constant (directly, or after len() of the fixed-size zero buffer folds)
			offL := newProver().norm(a[2])
			off, isC := offL.k, len(offL.coef) == 0
			minLen := int64(0)
			fmt.Sscan(m.ConstVal("internal/counter", "minFileLen"), &minLen)
			isHdr := strings.HasPrefix(buf, "internal/counter.mappedHeader(") && isC && off == 0
			isTail := strings.Contains(buf, ".zero") && isC && off == minLen-4
			ok = isHdr || isTail
			detail = fmt.Sprintf("WriteAt(%s, %d) header-at-0:%v zero-tail:%v", shortDesc(buf), off, isHdr, isTail)
		}
		r.Check(rule, "openMapped/file write "+e.Name, m.Pos(e.Call.Pos()), ok,
			"initialising a new file may write only the header and the reserved tail word (a page-sized write wipes records another first opener has already linked): "+detail)
	}
	r.Check(rule, "openMapped/initialisation writes enumerated", m.Pos(om.Pos()), nw == 2, fmt.Sprintf("%d file mutations in openMapped", nw))
}

// c10Limit: reservation CAS shape and the name cap.
func c10Limit(c *Ctx, m *Module, rule string) {
	r := c.R
	nc := m.Func("internal/counter", "mappedFile.newCounter")
	nCAS := 0
	for _, cs := range callsIn(nc, "(*internal/counter.mappedFile).cas32") {
		a := argsOf(cs)
		p := newProver()
		off := p.norm(a[1])
		isLimit := false
		for t := range off.coef {
			if strings.HasSuffix(t, "hdrLen") && len(off.coef) == 1 && fmt.Sprint(off.k) == m.ConstVal("internal/counter", "limitOff") {
				isLimit = true
			}
		}
		if !isLimit {
			continue
		}
		nCAS++
		oldD, newD := describe(a[2]), describe(a[3])
		okOld := strings.HasPrefix(oldD, "(*internal/counter.mappedFile).load32(") && strings.Contains(oldD, "hdrLen")
		okNew := strings.HasPrefix(newD, "(*internal/counter.mappedFile).place(") && strings.HasSuffix(newD, "#1") && strings.Contains(newD, oldD)
		r.Check(rule, "newCounter/reservation CAS(limit → end of place(limit, name))", m.Pos(cs.Pos()), okOld && okNew, "old "+shortDesc(oldD)+" new "+shortDesc(newD))
		// under end ≤ len(mapping)
		pr := newProver()
		end := pr.norm(a[3])
		mlen := linTerm("len(" + strings.TrimSuffix(strings.TrimPrefix(describe(recvOf(cs.Common())), ""), "") + ".mapping.Data)")
		_ = mlen
		facts := pr.factsLinAt(cs)
		okLen := false
		for _, f := range facts {
			// a fact of the form len(X.mapping.Data) - end ≥ 0
			g := f.add(end, 1)
			if len(g.coef) == 1 && g.k == 0 {
				for t, cf := range g.coef {
					if cf == 1 && strings.HasPrefix(t, "len(") && strings.HasSuffix(t, ".mapping.Data)") {
						okLen = true
					}
				}
			}
		}
		r.Check(rule, "newCounter/limit never exceeds the mapping", m.Pos(cs.Pos()), okLen, "the reservation must lie under end ≤ len(mapping.Data)")
	}
	r.Check(rule, "newCounter/exactly one writer of the limit word", m.Pos(nc.Pos()), nCAS == 1, fmt.Sprintf("%d CAS sites on the limit word", nCAS))
	// no other store to the limit word anywhere: cas32 callers with limit offset only in newCounter
	cas := m.Func("internal/counter", "mappedFile.cas32")
	for _, cs := range m.callersOf(cas) {
		r.Check(rule, "cas32 caller "+fname(cs.Parent()), m.Pos(cs.Pos()), fname(cs.Parent()) == "(*internal/counter.mappedFile).newCounter", "shared words are modified only by newCounter")
	}
	// name cap before anything else: every reservation, look-up and record write lies under
	// ¬(len(name) > maxNameLen)
	okCap := true
	nCapSites := 0
	maxName := m.ConstVal("internal/counter", "maxNameLen")
	isCapFact := func(f Fact) bool {
		bo, isB := f.Cond.(*ssa.BinOp)
		if !isB {
			return false
		}
		k, isC := constOf(bo.Y)
		if !isC || k != maxName || describe(bo.X) != "builtin:len(param:name)" {
			return false
		}
		return bo.Op == token.GTR && !f.Pol || bo.Op == token.LEQ && f.Pol
	}
	for _, cs := range callsIn(nc) {
		if !isCallTo(cs, "(*internal/counter.mappedFile).cas32", "(*internal/counter.mappedFile).lookup", "(*internal/counter.mappedFile).writeEntryAt") {
			continue
		}
		nCapSites++
		for _, cse := range factCases(factsAt(cs)) {
			if !hasFact(cse, isCapFact) {
				okCap = false
			}
		}
	}
	okCap = okCap && nCapSites >= 1
	r.Check("C10.name-cap", "newCounter/names longer than maxNameLen are refused", m.Pos(nc.Pos()), okCap, "len(name) > maxNameLen must return an error")
	// and the check dominates every reservation
	for _, cs := range callsIn(nc, "(*internal/counter.mappedFile).cas32", "(*internal/counter.mappedFile).writeEntryAt") {
		okDom := hasFact(factsAt(cs), func(f Fact) bool {
			bo, isB := f.Cond.(*ssa.BinOp)
			return isB && !f.Pol && bo.Op == token.GTR && describe(bo.X) == "builtin:len(param:name)"
		})
		r.Check("C10.name-cap", "newCounter/"+calleeName(cs.Common())[strings.LastIndex(calleeName(cs.Common()), ".")+1:]+" only for names within the cap", m.Pos(cs.Pos()), okDom, "every reservation/write lies under ¬(len(name) > maxNameLen)")
	}
}

func precedesBlock(a ssa.Instruction, b ssa.Instruction) bool { return false }

// c10LengthWord: the record's name-length word. The writer tags it (|0xff000000), the reader
// masks it (&0x00ffffff: the documented low 24 bits, wide enough for every legal length up to
// maxNameLen inclusive), and the reader rejects a decoded length only when it is zero or the
// record would end beyond the file — never by comparing it with another bound (a reader that
// refuses a length the writer accepts makes a conforming file unreadable). Shared by the
// properties that depend on every written record being readable (C01, C04, C06, C10).
func c10LengthWord(c *Ctx, m *Module, rule string) {
	r := c.R
	w := m.Func("internal/counter", "mappedFile.writeEntryAt")
	e := m.Func("internal/counter", "mappedFile.entryAt")
	var tag, mask int64 = -1, -1
	var masked ssa.Value
	for _, in := range instrsOf(w) {
		if b, ok := in.(*ssa.BinOp); ok && b.Op == token.OR {
			if k, isC := intConst(b.Y); isC {
				tag = k
			}
		}
	}
	for _, in := range instrsOf(e) {
		if b, ok := in.(*ssa.BinOp); ok && b.Op == token.AND {
			if k, isC := intConst(b.Y); isC {
				mask = k
				masked = b
			}
		}
	}
	r.Check(rule, "length word: writer tag and reader mask are complementary", m.Pos(e.Pos()), tag == 0xff000000 && mask == 0x00ffffff,
		fmt.Sprintf("writer ORs %#x, reader ANDs %#x (documented: length in the low 24 bits)", tag, mask))
	if masked == nil {
		return
	}
	// every comparison the decoded length takes part in
	isLen := func(v ssa.Value) bool {
		v = strip(v)
		for i := 0; i < 3; i++ {
			if cv, ok := v.(*ssa.Convert); ok {
				v = strip(cv.X)
			}
		}
		return v == masked
	}
	var hasLen func(v ssa.Value, depth int) bool
	hasLen = func(v ssa.Value, depth int) bool {
		if depth > 6 {
			return false
		}
		if isLen(v) {
			return true
		}
		switch x := strip(v).(type) {
		case *ssa.BinOp:
			return hasLen(x.X, depth+1) || hasLen(x.Y, depth+1)
		case *ssa.Convert:
			return hasLen(x.X, depth+1)
		}
		return false
	}
	n := 0
	for _, in := range instrsOf(e) {
		b, ok := in.(*ssa.BinOp)
		if !ok {
			continue
		}
		switch b.Op {
		case token.EQL, token.NEQ, token.LSS, token.LEQ, token.GTR, token.GEQ:
		default:
			continue
		}
		if !hasLen(b.X, 0) && !hasLen(b.Y, 0) {
			continue
		}
		n++
		okCmp := false
		detail := shortDesc(describe(b))
		switch {
		case (b.Op == token.EQL || b.Op == token.NEQ) && ((isLen(b.X) && isZeroConst(b.Y)) || (isLen(b.Y) && isZeroConst(b.X))):
			okCmp = true // an empty name is not a record
		case strings.Contains(describe(b.X), "mapping.Data") || strings.Contains(describe(b.Y), "mapping.Data"):
			okCmp = !isLen(b.X) && !isLen(b.Y) // the record's end (offset + 16 + length) against the file's length
		}
		r.Check(rule, fmt.Sprintf("entryAt/decoded length is tested only for zero and for fitting the file #%d", n), m.Pos(b.Pos()), okCmp,
			"the writer accepts every name of 1..maxNameLen bytes; a reader that bounds the decoded length otherwise refuses records the writer wrote: "+detail)
	}
	r.Check(rule, "entryAt/length tests enumerated", m.Pos(e.Pos()), n >= 2, fmt.Sprintf("%d", n))
}

func isZeroConst(v ssa.Value) bool {
	k, ok := intConst(v)
	return ok && k == 0
}

// evalRound: the value of an expression built from constants and calls of round(x, unit)
// (round's contract: the smallest multiple of unit that is ≥ x, unit a power of two).
func evalRound(v ssa.Value, depth int) (int64, bool) {
	if depth > 8 {
		return 0, false
	}
	v = strip(v)
	if k, ok := intConst(v); ok {
		return k, true
	}
	switch x := v.(type) {
	case *ssa.Convert:
		return evalRound(x.X, depth+1)
	case *ssa.ChangeType:
		return evalRound(x.X, depth+1)
	case *ssa.BinOp:
		a, ok1 := evalRound(x.X, depth+1)
		b, ok2 := evalRound(x.Y, depth+1)
		if !ok1 || !ok2 {
			return 0, false
		}
		switch x.Op {
		case token.ADD:
			return a + b, true
		case token.SUB:
			return a - b, true
		case token.MUL:
			return a * b, true
		}
	case *ssa.Call:
		if strings.HasPrefix(calleeName(&x.Call), "internal/counter.round[") && len(x.Call.Args) == 2 {
			a, ok1 := evalRound(x.Call.Args[0], depth+1)
			u, ok2 := evalRound(x.Call.Args[1], depth+1)
			if ok1 && ok2 && u > 0 && u&(u-1) == 0 {
				return (a + u - 1) &^ (u - 1), true
			}
		}
	}
	return 0, false
}

// c10HeaderLenRange: the readers (Parse, and openMapped where it reads the length word) accept
// every header length the writer can produce: from round(prefix,4)+4 (no metadata) up to
// round(round(prefix,4)+4+maxMetaLen, recordUnit). A reader with a tighter cap rejects files that
// mappedHeader wrote (a header with 481..512 bytes of metadata, say).
func c10HeaderLenRange(c *Ctx, m *Module, rule string) {
	r := c.R
	prefixLen := int64(len(m.ConstVal("internal/counter", "hdrPrefix")))
	maxMeta, _ := strconv.ParseInt(m.ConstVal("internal/counter", "maxMetaLen"), 10, 64)
	np := (prefixLen + 3) &^ 3
	minHdr := np + 4
	maxHdr := (np + 4 + maxMeta + 31) &^ 31
	n := 0
	for _, fn := range []*ssa.Function{m.Func("internal/counter", "Parse"), m.Func("internal/counter", "openMapped")} {
		for _, in := range instrsOf(fn) {
			bo, ok := in.(*ssa.BinOp)
			if !ok {
				continue
			}
			switch bo.Op {
			case token.LSS, token.LEQ, token.GTR, token.GEQ:
			default:
				continue
			}
			isWord := func(v ssa.Value) bool {
				d := describe(v)
				return strings.Contains(d, "*conv<*uint32>(conv<unsafe.Pointer>(&") && strings.Contains(d, "[internal/counter.round[int](") && !strings.Contains(d, " + ")
			}
			var k int64
			var okK, wordLeft bool
			if isWord(bo.X) {
				k, okK = evalRound(bo.Y, 0)
				wordLeft = true
			} else if isWord(bo.Y) {
				k, okK = evalRound(bo.X, 0)
			}
			if !okK {
				continue
			}
			n++
			// normalise to: word REL k
			op := bo.Op
			if !wordLeft {
				op = map[token.Token]token.Token{token.LSS: token.GTR, token.LEQ: token.GEQ, token.GTR: token.LSS, token.GEQ: token.LEQ}[op]
			}
			okRange := true
			switch op {
			case token.GTR: // word > k rejects: k must not cut off maxHdr
				okRange = k >= maxHdr
			case token.GEQ:
				okRange = k > maxHdr
			case token.LSS: // word < k rejects: k must not cut off minHdr
				okRange = k <= minHdr
			case token.LEQ:
				okRange = k < minHdr
			}
			r.Check(rule, fmt.Sprintf("%s/header length bound #%d admits every header the writer produces", short(refName(fn)), n), m.Pos(bo.Pos()), okRange,
				fmt.Sprintf("the writer produces header lengths %d..%d; this comparison (%s %d) cuts into that range", minHdr, maxHdr, op, k))
		}
	}
	r.Check(rule, "header length bounds enumerated", "-", n >= 2, fmt.Sprintf("%d", n))
}

// c10Constants: the layout constants of the v1 format have their documented values. A library
// built with other values stays consistent with itself — and reads or writes files that no other
// revision, and no independent reader, understands (hash table size, page size, name cap).
func c10Constants(c *Ctx, m *Module, rule string) {
	var names []string
	for k := range c10Consts {
		names = append(names, k)
	}
	sort.Strings(names)
	for _, k := range names {
		got := m.ConstVal("internal/counter", k)
		c.R.Check(rule, "internal/counter."+k, "-", got == c10Consts[k], fmt.Sprintf("documented v1 value %q, source has %q (a change is a format change)", c10Consts[k], got))
	}
}
