package main

// Summary of "map over a slice parameter" helpers.
//
//	func f(…, xs ...T) ([]R, error) {
//		var out []R
//		for _, x := range xs {
//			r, err := g(…, x)
//			if err != nil { return nil, err }
//			out = append(out, r)
//		}
//		return out, nil
//	}
//
// When a function has this shape — the result starts empty, every iteration of the one range
// loop over the parameter appends exactly one element computed from that iteration's element
// (paths that do not append leave the function with an error), and the slice is returned as it
// is after the loop — then result[i] is the appended expression with xs[i] in place of x.
// mapOverParam recognises the shape; a rule can then read f(a, b, c)#0[1] as g(…, b).

import (
	"go/token"

	"golang.org/x/tools/go/ssa"
)

type mapSummary struct {
	param     int       // index of the slice parameter ranged over
	elem      ssa.Value // the appended element (in the helper's body)
	rangeElem ssa.Value // the load of xs[i] in the body
}

func mapOverParam(fn *ssa.Function) (*mapSummary, bool) {
	if fn == nil || fn.Blocks == nil {
		return nil, false
	}
	// success returns all return one header phi
	var acc *ssa.Phi
	for _, b := range fn.Blocks {
		ret, ok := b.Instrs[len(b.Instrs)-1].(*ssa.Return)
		if !ok || len(ret.Results) < 1 {
			continue
		}
		if isNilConst(ret.Results[0]) {
			continue
		}
		phi, ok := ret.Results[0].(*ssa.Phi)
		if !ok || (acc != nil && acc != phi) {
			return nil, false
		}
		acc = phi
	}
	if acc == nil || len(acc.Edges) != 2 {
		return nil, false
	}
	var app *ssa.Call
	for _, e := range acc.Edges {
		switch x := e.(type) {
		case *ssa.Const:
			if !x.IsNil() {
				return nil, false
			}
		case *ssa.Call:
			base, elems, ok := appendedElems(x)
			if !ok || base != ssa.Value(acc) || len(elems) != 1 {
				return nil, false
			}
			app = x
		default:
			return nil, false
		}
	}
	if app == nil {
		return nil, false
	}
	_, elems, _ := appendedElems(app)
	// the loop: header is acc's block; a rangeindex loop over a parameter
	var loop *loopInfo
	for _, l := range naturalLoops(fn) {
		if l.header == acc.Block() {
			loop = l
		}
	}
	if loop == nil || !loop.blocks[app.Block()] {
		return nil, false
	}
	sum := &mapSummary{param: -1, elem: elems[0]}
	for b := range loop.blocks {
		for _, in := range b.Instrs {
			ia, ok := in.(*ssa.IndexAddr)
			if !ok {
				continue
			}
			for pi, p := range fn.Params {
				if ia.X != ssa.Value(p) {
					continue
				}
				// index = phi(-1, idx)+1, bounded by len(param) at the header
				bo, ok := ia.Index.(*ssa.BinOp)
				if !ok || bo.Op != token.ADD || bo.Block() != loop.header {
					return nil, false
				}
				idxPhi, ok := bo.X.(*ssa.Phi)
				if !ok || idxPhi.Block() != loop.header {
					return nil, false
				}
				if sum.param >= 0 {
					return nil, false // two element reads
				}
				sum.param = pi
				for _, u := range referrers(ia) {
					if ld, ok := u.(*ssa.UnOp); ok && ld.Op == token.MUL {
						sum.rangeElem = ld
					}
				}
			}
		}
	}
	if sum.param < 0 || sum.rangeElem == nil {
		return nil, false
	}
	// every iteration appends: no path from the header back to the header avoids the append
	var start []walkState
	for _, sc := range loop.header.Succs {
		if loop.blocks[sc] {
			start = append(start, walkState{loop.header, sc, 0})
		}
	}
	if walkWithout(start, func(in ssa.Instruction) bool { return in == loop.header.Instrs[0] }, func(in ssa.Instruction) bool { return in == ssa.Instruction(app) }) != nil {
		return nil, false
	}
	// no other append / store touches the accumulator
	for _, u := range referrers(acc) {
		switch x := u.(type) {
		case *ssa.Return, *ssa.DebugRef:
		case *ssa.Call:
			if x != app {
				return nil, false
			}
		default:
			return nil, false
		}
	}
	return sum, true
}

// mappedElement: v is element i (a constant index) of the slice a map-over-parameter helper
// returned; gives the helper's element expression and the caller's i-th argument.
func mappedElement(v ssa.Value) (elem ssa.Value, rangeElem ssa.Value, arg ssa.Value, ok bool) {
	ld, isLd := strip(v).(*ssa.UnOp)
	if !isLd || ld.Op != token.MUL {
		return nil, nil, nil, false
	}
	ia, isIA := ld.X.(*ssa.IndexAddr)
	if !isIA {
		return nil, nil, nil, false
	}
	k, isC := ia.Index.(*ssa.Const)
	if !isC || k.Value == nil {
		return nil, nil, nil, false
	}
	idx := int(k.Int64())
	ex, isEx := strip(ia.X).(*ssa.Extract)
	if !isEx || ex.Index != 0 {
		return nil, nil, nil, false
	}
	call, isCall := ex.Tuple.(*ssa.Call)
	if !isCall || call.Call.StaticCallee() == nil {
		return nil, nil, nil, false
	}
	sum, okS := mapOverParam(call.Call.StaticCallee())
	if !okS || sum.param >= len(call.Call.Args) {
		return nil, nil, nil, false
	}
	sl, isSl := call.Call.Args[sum.param].(*ssa.Slice)
	if !isSl {
		return nil, nil, nil, false
	}
	args, okV := varargElems(sl)
	if !okV || idx < 0 || idx >= len(args) {
		return nil, nil, nil, false
	}
	return sum.elem, sum.rangeElem, args[idx], true
}
