package main

// C02 — nothing is uploaded or recorded beyond what the consent mode allows.

import (
	"fmt"
	"go/token"
	"go/types"
	"os"
	"regexp"
	"strings"
	"time"

	"golang.org/x/tools/go/ssa"
)

func init() {
	register("C02", &propDef{
		run: runC02,
		decided: []string{
			"every use of the mode string is a comparison with \"on\"/\"off\" (or logging/return): unknown values behave as local by construction; Mode's fail-safe returns",
			"send gate: the only network send is reached through readyfiles, appended only under mode==\"on\" (findWork) or under uploadOK (createReport)",
			"exact truth table of uploadOK over mode / 21-day age / opt-in date vs earliest begin / sample rate (comparison-only evaluation, both directions)",
			"earliest begin is a min-accumulation; tooOld's table and the 21-day constant",
			"ready-report gates in findWork (asof < reportDate) and uploadReport (future week not sent)",
			"mode off: no file-system/mapping/exec effect reachable in counter.Open/rotate1, uploader.reports, telemetry.parent (gates dominate every effect site)",
			"SetModeAsOf validity gate before any effect; writer/reader agreement on date layout and separator",
		},
		notDecided: []string{"calendar arithmetic of package time", "that earliest is the minimum at run time (only the accumulation shape)", "mode file changing during a run"},
	})
}

const dirMode = "(internal/telemetry.Dir).Mode"

// isModeString: v is result #0 of a Dir.Mode() call (possibly via telemetry.Mode wrapper).
func isModeString(v ssa.Value) bool {
	v = strip(v)
	if e, ok := v.(*ssa.Extract); ok && e.Index == 0 {
		if c, ok := e.Tuple.(*ssa.Call); ok && calleeName(&c.Call) == dirMode {
			return true
		}
	}
	if c, ok := v.(*ssa.Call); ok && calleeName(&c.Call) == "telemetry.Mode" {
		return true
	}
	return false
}

func isModeAsof(v ssa.Value) bool {
	v = strip(v)
	if e, ok := v.(*ssa.Extract); ok && e.Index == 1 {
		if c, ok := e.Tuple.(*ssa.Call); ok && calleeName(&c.Call) == dirMode {
			return true
		}
	}
	return false
}

func runC02(c *Ctx) {
	m := c.Root()
	r := c.R
	c02ModeUses(c, m)
	c02ModeFn(c, m)
	c02SendGate(c, m)
	c02UploadOK(c, m)
	c02ReadyGate(c, m)
	c02OffNoEffects(c, m)
	c02SetMode(c, m)
	r.Floor("C02.mode-uses", 10)
}

// loggingCallee: formatting/logging sinks for the mode string.
func loggingCallee(n string) bool {
	return strings.HasPrefix(n, "(*log.Logger).") || strings.HasPrefix(n, "log.") || strings.HasPrefix(n, "fmt.") ||
		n == "internal/counter.debugPrintf"
}

// ---- rule 1: mode-uses ----------------------------------------------------
func c02ModeUses(c *Ctx, m *Module) {
	r := c.R
	restricted := func(fn *ssa.Function) bool {
		p := ""
		if fn.Pkg != nil {
			p = short(fn.Pkg.Pkg.Path())
		} else if fn.Parent() != nil && fn.Parent().Pkg != nil {
			p = short(fn.Parent().Pkg.Pkg.Path())
		}
		return !strings.HasPrefix(p, "cmd/")
	}
	n := 0
	for _, fn := range m.srcFns {
		for _, in := range instrsOf(fn) {
			v, ok := in.(ssa.Value)
			if !ok || !isModeString(v) {
				continue
			}
			n++
			site := fname(fn)
			var walk func(v ssa.Value, depth int)
			seenPhi := map[ssa.Value]bool{}
			walk = func(v ssa.Value, depth int) {
				for _, u := range referrers(v) {
					switch x := u.(type) {
					case *ssa.BinOp:
						var k string
						var isC bool
						if x.X == v {
							k, isC = constOf(x.Y)
						} else {
							k, isC = constOf(x.X)
						}
						okCmp := isC && (x.Op == token.EQL || x.Op == token.NEQ)
						allowed := k == "on" || k == "off"
						if !restricted(fn) {
							allowed = allowed || k == "local"
						}
						r.Check("C02.mode-uses", site+"/compare mode with "+fmt.Sprintf("%q", k), m.Pos(x.Pos()), okCmp && allowed,
							"the mode string may only be compared (==, !=) with \"on\" or \"off\" in library code (any other value must behave as local); got "+describe(x))
					case *ssa.MakeInterface:
						walk(x, depth+1)
					case *ssa.ChangeType:
						walk(x, depth+1)
					case *ssa.Store:
						// stored into a varargs slot of a logging call, or into a local
						if ia, ok := x.Addr.(*ssa.IndexAddr); ok {
							okLog := false
							if al, ok := ia.X.(*ssa.Alloc); ok {
								for _, ru := range referrers(al) {
									if sl, ok := ru.(*ssa.Slice); ok {
										for _, su := range referrers(sl) {
											if cc := callOf(su); cc != nil && loggingCallee(calleeName(cc)) {
												okLog = true
											}
										}
									}
								}
							}
							r.Check("C02.mode-uses", site+"/mode passed to logging", m.Pos(x.Pos()), okLog, "mode stored into an argument list must be that of a logging/formatting call")
						} else if fa, isFA := x.Addr.(*ssa.FieldAddr); isFA && fieldNeverRead(fn.Prog, fa) {
							// kept in a field nothing ever reads (a diagnostic copy): no use of the mode at all
						} else {
							r.Check("C02.mode-uses", site+"/mode stored to "+describe(x.Addr), m.Pos(x.Pos()), false, "the mode string must not be stored; only compared, logged or returned")
						}
					case *ssa.Return:
						r.Check("C02.mode-uses", site+"/mode returned", m.Pos(x.Pos()), true, "returned to the caller (whose uses are checked in turn)")
					case *ssa.Phi:
						if !seenPhi[x] {
							seenPhi[x] = true
							walk(x, depth+1)
						}
					case *ssa.DebugRef:
					case ssa.CallInstruction:
						cn := calleeName(x.Common())
						r.Check("C02.mode-uses", site+"/mode passed to "+cn, m.Pos(x.Pos()), loggingCallee(cn) || (!restricted(fn) && (cn == "strings.TrimSpace" || strings.HasPrefix(cn, "fmt."))),
							"the mode string may be passed only to logging/formatting calls")
					default:
						r.Check("C02.mode-uses", site+"/mode used by "+fmt.Sprintf("%T", u), m.Pos(u.Pos()), false, "unrecognised use of the mode string: "+u.String())
					}
				}
			}
			walk(v, 0)
		}
	}
	r.Analysed["mode_read_sites"] = n
}

// ---- Mode()'s own fail-safe returns ---------------------------------------
func c02ModeFn(c *Ctx, m *Module) {
	r := c.R
	fn := m.Func("internal/telemetry", "Dir.Mode")
	// every Return: either a constant "off" under modefile=="" ; constant "local" under ReadFile err!=nil; or data-derived.
	readCalls := callsIn(fn, "os.ReadFile")
	r.Check("C02.mode-failsafe", "Dir.Mode/reads the mode file once", m.Pos(fn.Pos()), len(readCalls) == 1, "Mode must read the mode file with os.ReadFile")
	if len(readCalls) != 1 {
		return
	}
	rd := readCalls[0].(*ssa.Call)
	sawLocal, sawOff := false, false
	for _, b := range fn.Blocks {
		ret, ok := b.Instrs[len(b.Instrs)-1].(*ssa.Return)
		if !ok {
			continue
		}
		k, isC := constOf(ret.Results[0])
		facts := factsAt(ret)
		if hasFact(facts, errNonNilOf(rd)) {
			sawLocal = true
			r.Check("C02.mode-failsafe", "Dir.Mode/unreadable mode file => \"local\"", m.Pos(ret.Pos()), isC && k == "local",
				"when the mode file cannot be read Mode must return the constant \"local\" (reports built, nothing sent); returns "+describe(ret.Results[0]))
			continue
		}
		if isC {
			if k == "off" {
				sawOff = true
				// must be under modefile == ""
				okGate := hasFact(facts, func(f Fact) bool {
					b, ok := f.Cond.(*ssa.BinOp)
					if !ok || !assertsEq(b, f.Pol) {
						return false
					}
					k2, isC2 := constOf(b.Y)
					_, fld, isF := fieldLoad(b.X)
					return isC2 && k2 == "" && isF && fld == "modefile"
				})
				r.Check("C02.mode-failsafe", "Dir.Mode/no mode file path => \"off\"", m.Pos(ret.Pos()), okGate, "the constant \"off\" may be returned only when the directory is uninitialised (modefile == \"\")")
			} else {
				r.Check("C02.mode-failsafe", "Dir.Mode/constant return "+fmt.Sprintf("%q", k), m.Pos(ret.Pos()), false, "Mode must not return a constant mode other than the two fail-safe defaults")
			}
			continue
		}
		// data-derived: must depend on the file's bytes only
		r.Check("C02.mode-failsafe", "Dir.Mode/returns the file's content", m.Pos(ret.Pos()), dependsOn(ret.Results[0], rd, 12),
			"a non-constant mode must be derived from the mode file's bytes; returns "+describe(ret.Results[0]))
		// … cut out of it, not rewritten: the only operations between the bytes read and the word
		// returned are the conversion to string, trimming of white space, and cutting at the separator
		bad := ""
		seenV := map[ssa.Value]bool{}
		var walk func(v ssa.Value)
		walk = func(v ssa.Value) {
			if seenV[v] || bad != "" {
				return
			}
			seenV[v] = true
			switch x := v.(type) {
			case *ssa.Convert:
				walk(x.X)
			case *ssa.ChangeType:
				walk(x.X)
			case *ssa.Slice:
				walk(x.X)
			case *ssa.Phi:
				for _, e := range x.Edges {
					walk(e)
				}
			case *ssa.Extract:
				if x.Tuple == ssa.Value(rd) {
					return
				}
				walk(x.Tuple)
			case *ssa.UnOp:
				if ia, ok := x.X.(*ssa.IndexAddr); ok && x.Op == token.MUL {
					walk(ia.X)
				} else {
					bad = shortDesc(describe(v))
				}
			case *ssa.Call:
				switch calleeName(&x.Call) {
				case "strings.TrimSpace", "strings.Cut", "strings.Fields", "strings.SplitN", "strings.Split", "bytes.TrimSpace", "bytes.Cut", "bytes.Fields":
					walk(x.Call.Args[0])
				default:
					bad = calleeName(&x.Call)
				}
			default:
				bad = shortDesc(describe(v))
			}
		}
		walk(ret.Results[0])
		r.Check("C02.mode-failsafe", "Dir.Mode/the mode word is cut out of the file, not rewritten", m.Pos(ret.Pos()), bad == "",
			"between the bytes read and the word returned only string conversion, TrimSpace and cutting at the separator may occur (\"ON\" or \"Off \" is not a mode); found "+bad)
	}
	c02ModeRead(c, m, "C02.mode-failsafe")
	if os.Getenv("VERIF_DEBUG_EXITS") != "" {
		for _, ex := range exitPaths(fn) {
			fmt.Printf("MODE-EXIT %s | %s | facts:", shortDesc(describe(ex.vals[0])), describe(ex.vals[1]))
			for _, f := range ex.facts {
				fmt.Printf(" [%v %s]", f.Pol, shortDesc(describe(f.Cond)))
			}
			fmt.Println()
		}
	}
	r.Check("C02.mode-failsafe", "Dir.Mode/has the \"local\" default", m.Pos(fn.Pos()), sawLocal, "an unreadable mode file must map to \"local\"")
	r.Check("C02.mode-failsafe", "Dir.Mode/has the \"off\" default", m.Pos(fn.Pos()), sawOff, "an uninitialised directory must map to \"off\"")
}

// dependsOn: v is computed from src through value operations (depth-bounded).
func dependsOn(v ssa.Value, src ssa.Value, depth int) bool {
	if depth < 0 || v == nil {
		return false
	}
	if v == src {
		return true
	}
	in, ok := v.(ssa.Instruction)
	if !ok {
		return false
	}
	for _, op := range in.Operands(nil) {
		if *op != nil && dependsOn(*op, src, depth-1) {
			return true
		}
	}
	return false
}

// ---- rule 2: send gate -----------------------------------------------------
func c02SendGate(c *Ctx, m *Module) {
	r := c.R
	// (a) the network sink inventory: exactly one send site in the library entry points
	roots := []*ssa.Function{m.Func("internal/upload", "Run"), m.Func("", "Start"), m.Func("", "MaybeChild"), m.Func("counter", "Open"),
		m.Func("counter", "OpenAndRotate"), m.Func("counter", "OpenDir"), m.Func("internal/counter", "Counter.Add"), m.Func("internal/counter", "StackCounter.Inc")}
	effs, chains := m.reachableEffects(roots, nil)
	nsend := 0
	for _, e := range effs {
		if e.Kind != effNet {
			continue
		}
		nsend++
		ok := fname(e.Fn) == "(*internal/upload.uploader).uploadReportContents" && e.Name == "net/http.Post"
		r.Check("C02.send-gate", "network send "+e.Name+" in "+fname(e.Fn), m.Pos(e.Call.Pos()), ok,
			"the only network send reachable from the library entry points must be uploadReportContents -> http.Post; chain: "+chainString(chains[e.Fn]))
	}
	r.Check("C02.send-gate", "exactly one network send site", "-", nsend == 1, fmt.Sprintf("found %d send sites", nsend))
	r.Analysed["functions_reachable_from_entry_points"] = len(chains)

	// (b) who may call
	urc := m.Func("internal/upload", "uploader.uploadReportContents")
	ur := m.Func("internal/upload", "uploader.uploadReport")
	run := m.Func("internal/upload", "uploader.Run")
	for _, cs := range m.callersOf(urc) {
		r.Check("C02.send-gate", "caller of uploadReportContents: "+fname(cs.Parent()), m.Pos(cs.Pos()), cs.Parent() == ur, "uploadReportContents may be called only from uploadReport")
	}
	for _, cs := range m.callersOf(ur) {
		r.Check("C02.send-gate", "caller of uploadReport: "+fname(cs.Parent()), m.Pos(cs.Pos()), cs.Parent() == run, "uploadReport may be called only from uploader.Run")
	}
	r.Check("C02.send-gate", "uploadReportContents is not used as a value", "-", len(m.usesOfFunc(urc)) == 0 && len(m.usesOfFunc(ur)) == 0, "the upload functions must not escape as function values")
	// (c) in Run, uploadReport's argument is an element of reports()'s first result
	for _, cs := range callsIn(run, "(*internal/upload.uploader).uploadReport") {
		arg := argsOf(cs)[1]
		okSrc := false
		d := describe(arg)
		if strings.Contains(d, "(*internal/upload.uploader).reports(") && strings.Contains(d, "#0") {
			okSrc = true
		}
		r.Check("C02.send-gate", "uploader.Run/uploadReport argument", m.Pos(cs.Pos()), okSrc, "uploadReport must be applied to the elements of reports()'s result; got "+d)
	}
	// (d) reports() returns todo.readyfiles; its only appends: findWork (mode on) and the createReport result
	reports := m.Func("internal/upload", "uploader.reports")
	findWork := m.Func("internal/upload", "uploader.findWork")
	for _, fn := range m.PkgFuncs("internal/upload") {
		for _, in := range instrsOf(fn) {
			st, ok := in.(*ssa.Store)
			if !ok {
				continue
			}
			fa, ok := st.Addr.(*ssa.FieldAddr)
			if !ok {
				continue
			}
			_, fld, _ := fieldAddrName(fa)
			if fld != "readyfiles" || namedType(fa.X.Type()) != "internal/upload.work" {
				continue
			}
			key := fname(fn) + "/store work.readyfiles"
			switch fn {
			case findWork:
				fb := newFormulaBuilder()
				fb.namer = c02Namer
				got := fb.reach(st.Block())
				want := bStr{"mode", "on"}
				ok, why, nw := implies(got, want)
				r.Check("C02.send-gate", key+"/mode==on", m.Pos(st.Pos()), ok && len(fb.undec) == 0,
					fmt.Sprintf("an existing report is made ready only in mode \"on\" (%d worlds): %s %v", nw, why, fb.undec))
			case reports:
				_, elems, okA := appendedElems(st.Val)
				okSrc := okA && len(elems) == 1 && strings.Contains(describe(elems[0]), "(*internal/upload.uploader).createReport(") && strings.HasSuffix(describe(elems[0]), "#0")
				r.Check("C02.send-gate", key+"/createReport result", m.Pos(st.Pos()), okSrc, "reports() may add only createReport's returned file name to readyfiles; got "+describe(st.Val))
			default:
				r.Check("C02.send-gate", key, m.Pos(st.Pos()), false, "readyfiles may be extended only by findWork and reports")
			}
		}
	}
}

// c02Namer gives stable names to the values the C02 tables talk about.
func c02Namer(v ssa.Value) (string, bool) {
	if isModeString(v) {
		return "mode", true
	}
	if isModeAsof(v) {
		return "asof", true
	}
	if b, f, ok := fieldLoad(v); ok {
		switch f {
		case "startTime":
			if namedType(b.Type()) == "internal/upload.uploader" {
				return "startTime", true
			}
		case "SampleRate":
			return "SampleRate", true
		case "X":
			if namedType(b.Type()) == "internal/telemetry.Report" {
				return "X", true
			}
		}
	}
	if c, ok := v.(*ssa.Call); ok {
		switch calleeName(&c.Call) {
		case "(*internal/upload.uploader).uploadReportDate":
			return "reportDate", true
		case "(*internal/upload.uploader).tooOld":
			return "tooOld", true
		}
	}
	return "", false
}

// ---- rule 3: uploadOK truth table -------------------------------------------
func c02UploadOK(c *Ctx, m *Module) {
	r := c.R
	fn := m.Func("internal/upload", "uploader.createReport")
	// identify the two exclusiveWrite calls and the upload one (name without "local." prefix)
	var uploadWrite, localWrite ssa.CallInstruction
	for _, cs := range callsIn(fn, "internal/upload.exclusiveWrite") {
		d := describeArg(cs, 0)
		if strings.Contains(d, `"local."`) {
			localWrite = cs
		} else {
			uploadWrite = cs
		}
	}
	if uploadWrite == nil || localWrite == nil {
		r.Check("C02.uploadOK", "createReport/exclusiveWrite sites", m.Pos(fn.Pos()), false, "expected one exclusiveWrite of <week>.json and one of local.<week>.json")
		return
	}
	// the flag: unique phi/bool fact at the upload write
	var flag ssa.Value
	var flagTest *ssa.BasicBlock
	if b := uploadWrite.Block(); len(b.Preds) == 1 {
		if ifi, ok := b.Preds[0].Instrs[len(b.Preds[0].Instrs)-1].(*ssa.If); ok && b.Preds[0].Succs[0] == b {
			flag = ifi.Cond // the immediate guard of the upload write
			flagTest = b.Preds[0]
		}
	}
	r.Check("C02.uploadOK", "createReport/upload write is gated by a flag", m.Pos(uploadWrite.Pos()), flag != nil, "exclusiveWrite(<week>.json) must lie under the uploadOK flag")
	if flag == nil {
		return
	}
	fb := newFormulaBuilder()
	fb.namer = c02Namer
	fb.names[fn.Params[1]] = "start"
	// "X" is the report's X: a value compared before it is stored into the report's X field is
	// the same number (a second draw would be a different value and keeps its own name)
	for _, in := range instrsOf(fn) {
		if st, ok := in.(*ssa.Store); ok {
			if fa, ok := st.Addr.(*ssa.FieldAddr); ok && fieldName(fa) == "X" && namedType(fa.X.Type()) == "internal/telemetry.Report" {
				if _, _, isLoad := fieldLoad(st.Val); !isLoad {
					fb.names[st.Val] = "X"
				}
			}
		}
	}
	got := fb.formula(flag)
	want := bAnd{[]BExpr{
		bStr{"mode", "on"},
		bNot{bBool{"tooOld"}},
		bOr{[]BExpr{bZero{"asof"}, mkOrd("asof", "<", "start")}},
		bNot{bAnd{[]BExpr{mkOrd("X", ">", "SampleRate"), mkOrd("SampleRate", ">", "0")}}},
	}}
	// compared where the flag is tested: whatever is already known there (some count file had
	// counters, say) is not part of the flag
	assume := fb.reach(flagTest)
	fb.undec = nil // a loop on the way to the test says nothing about the flag's value
	got = fb.formula(flag)
	ok, why, nw := equivalent(bAnd{[]BExpr{assume, got}}, bAnd{[]BExpr{assume, want}})
	if unsat, _, _ := equivalent(assume, bConst(false)); unsat {
		ok, why = false, "the path condition of the flag's test could not be built (it is unsatisfiable as computed)"
	}
	r.Check("C02.uploadOK", "createReport/truth table of the upload flag", m.Pos(uploadWrite.Pos()), ok && len(fb.undec) == 0,
		fmt.Sprintf("uploadOK must equal mode==on ∧ ¬tooOld ∧ (asof zero ∨ asof < start) ∧ ¬(X > SampleRate ∧ SampleRate > 0) in all %d worlds; %s %v", nw, why, fb.undec))
	r.Analysed["uploadOK_worlds"] = nw

	// tooOld(expiryDate, u.startTime)
	for _, cs := range callsIn(fn, "(*internal/upload.uploader).tooOld") {
		a := argsOf(cs)
		n1, _ := c02Namer(strip(a[2]))
		r.Check("C02.uploadOK", "createReport/tooOld arguments", m.Pos(cs.Pos()), (a[1] == fn.Params[2] || describe(a[1]) == describe(fn.Params[2])) && n1 == "startTime",
			"tooOld must be asked about this report's week and the run's start time; got "+describe(a[1])+", "+describe(a[2]))
	}
	// tooOld's own table: true iff parse ok ∧ start - t > distantPast
	{
		to := m.Func("internal/upload", "uploader.tooOld")
		fb2 := newFormulaBuilder()
		fb2.namer = func(v ssa.Value) (string, bool) {
			if c, ok := v.(*ssa.Call); ok && calleeName(&c.Call) == "(time.Time).Sub" {
				a, b := argsOf(c)[0], argsOf(c)[1]
				if a == to.Params[2] && strings.HasPrefix(describe(b), "time.Parse(") && strings.HasSuffix(describe(b), "#0") {
					if pc, ok := strip(b).(*ssa.Extract).Tuple.(*ssa.Call); ok && argsOf(pc)[1] == to.Params[1] {
						return "age", true
					}
				}
			}
			if u, ok := v.(*ssa.UnOp); ok && u.Op == token.MUL {
				if g, ok := u.X.(*ssa.Global); ok && g.Name() == "distantPast" {
					return "distantPast", true
				}
			}
			if e, ok := v.(*ssa.Extract); ok && e.Index == 1 {
				if pc, ok := e.Tuple.(*ssa.Call); ok && calleeName(&pc.Call) == "time.Parse" {
					return "parseErr", true
				}
			}
			return "", false
		}
		var alts []BExpr
		for _, b := range to.Blocks {
			if ret, ok := b.Instrs[len(b.Instrs)-1].(*ssa.Return); ok {
				alts = append(alts, bAnd{[]BExpr{fb2.reach(b), fb2.formula(ret.Results[0])}})
			}
		}
		got := bOr{alts}
		want := bAnd{[]BExpr{bBool{"isnil(parseErr)"}, mkOrd("age", ">", "distantPast")}}
		ok, why, nw := equivalent(got, want)
		r.Check("C02.uploadOK", "tooOld/truth table", m.Pos(to.Pos()), ok && len(fb2.undec) == 0,
			fmt.Sprintf("tooOld(date, start) must be: date parses ∧ start − date > distantPast (strict), %d worlds; %s", nw, why))
		// time.Parse layout is DateOnly
		for _, cs := range callsIn(to, "time.Parse") {
			k, _ := constOf(argsOf(cs)[0])
			r.Check("C02.uploadOK", "tooOld/date layout", m.Pos(cs.Pos()), k == m.ConstVal("internal/telemetry", "DateOnly"), "week dates are parsed with telemetry.DateOnly")
		}
		// distantPast initialiser = 21 days and never reassigned
		g := m.GlobalVar("internal/upload", "distantPast")
		nStores := 0
		okInit := false
		for _, fn := range m.PkgFuncs("internal/upload") {
			for _, in := range instrsOf(fn) {
				if st, ok := in.(*ssa.Store); ok && st.Addr == g {
					nStores++
					if n, isC := intConst(st.Val); isC && n == int64(21*24*3600)*1e9 && fn.Name() == "init" {
						okInit = true
					}
				}
			}
		}
		r.Check("C02.uploadOK", "distantPast is 21 days and never reassigned", m.Pos(g.Pos()), okInit && nStores == 1, fmt.Sprintf("stores to distantPast: %d (want the single initialiser 21*24h)", nStores))
	}

	// the non-empty return of createReport lies under the flag
	for _, ex := range exitPaths(fn) {
		ret := ex.ret
		if k, isC := constOf(ex.vals[0]); isC && k == "" {
			continue
		}
		under := false
		for _, f := range ex.facts {
			if (f.Cond == flag || (describe(f.Cond) == describe(flag) && !strings.Contains(describe(flag), "?"))) && f.Pol {
				under = true // the flag itself, or the same test of the same values evaluated again
			}
		}
		sameName := describe(ex.vals[0]) == describeArg(uploadWrite, 0)
		r.Check("C02.uploadOK", "createReport/non-empty result", m.Pos(ret.Pos()), under && sameName,
			"createReport may return a file name only under uploadOK and it must be the name written by exclusiveWrite(<week>.json); returns "+describe(ex.vals[0]))
	}

	// start = earliest[expiry]: single caller passes a min-accumulated value
	reports := m.Func("internal/upload", "uploader.reports")
	for _, cs := range m.callersOf(fn) {
		r.Check("C02.earliest", "caller of createReport: "+fname(cs.Parent()), m.Pos(cs.Pos()), cs.Parent() == reports, "createReport is called only from reports()")
		if cs.Parent() != reports {
			continue
		}
		mp, key, ok := mapLookup(argsOf(cs)[1])
		r.Check("C02.earliest", "reports/createReport start argument", m.Pos(cs.Pos()), ok, "start must be earliest[expiry]; got "+describeArg(cs, 1))
		if !ok {
			continue
		}
		_ = key
		// every MapUpdate on that map: value must be `begin` and the path condition must be
		// (no entry yet) ∨ begin < current
		nUpd := 0
		for _, in := range instrsOf(reports) {
			mu, isMU := in.(*ssa.MapUpdate)
			if !isMU || mu.Map != mp {
				continue
			}
			nUpd++
			begin := strip(mu.Value)
			okBegin := strings.HasPrefix(describe(begin), "(*internal/upload.uploader).counterDateSpan(") && strings.HasSuffix(describe(begin), "#0")
			r.Check("C02.earliest", "reports/earliest[expiry] = begin", m.Pos(mu.Pos()), okBegin, "the value recorded must be the file's begin time (counterDateSpan result 0); got "+describe(begin))
			fb := newFormulaBuilder()
			fb.names[begin] = "begin"
			fb.namer = func(v ssa.Value) (string, bool) {
				if mm, _, isL := mapLookup(v); isL && mm == mp {
					if e, isE := v.(*ssa.Extract); isE && e.Index == 1 {
						return "", false
					}
					return "cur", true
				}
				return "", false
			}
			// condition relative to the enclosing block of the update: take the nearest
			// dominating facts that mention cur/begin
			var conds []BExpr
			for _, f := range blockFactsRaw(mu.Block()) {
				e := fb.formula(f.Cond)
				s := e.String()
				if strings.Contains(s, "cur") || strings.Contains(s, "begin") || strings.Contains(s, "#1") {
					if !f.Pol {
						e = bNot{e}
					}
					conds = append(conds, e)
				}
			}
			// The update condition is the conjunction of those facts, but facts obtained
			// from an || chain are not available as a conjunction; so use the path formula
			// restricted to atoms over cur/begin by comparing on worlds projected to them.
			got := fb.reach(mu.Block())
			want := bOr{[]BExpr{bZero{"cur"}, mkOrd("begin", "<", "cur")}}
			okT, why := projectedEquivalent(got, want, func(v string) bool {
				return strings.Contains(v, "cur") || strings.Contains(v, "begin")
			})
			// also accept the comma-ok form: (!present) ∨ begin < cur
			if !okT {
				fbb := newFormulaBuilder()
				fbb.names[begin] = "begin"
				fbb.namer = func(v ssa.Value) (string, bool) {
					if e, isE := strip(v).(*ssa.Extract); isE && e.Index == 1 {
						if l, isL := e.Tuple.(*ssa.Lookup); isL && l.CommaOk && l.X == mp {
							return "present", true
						}
					}
					if mm, _, isL := mapLookup(v); isL && mm == mp {
						return "cur", true
					}
					return "", false
				}
				got2 := fbb.reach(mu.Block())
				want2 := bOr{[]BExpr{bNot{bBool{"present"}}, mkOrd("begin", "<", "cur")}}
				okT, why = projectedEquivalent(got2, want2, func(v string) bool {
					return strings.Contains(v, "cur") || strings.Contains(v, "begin") || strings.Contains(v, "present")
				})
			}
			_ = conds
			r.Check("C02.earliest", "reports/earliest is a minimum", m.Pos(mu.Pos()), okT,
				"earliest[expiry] may be replaced only when there is no entry yet or the file began before the recorded one (min-accumulation); "+why)
		}
		r.Check("C02.earliest", "reports/earliest has an update", m.Pos(reports.Pos()), nUpd >= 1, "the earliest-begin table must be filled")
	}
}

// blockFactsRaw is blockFacts (kept separate for clarity: includes phi expansion).
func blockFactsRaw(b *ssa.BasicBlock) []Fact { return blockFacts(b) }

// projectedEquivalent: for every assignment of the selected variables, the set of
// truth values `got` can take (over the other variables) must contain want's value,
// and got must be able to be true only if want is true, i.e. ∃others.got ≡ want.
func projectedEquivalent(got, want BExpr, sel func(string) bool) (bool, string) {
	names, doms, all := worlds(got, want)
	type key string
	canTrue := map[key]bool{}
	wantV := map[key]bool{}
	desc := map[key]string{}
	for _, w := range all {
		var ks []string
		for _, n := range names {
			if sel(n) {
				ks = append(ks, fmt.Sprintf("%s=%s", n, doms[n][w[n]]))
			}
		}
		k := key(strings.Join(ks, ", "))
		desc[k] = string(k)
		if got.Eval(w) {
			canTrue[k] = true
		}
		wantV[k] = want.Eval(w)
	}
	for k, wv := range wantV {
		if canTrue[k] != wv {
			return false, fmt.Sprintf("for {%s}: code can reach the update: %v, required: %v", desc[k], canTrue[k], wv)
		}
	}
	return true, ""
}

// c02ReadyNames: the reports queued for sending are upload-form reports only — names ending in
// .json and not starting with "local." (the unfiltered aggregate). Shared with C01.gate.
func c02ReadyNames(c *Ctx, m *Module, rule string) {
	r := c.R
	findWork := m.Func("internal/upload", "uploader.findWork")
	n := 0
	for _, in := range instrsOf(findWork) {
		st, ok := in.(*ssa.Store)
		if !ok {
			continue
		}
		fa, ok := st.Addr.(*ssa.FieldAddr)
		if !ok {
			continue
		}
		if _, fld, _ := fieldAddrName(fa); fld != "readyfiles" {
			continue
		}
		n++
		facts := factsAt(st)
		notLocal := hasFact(facts, callResultIs("strings.HasPrefix", false, func(a []ssa.Value, _ *ssa.Call) bool { k, ok := constOf(a[1]); return ok && k == "local." }))
		isJSON := hasFact(facts, callResultIs("strings.HasSuffix", true, func(a []ssa.Value, _ *ssa.Call) bool { k, ok := constOf(a[1]); return ok && k == ".json" }))
		r.Check(rule, "findWork/ready name filter", m.Pos(st.Pos()), notLocal && isJSON, "a ready report's name must end in .json and must not start with local. (the unfiltered aggregate)")
	}

	r.Check(rule, "findWork/ready sites enumerated", m.Pos(findWork.Pos()), n >= 1, fmt.Sprintf("%d stores to readyfiles", n))
}

// c02ModeRead: how Dir.Mode interprets a readable mode file (shared with C16 — "off" must be
// recognised however the file was written — and C19 — a recorded date must be read back).
func c02ModeRead(c *Ctx, m *Module, rule string) {
	r := c.R
	fn := m.Func("internal/telemetry", "Dir.Mode")
	// what a readable mode file means: the mode word is the TRIMMED content up to the first
	// separator (so "off\n" is off), and the date is the parsed rest — zero only when there is no
	// separator or the rest does not parse as a date, never for any other reason
	nData := 0
	for _, ex := range exitPaths(fn) {
		if _, isC := constOf(ex.vals[0]); isC {
			continue
		}
		nData++
		md := describe(ex.vals[0])
		trimmed := "strings.TrimSpace(conv<string>(os.ReadFile("
		rest := strings.ReplaceAll(md, trimmed, "T(")
		r.Check(rule, fmt.Sprintf("Dir.Mode/exit %d: mode word comes from the trimmed content", nData), m.Pos(ex.ret.Pos()),
			strings.Contains(md, trimmed) && !strings.Contains(rest, "os.ReadFile("),
			"every use of the file's bytes for the mode word must go through TrimSpace of the whole content (a mode file written by `echo off > mode` ends in a newline); got "+shortDesc(md))
		noSep := hasFact(ex.facts, func(f Fact) bool {
			if e, ok := f.Cond.(*ssa.Extract); ok && e.Index == 2 {
				if cl, ok := e.Tuple.(*ssa.Call); ok && calleeName(&cl.Call) == "strings.Cut" {
					return !f.Pol
				}
			}
			bo, ok := f.Cond.(*ssa.BinOp)
			if !ok || !strings.HasPrefix(describe(bo.X), "strings.Index") {
				return false
			}
			k, isC := intConst(bo.Y)
			if !isC {
				return false
			}
			switch {
			case bo.Op == token.GEQ && k == 0, bo.Op == token.GTR && k == -1, bo.Op == token.NEQ && k == -1:
				return !f.Pol
			case bo.Op == token.LSS && k == 0, bo.Op == token.LEQ && k == -1, bo.Op == token.EQL && k == -1:
				return f.Pol
			}
			return false
		})
		var parse *ssa.Call
		for _, cs := range callsIn(fn, "time.Parse") {
			parse = cs.(*ssa.Call)
		}
		if isNilConst(ex.vals[1]) || describe(ex.vals[1]) == "nil" {
			okZero := noSep || (parse != nil && hasFact(ex.facts, errNonNilOf(parse)))
			r.Check(rule, fmt.Sprintf("Dir.Mode/exit %d: the zero date only for a missing or unparsable date", nData), m.Pos(ex.ret.Pos()), okZero,
				"a recorded date that parses must be reported (the uploader's asof gate depends on it); this exit returns the zero time without either reason")
		} else {
			dd := describe(ex.vals[1])
			okDate := parse != nil && strings.HasPrefix(dd, "time.Parse(") && strings.HasSuffix(dd, ")#0") && hasFact(ex.facts, errNilOf(parse))
			r.Check(rule, fmt.Sprintf("Dir.Mode/exit %d: the date is the parsed rest of the content", nData), m.Pos(ex.ret.Pos()), okDate, "got "+shortDesc(dd))
		}
	}
	r.Check(rule, "Dir.Mode/content-derived exits enumerated", m.Pos(fn.Pos()), nData >= 2, fmt.Sprintf("%d", nData))
}

// ---- rule 4: ready gate ------------------------------------------------------
func c02ReadyGate(c *Ctx, m *Module) { c02ReadyGateAs(c, m, "C02.ready-gate") }

// c02ReadyGateAs: the ready-gate rules under another property's name (C08: a report left in
// place after a failed attempt is found again by a later run).
func c02ReadyGateAs(c *Ctx, m *Module, rule string) {
	r := c.R
	findWork := m.Func("internal/upload", "uploader.findWork")
	n := 0
	var disj []BExpr
	var fbAll *formulaBuilder
	for _, in := range instrsOf(findWork) {
		st, ok := in.(*ssa.Store)
		if !ok {
			continue
		}
		fa, ok := st.Addr.(*ssa.FieldAddr)
		if !ok {
			continue
		}
		if _, fld, _ := fieldAddrName(fa); fld != "readyfiles" {
			continue
		}
		n++
		if fbAll == nil {
			fbAll = newFormulaBuilder()
			fbAll.namer = c02Namer
		}
		disj = append(disj, fbAll.reach(st.Block()))
	}
	if n > 0 {
		got := bOr{disj}
		want := bAnd{[]BExpr{bStr{"mode", "on"}, bOr{[]BExpr{bZero{"asof"}, bZero{"reportDate"}, mkOrd("asof", "<", "reportDate")}}}}
		ok, why := projectedEquivalent(got, want, func(v string) bool {
			return strings.Contains(v, "mode") || strings.Contains(v, "asof") || strings.Contains(v, "reportDate")
		})
		r.Check(rule, "findWork/existing report made ready", m.Pos(findWork.Pos()), ok,
			"an existing report is made ready iff mode==on ∧ (asof unknown ∨ report date unknown ∨ asof < report date): "+why)
	}
	r.Check(rule, "findWork/has ready-report sites", m.Pos(findWork.Pos()), n >= 1, "findWork collects left-over reports")

	c02ReadyNames(c, m, rule)
	c02DatePattern(c, m, rule)

	// uploadReport: future week not sent
	ur := m.Func("internal/upload", "uploader.uploadReport")
	for _, cs := range callsIn(ur, "(*internal/upload.uploader).uploadReportContents") {
		fb := newFormulaBuilder()
		fb.namer = func(v ssa.Value) (string, bool) {
			d := describe(v)
			if strings.HasPrefix(d, "(time.Time).Format(") && strings.Contains(d, "startTime") {
				return "today", true
			}
			if strings.Contains(d, "FindStringSubmatch") && strings.HasSuffix(d, "[1]") {
				return "week", true
			}
			if strings.HasPrefix(d, "(*regexp.Regexp).FindStringSubmatch(") && strings.HasSuffix(d, "param:fname)") {
				return "match", true
			}
			if strings.HasPrefix(d, "builtin:len((*regexp.Regexp).FindStringSubmatch(") {
				return "matchlen", true
			}
			return "", false
		}
		got := fb.reach(cs.Block())
		// required: sending implies ¬(week > today) whenever the name carries a date
		want := bOr{[]BExpr{bBool{"isnil(match)"}, mkOrd("matchlen", "<", "2"), bNot{mkOrd("week", ">", "today")}}}
		okI, why := projectedImplies(got, want, func(v string) bool { return true })
		hasCmp := strings.Contains(got.String(), "today") && strings.Contains(got.String(), "week")
		r.Check(rule, "uploadReport/future week is not sent", m.Pos(cs.Pos()), okI && hasCmp,
			"the post must lie under ¬(week > today) (string order on the fixed-width date layout): "+why+" path condition: "+got.String())
	}
}

// projectedImplies: whenever got can be true for a selected assignment, want holds for it.
func projectedImplies(got, want BExpr, sel func(string) bool) (bool, string) {
	names, doms, all := worlds(got, want)
	for _, w := range all {
		if got.Eval(w) && !want.Eval(w) {
			var ks []string
			for _, n := range names {
				if sel(n) {
					ks = append(ks, fmt.Sprintf("%s=%s", n, doms[n][w[n]]))
				}
			}
			return false, "reachable with {" + strings.Join(ks, ", ") + "}"
		}
	}
	return true, ""
}

// ---- rule 5: mode off => no effects ------------------------------------------
func modeOffFact(pol bool) factPred { // pol=true: fact "mode == off"; false: "mode != off"
	return strEq(isModeString, "off", pol)
}

func c02OffNoEffects(c *Ctx, m *Module) {
	r := c.R
	// counter side: who may call openMapped / memmap; rotate1's effect sites are under mode != off
	openMapped := m.Func("internal/counter", "openMapped")
	allowed := map[string]bool{"(*internal/counter.file).rotate1": true, "(*internal/counter.mappedFile).newCounter": true, "(*internal/counter.mappedFile).extend": true}
	for _, cs := range m.callersOf(openMapped) {
		r.Check("C02.off-no-effects", "caller of openMapped: "+fname(cs.Parent()), m.Pos(cs.Pos()), allowed[fname(cs.Parent())],
			"openMapped (creates/extends/maps the counter file) may be called only from rotate1 and from methods of an existing mapping")
	}
	// &mappedFile{} literals only in openMapped and Parse
	for _, fn := range m.PkgFuncs("internal/counter") {
		for _, in := range instrsOf(fn) {
			if al, ok := in.(*ssa.Alloc); ok && al.Heap && namedType(al.Type()) == "internal/counter.mappedFile" {
				okSite := fname(fn) == "internal/counter.openMapped" || fname(fn) == "internal/counter.Parse"
				r.Check("C02.off-no-effects", "mappedFile constructed in "+fname(fn), m.Pos(al.Pos()), okSite, "a mappedFile may be constructed only by openMapped (and by Parse over a heap copy)")
			}
		}
	}
	rot := m.Func("internal/counter", "file.rotate1")
	gated := 0
	for _, cs := range callsIn(rot) {
		n := calleeName(cs.Common())
		interesting := n == "internal/counter.counterSpan" || n == "os.MkdirAll" || n == "internal/counter.openMapped" || effectTable[n] != ""
		if !interesting {
			continue
		}
		gated++
		r.Check("C02.off-no-effects", "rotate1/"+n+" under mode != off", m.Pos(cs.Pos()), hasFact(factsAt(cs), modeOffFact(false)),
			"every file-system effect of rotate1 (weekends file, local dir, counter file) must be dominated by the mode != \"off\" test")
	}
	r.Check("C02.off-no-effects", "rotate1/has gated effect sites", m.Pos(rot.Pos()), gated >= 3, fmt.Sprintf("found %d effect sites in rotate1", gated))
	// rotate1 reads the mode itself
	r.Check("C02.off-no-effects", "rotate1/reads the mode", m.Pos(rot.Pos()), len(callsIn(rot, dirMode)) >= 1, "rotate1 must consult the mode")

	// Open: rotate/rotate1 calls under mode != off
	open := m.Func("internal/counter", "Open")
	for _, f := range WithClosures(open) {
		for _, cs := range callsIn(f, "(*internal/counter.file).rotate", "(*internal/counter.file).rotate1") {
			r.Check("C02.off-no-effects", "Open/"+calleeName(cs.Common())+" under mode != off", m.Pos(cs.Pos()), hasFact(factsAt(cs), modeOffFact(false)),
				"Open must not open the counter file when the mode is off")
		}
	}

	// uploader side: reports() returns before anything when off
	reports := m.Func("internal/upload", "uploader.reports")
	for _, cs := range callsIn(reports) {
		n := calleeName(cs.Common())
		if n == "(*internal/upload.uploader).createReport" || n == "(*internal/upload.uploader).deleteFiles" {
			r.Check("C02.off-no-effects", "reports/"+n+" under mode != off", m.Pos(cs.Pos()), hasFact(factsAt(cs), modeOffFact(false)),
				"with mode off the uploader must neither build reports nor delete counter files")
		}
	}
	// with mode off reports returns nil
	for _, b := range reports.Blocks {
		ret, ok := b.Instrs[len(b.Instrs)-1].(*ssa.Return)
		if !ok {
			continue
		}
		if hasFact(factsAt(ret), modeOffFact(true)) {
			r.Check("C02.off-no-effects", "reports/off returns no ready files", m.Pos(ret.Pos()), isNilConst(ret.Results[0]), "in mode off reports() must return no files to upload")
		}
	}
	// every FS effect reachable from uploader.Run is in createReport/deleteFiles/exclusiveWrite/uploadReportContents (gated above / by send gate) or tabled
	run := m.Func("internal/upload", "uploader.Run")
	effs, chains := m.reachableEffects([]*ssa.Function{run}, nil)
	tab := map[string]string{
		"(*internal/upload.uploader).findWork/os.MkdirAll": "creates the empty upload directory; not a counter file or report",
	}
	gatedFns := map[string]bool{
		"(*internal/upload.uploader).createReport": true, "(*internal/upload.uploader).deleteFiles": true, "internal/upload.exclusiveWrite": true,
		"(*internal/upload.uploader).uploadReportContents": true,
	}
	nfs := 0
	for _, e := range effs {
		if e.Kind != effFS {
			continue
		}
		nfs++
		k := fnameTop(e.Fn) + "/" + e.Name
		_, tabled := tab[k]
		r.Check("C02.off-no-effects", "uploader.Run reaches "+k, m.Pos(e.Call.Pos()), gatedFns[fnameTop(e.Fn)] || tabled,
			"file-system effects of the uploader must sit in functions reached only behind the mode gates (or in the one-line exception table); chain: "+chainString(chains[e.Fn]))
	}
	r.Analysed["uploader_fs_effect_sites"] = nfs
	// deleteFiles/createReport/exclusiveWrite callers
	for _, spec := range []struct{ callee, caller string }{
		{"uploader.deleteFiles", "(*internal/upload.uploader).reports|(*internal/upload.uploader).createReport"},
		{"exclusiveWrite", "(*internal/upload.uploader).createReport"},
	} {
		f := m.Func("internal/upload", spec.callee)
		for _, cs := range m.callersOf(f) {
			r.Check("C02.off-no-effects", "caller of "+spec.callee+": "+fname(cs.Parent()), m.Pos(cs.Pos()), strings.Contains("|"+spec.caller+"|", "|"+fname(cs.Parent())+"|"),
				spec.callee+" may be called only from "+spec.caller)
		}
	}

	// telemetry.parent: everything after the mode test
	parent := m.Func("", "parent")
	for _, cs := range callsIn(parent) {
		n := calleeName(cs.Common())
		if n == "counter.Open" || n == "os.Stat" || n == "telemetry.acquireUploadToken" || n == "telemetry.startChild" {
			r.Check("C02.off-no-effects", "parent/"+n+" under mode != off", m.Pos(cs.Pos()), hasFact(factsAt(cs), modeOffFact(false)),
				"with mode off Start must do nothing")
		}
	}
}

// ---- rule 6: SetModeAsOf ------------------------------------------------------
func c02SetMode(c *Ctx, m *Module) {
	r := c.R
	fn := m.Func("internal/telemetry", "Dir.SetModeAsOf")
	// effects lie under mode ∈ {on, off, local}
	n := 0
	for _, e := range directEffects(fn) {
		n++
		fb := newFormulaBuilder()
		trimmed := ""
		fb.namer = func(v ssa.Value) (string, bool) {
			if c, ok := v.(*ssa.Call); ok && calleeName(&c.Call) == "strings.TrimSpace" && argsOf(c)[0] == fn.Params[1] {
				trimmed = "m"
				return "m", true
			}
			return "", false
		}
		got := fb.reach(e.Call.Block())
		want := bOr{[]BExpr{bStr{"m", "on"}, bStr{"m", "off"}, bStr{"m", "local"}}}
		ok, why := projectedImplies(got, want, func(v string) bool { return strings.Contains(v, "strk(m)") })
		_ = trimmed
		r.Check("C02.setmode", "SetModeAsOf/"+e.Name+" only for a valid mode", m.Pos(e.Call.Pos()), ok && strings.Contains(got.String(), "m=="),
			"an invalid mode must be rejected before any effect: "+why)
	}
	r.Check("C02.setmode", "SetModeAsOf/effects enumerated", m.Pos(fn.Pos()), n >= 1, "SetModeAsOf writes the mode file")
	// the written bytes are mode + sep + Format(DateOnly); reader: Index(sep), Parse(DateOnly)
	dateOnly := m.ConstVal("internal/telemetry", "DateOnly")
	var wsep, wlayout string
	for _, cs := range callsIn(fn, "(time.Time).Format") {
		wlayout, _ = constOf(argsOf(cs)[1])
	}
	for _, cs := range callsIn(fn, "os.WriteFile") {
		d := describeArg(cs, 1)
		// conv<[]byte>((m + " ") + asof)
		if i := strings.Index(d, ` + "`); i >= 0 {
			rest := d[i+4:]
			if j := strings.Index(rest, `"`); j >= 0 {
				wsep = rest[:j]
			}
		}
		r.Check("C02.setmode", "SetModeAsOf/written content", m.Pos(cs.Pos()), strings.Contains(d, "strings.TrimSpace(param:mode)") && strings.Contains(d, "(time.Time).Format("),
			"the mode file must hold the validated mode, a separator and the formatted date; got "+d)
		// the date is the UTC date of the given time: every reader compares it with UTC dates
		// (counter files begin at 00:00 UTC), so a local-zone date shifts the opt-in day
		r.Check("C02.setmode", "SetModeAsOf/recorded date is the UTC date of the given time", m.Pos(cs.Pos()),
			strings.Contains(d, "(time.Time).Format((time.Time).UTC(param:asofTime), "),
			"expected asofTime.UTC().Format(DateOnly); got "+d)
	}
	rd := m.Func("internal/telemetry", "Dir.Mode")
	var rsep, rlayout string
	for _, cs := range callsIn(rd, "strings.Index", "strings.Cut", "strings.IndexByte") {
		rsep, _ = sepConstOf(argsOf(cs)[1])
	}
	for _, cs := range callsIn(rd, "time.Parse") {
		rlayout, _ = constOf(argsOf(cs)[0])
	}
	r.Check("C02.setmode", "mode file/date layout agreement", m.Pos(rd.Pos()), wlayout == dateOnly && rlayout == dateOnly, fmt.Sprintf("writer layout %q, reader layout %q, DateOnly %q", wlayout, rlayout, dateOnly))
	r.Check("C02.setmode", "mode file/separator agreement", m.Pos(rd.Pos()), wsep != "" && wsep == rsep, fmt.Sprintf("writer separator %q, reader separator %q", wsep, rsep))
	_ = types.Typ
}

// c02DatePattern: the pattern that finds the week in a report's file name. Both of its users
// fail OPEN when it does not match (no date → "upload everything" in findWork, no future-week
// test in uploadReport), so it must match every <date>.json. The pattern is a constant; it is
// compiled here, by the checker's own regexp package (nothing of /repo runs), and matched
// against every calendar date of 2000–2099: group 1 must be the date, and the match must be
// anchored at the end of the name.
func c02DatePattern(c *Ctx, m *Module, rule string) {
	r := c.R
	g := m.GlobalVar("internal/upload", "dateRE")
	iv := globalSingleInit(g)
	pat, okPat := "", false
	if cl, ok := iv.(*ssa.Call); ok && calleeName(&cl.Call) == "regexp.MustCompile" {
		pat, okPat = constOf(argsOf(cl)[0])
	}
	r.Check(rule, "dateRE is a constant pattern set once", m.Pos(g.Pos()), okPat, "dateRE must be initialised by regexp.MustCompile(<constant>) and never reassigned")
	if !okPat {
		return
	}
	re, err := regexp.Compile(pat)
	if err != nil {
		r.Check(rule, "dateRE compiles", m.Pos(g.Pos()), false, err.Error())
		return
	}
	bad := ""
	nDates := 0
	for d := time.Date(2000, 1, 1, 0, 0, 0, 0, time.UTC); d.Year() < 2100 && bad == ""; d = d.AddDate(0, 0, 1) {
		nDates++
		ds := d.Format("2006-01-02")
		for _, name := range []string{ds + ".json", "local." + ds + ".json", "/a/b/" + ds + ".json"} {
			mm := re.FindStringSubmatch(name)
			if len(mm) < 2 || mm[1] != ds {
				bad = "does not find the date in " + name
			}
		}
		if mm := re.FindStringSubmatch(ds + ".jsonx"); mm != nil {
			bad = "matches " + ds + ".jsonx (not anchored at the end)"
		}
	}
	r.Check(rule, "dateRE finds the date of every <date>.json", m.Pos(g.Pos()), bad == "",
		fmt.Sprintf("pattern %q, %d calendar dates tried: %s", pat, nDates, bad))
}
