package main

// C04 — processes sharing a counter file never corrupt it, even when killed (publication discipline).

import (
	"fmt"
	"go/token"
	"go/types"
	"os"
	"strings"

	"golang.org/x/tools/go/ssa"
)

func init() {
	register("C04", &propDef{
		run:    runC04,
		matrix: true,
		decided: []string{
			"every access to the shared mapping is an atomic operation, a read of (immutable) name bytes, or the name copy of a not yet linked record",
			"publication order in newCounter: reservation CAS succeeded → record written → link CAS; every link attempt is preceded in its iteration by next.Store(head) with the very head the CAS expects; single CAS writer of the limit, under end ≤ len(mapping)",
			"duplicate check after a lost link race: on a name match the own record is marked dead and the FOUND record's value is returned",
			"counter values only change through a load/CAS loop; extend writes only the reserved page tail; a record offset beyond this process' mapping is told apart from corruption by a limit loaded in that iteration (growth vs corruption)",
		},
		notDecided: []string{"well-formedness under every interleaving and kill point", "no survivor blocks", "values never decrease at run time"},
	})
}

// resultStored: the value stored into the named-result slot that result i of ret loads from,
// in ret's block (nil if the block does not store it or the store is the slot's own reload).
func resultStored(ret *ssa.Return, i int) ssa.Value {
	ld, ok := ret.Results[i].(*ssa.UnOp)
	if !ok || ld.Op != token.MUL {
		return ret.Results[i]
	}
	al, ok := ld.X.(*ssa.Alloc)
	if !ok {
		return ret.Results[i]
	}
	b := ret.Block()
	for j := len(b.Instrs) - 1; j >= 0; j-- {
		if st, ok := b.Instrs[j].(*ssa.Store); ok && st.Addr == ssa.Value(al) {
			if l2, ok := st.Val.(*ssa.UnOp); ok && l2.Op == token.MUL && l2.X == ssa.Value(al) {
				// "return v" of the named result itself: the value set earlier
				if v := lastStoreBefore(al, l2); v != nil {
					return v
				}
				return reachingStore(al, l2)
			}
			return st.Val
		}
	}
	return nil
}

func runC04(c *Ctx) {
	c10LengthWord(c, c.Root(), "C04.reserve-write-link")
	c04LookupGuard(c, c.Root(), "C04.duplicate-check")
	// processes share a file only when they agree on its whole header (and so on every offset)
	c09HeaderVerified(c, c.Root(), "C04.reserve-write-link")
	c04OpenRejects(c, c.Root(), "C04.growth-vs-corruption")
	// processes of different library revisions share a file: the layout constants are the documented ones
	c10Constants(c, c.Root(), "C04.reserve-write-link")

	m := c.Root()
	c04AtomicOnly(c, m)
	c04Publication(c, m, "C04")
}

// c04Publication: the publication discipline of newCounter (also claimed, under C10's
// names, for "several writers read back exactly what was written").
func c04Publication(c *Ctx, m *Module, pfx string) {
	r := c.R
	nc := m.Func("internal/counter", "mappedFile.newCounter")

	// identify the actors
	var resCAS, linkCAS, wr *ssa.Call
	for _, cs := range callsIn(nc, "(*internal/counter.mappedFile).cas32") {
		p := newProver()
		off := p.norm(argsOf(cs)[1])
		isLimit := false
		for t := range off.coef {
			if strings.HasSuffix(t, "hdrLen") && len(off.coef) == 1 {
				isLimit = true
			}
		}
		if isLimit {
			resCAS = cs.(*ssa.Call)
		} else {
			linkCAS = cs.(*ssa.Call)
		}
	}
	for _, cs := range callsIn(nc, "(*internal/counter.mappedFile).writeEntryAt") {
		wr = cs.(*ssa.Call)
	}
	okActors := resCAS != nil && linkCAS != nil && wr != nil
	r.Check(pfx+".reserve-write-link", "newCounter/reservation CAS, record write and link CAS exist", m.Pos(nc.Pos()), okActors, "expected cas32(limit…), writeEntryAt, cas32(head…)")
	if !okActors {
		return
	}
	// order: EVERY record write is behind a successful reservation, EVERY head CAS behind a successful write
	for i, cs := range callsIn(nc, "(*internal/counter.mappedFile).writeEntryAt") {
		r.Check(pfx+".reserve-write-link", fmt.Sprintf("newCounter/record write #%d only after the reservation succeeded", i+1), m.Pos(cs.Pos()), hasFact(factsAt(cs), func(f Fact) bool { return f.Cond == ssa.Value(resCAS) && f.Pol }),
			"writeEntryAt must be dominated by a successful cas32 on the limit word (space is reserved before it is written)")
	}
	nLink := 0
	for _, cs := range callsIn(nc, "(*internal/counter.mappedFile).cas32") {
		if cs == ssa.CallInstruction(resCAS) {
			continue
		}
		nLink++
		okWrittenFirst := precedes(wr, cs) && hasFact(factsAt(cs), func(f Fact) bool {
			e, ok := f.Cond.(*ssa.Extract)
			return ok && e.Tuple == ssa.Value(wr) && e.Index == 2 && f.Pol
		})
		r.Check(pfx+".reserve-write-link", fmt.Sprintf("newCounter/link CAS #%d only after the record was written", nLink), m.Pos(cs.Pos()), okWrittenFirst, "a head CAS must come after a successful writeEntryAt (a reader following the chain must find a complete record)")
	}
	// the link installs `start` (the offset written) expecting `head`
	la := argsOf(linkCAS)
	r.Check(pfx+".reserve-write-link", "newCounter/link installs the written record's offset", m.Pos(linkCAS.Pos()), la[3] == argsOf(wr)[1] || describe(la[3]) == describeArg(wr, 1),
		"cas32(headOff, head, start) with the start passed to writeEntryAt; got "+describe(la[3])+" vs "+describeArg(wr, 1))
	r.Check(pfx+".reserve-write-link", "newCounter/record written at the reserved start", m.Pos(wr.Pos()), strings.HasSuffix(describe(refine(argsOf(wr)[1], factsAt(wr))), ").place("+describePlaceArgs(resCAS)+")#0") || samePlace(refine(argsOf(wr)[1], factsAt(wr)), argsOf(resCAS)[3]),
		"the offset written is place()'s start whose end was CASed into the limit")
	// next.Store(head) right before each link attempt, same head
	var nextStore *ssa.Call
	for _, cs := range callsIn(nc, "(*sync/atomic.Uint32).Store") {
		cl := cs.(*ssa.Call)
		if e, ok := argsOf(cl)[0].(*ssa.Extract); ok && e.Tuple == ssa.Value(wr) && e.Index == 0 {
			if cl.Block() == linkCAS.Block() && instrIndex(cl) < instrIndex(linkCAS) {
				nextStore = cl
			}
		}
	}
	okNext := nextStore != nil && argsOf(nextStore)[1] == la[2]
	r.Check(pfx+".reserve-write-link", "newCounter/each link attempt first points the record at the expected head", m.Pos(linkCAS.Pos()), okNext,
		"in the same iteration as cas32(headOff, head, start), next.Store(head) must run first with the same head value (hoisting it out of the retry loop links the record in front of a stale chain)")
	// the head the FIRST link attempt expects is the one lookup() walked the chain from
	// (that walk is the evidence that the name is not in the chain behind it)
	{
		var initial []ssa.Value
		if phi, ok := la[2].(*ssa.Phi); ok {
			for i, e := range phi.Edges {
				if !(phi.Block().Dominates(phi.Block().Preds[i]) || blockReaches(phi.Block(), phi.Block().Preds[i])) {
					initial = append(initial, e)
				}
			}
		} else {
			initial = append(initial, la[2])
		}
		okInit := len(initial) > 0
		detail := ""
		var chk func(v ssa.Value, seen map[ssa.Value]bool) bool
		chk = func(v ssa.Value, seen map[ssa.Value]bool) bool {
			v = strip(v)
			if seen[v] {
				return true
			}
			seen[v] = true
			if p2, ok := v.(*ssa.Phi); ok {
				// edges that cannot lead to the link attempt (the lookup stage left with an error,
				// merged with the value the variable had before) do not count
				dead := deadEdges(p2.Block(), factsAt(linkCAS))
				for i, e := range p2.Edges {
					if dead[i] {
						continue
					}
					if !chk(e, seen) {
						return false
					}
				}
				return true
			}
			if e, ok := v.(*ssa.Extract); ok && e.Index == 2 {
				if cl, ok := e.Tuple.(*ssa.Call); ok && calleeName(&cl.Call) == "(*internal/counter.mappedFile).lookup" {
					return true
				}
			}
			detail = describe(v)
			return false
		}
		for _, v := range initial {
			if !chk(v, map[ssa.Value]bool{}) {
				okInit = false
			}
		}
		r.Check(pfx+".reserve-write-link", "newCounter/first link attempt expects the head that lookup walked from", m.Pos(linkCAS.Pos()), okInit,
			"head may only be refreshed inside the link loop, where the records in front of the old head are re-checked for the name; a head re-read elsewhere skips that check and links a duplicate: "+shortDesc(detail))
	}
	// the head retried is re-read from the bucket
	if phi, ok := la[2].(*ssa.Phi); ok {
		okReload := false
		for i, e := range phi.Edges {
			if phi.Block().Dominates(phi.Block().Preds[i]) || blockReaches(phi.Block(), phi.Block().Preds[i]) {
				if cl, ok := strip(e).(*ssa.Call); ok && calleeName(&cl.Call) == "(*internal/counter.mappedFile).load32" && describeArg(cl, 1) == describe(la[1]) {
					okReload = true
				}
			}
		}
		r.Check(pfx+".reserve-write-link", "newCounter/retry uses the freshly loaded head", m.Pos(linkCAS.Pos()), okReload, "after a failed link the expected head must be re-read from the bucket word")
	}

	// ---- duplicate check ---------------------------------------------------------
	var walkEntry *ssa.Call
	for _, cs := range callsIn(nc, "(*internal/counter.mappedFile).entryAt") {
		walkEntry = cs.(*ssa.Call)
	}
	r.Check(pfx+".duplicate-check", "newCounter/walks the new chain elements after a lost race", m.Pos(nc.Pos()), walkEntry != nil && hasFact(factsAt(walkEntry), func(f Fact) bool { return f.Cond == ssa.Value(linkCAS) && !f.Pol }),
		"after a failed link CAS the records prepended meanwhile must be inspected")
	if walkEntry != nil {
		// the walk is complete: it starts at the freshly loaded head, steps through the records'
		// next words, and goes back to the link attempt only when it has arrived at the head
		// the failed attempt expected — an EQUALITY with that head, not an ordering of offsets
		// (chain order is link order: a record reserved early and linked late has a small offset)
		{
			var wl *loopInfo
			for _, l := range naturalLoops(nc) {
				if l.blocks[walkEntry.Block()] && (wl == nil || len(l.blocks) < len(wl.blocks)) {
					wl = l
				}
			}
			okWalk, detail := wl != nil, "the walk is not a loop"
			if wl != nil {
				off, _ := strip(walkEntry.Call.Args[1]).(*ssa.Phi)
				if off == nil || off.Block() != wl.header {
					okWalk, detail = false, "the offset walked is not the loop's variable: "+shortDesc(describe(walkEntry.Call.Args[1]))
				} else {
					for i, e := range off.Edges {
						inside := wl.blocks[off.Block().Preds[i]]
						e = strip(e)
						if inside {
							if ex, ok := e.(*ssa.Extract); !ok || ex.Tuple != ssa.Value(walkEntry) || ex.Index != 1 {
								okWalk, detail = false, "the walk must step to the record's next word; steps to "+shortDesc(describe(e))
							}
						} else {
							cl, ok := e.(*ssa.Call)
							if !ok || calleeName(&cl.Call) != "(*internal/counter.mappedFile).load32" || describeArg(cl, 1) != describe(la[1]) {
								okWalk, detail = false, "the walk must start at the head just loaded from the bucket; starts at "+shortDesc(describe(e))
							}
						}
					}
					nBack := 0
					for b := range wl.blocks {
						ifi, ok := b.Instrs[len(b.Instrs)-1].(*ssa.If)
						if !ok {
							continue
						}
						for k, succ := range b.Succs {
							if wl.blocks[succ] {
								continue
							}
							// does this exit lead to another link attempt? (followed with the values that
							// flow out of the loop: an exit that reports "record invalid" or "found" through
							// result variables goes on to a return)
							if walkWithout([]walkState{{b, succ, 0}}, func(x ssa.Instruction) bool { return x == ssa.Instruction(linkCAS) }, func(ssa.Instruction) bool { return false }) == nil {
								continue
							}
							// the exits for "record invalid" and "name found" are the subject of the
							// corruption and name-match rules (what is returned there is checked by them)
							isEntryResult := func(v ssa.Value, idx int) bool {
								v = strip(v)
								if cv, ok := v.(*ssa.Convert); ok {
									v = strip(cv.X)
								}
								e, ok := v.(*ssa.Extract)
								return ok && e.Tuple == ssa.Value(walkEntry) && e.Index == idx
							}
							if isEntryResult(ifi.Cond, 3) {
								continue
							}
							if cb, ok := ifi.Cond.(*ssa.BinOp); ok && cb.Op == token.EQL && k == 0 && (isEntryResult(cb.X, 0) || isEntryResult(cb.Y, 0)) {
								continue
							}
							// an exit of the walk that leads back to a link attempt
							nBack++
							bo, isB := ifi.Cond.(*ssa.BinOp)
							eqExit := isB && ((bo.Op == token.EQL && k == 0) || (bo.Op == token.NEQ && k == 1))
							if !eqExit {
								okWalk, detail = false, "the walk is left for another link attempt on a condition that is not 'offset == old head': "+shortDesc(describe(ifi.Cond))
								continue
							}
							x, y := strip(bo.X), strip(bo.Y)
							if !((x == ssa.Value(off) && y == strip(la[2])) || (y == ssa.Value(off) && x == strip(la[2]))) {
								okWalk, detail = false, "the walk must end at the head the failed link attempt expected; compares "+shortDesc(describe(bo))
							}
						}
					}
					if nBack == 0 {
						okWalk, detail = false, "no way back from the walk to the link attempt"
					}
				}
			}
			r.Check(pfx+".duplicate-check", "newCounter/the walk covers every record in front of the old head", m.Pos(walkEntry.Pos()), okWalk, detail)
		}
		nMatch := 0
		matchSeen := map[ssa.Value]bool{} // exits that differ only in the OTHER results count once
		isMatch := func(f Fact) bool {
			bo, ok := f.Cond.(*ssa.BinOp)
			if !ok || !assertsEq(bo, f.Pol) {
				return false
			}
			d := describe(bo.X) + "|" + describe(bo.Y)
			return strings.Contains(d, "entryAt(") && strings.Contains(d, "#0") && strings.Contains(d, "param:name")
		}
		for _, ex := range exitPaths(nc) {
			ret := ex.ret
			if os.Getenv("VERIF_DEBUG_EXITS") != "" {
				fmt.Printf("EXIT %s vals=%s | %s | %s nfacts=%d\n", m.Pos(ret.Pos()), shortDesc(describe(ex.vals[0])), shortDesc(describe(ex.vals[1])), shortDesc(describe(ex.vals[2])), len(ex.facts))
				if os.Getenv("VERIF_DEBUG_EXITS") == "2" {
					for _, f := range ex.facts {
						fmt.Printf("      %v %s\n", f.Pol, shortDesc(describe(f.Cond)))
					}
				}
			}
			// under string(ename) == name
			if !hasFact(ex.facts, isMatch) {
				continue
			}
			v := refine(ex.vals[0], ex.facts)
			if !matchSeen[v] {
				nMatch++
			}
			matchSeen[v] = true
			okV := false
			if e, ok := v.(*ssa.Extract); ok && e.Tuple == ssa.Value(walkEntry) && e.Index == 2 {
				okV = true
			}
			r.Check(pfx+".duplicate-check", "newCounter/returns the existing record on a name match", m.Pos(ret.Pos()), okV,
				"when another writer linked the same name first, the value returned must be THAT record's (entryAt's v), not our unlinked one; returns "+describe(v))
			// our own record is marked dead under the same match
			dead := false
			for _, in := range instrsOf(nc) {
				if cl, ok := in.(*ssa.Call); ok && calleeName(&cl.Call) == "(*sync/atomic.Uint32).Store" {
					if e, ok := argsOf(cl)[0].(*ssa.Extract); ok && e.Tuple == ssa.Value(wr) && e.Index == 0 {
						if k, isC := intConst(argsOf(cl)[1]); isC && uint32(k) == ^uint32(0) && hasFact(factsAt(cl), isMatch) {
							dead = true
						}
					}
				}
			}
			r.Check(pfx+".duplicate-check", "newCounter/own record marked dead on a name match", m.Pos(ret.Pos()), dead, "next.Store(^0) on our record")
			r.Check(pfx+".duplicate-check", "newCounter/no error and no remap reported on a name match", m.Pos(ret.Pos()), isNilConst(ex.vals[2]), "err must be nil")
		}
		r.Check(pfx+".duplicate-check", "newCounter/has the name-match exit", m.Pos(nc.Pos()), nMatch == 1, fmt.Sprintf("%d", nMatch))
		// success return after the link CAS returns our v
		for _, ex := range exitPaths(nc) {
			ret := ex.ret
			if !hasFact(ex.facts, func(f Fact) bool { return f.Cond == ssa.Value(linkCAS) && f.Pol }) {
				continue
			}
			// *t1 was set right after writeEntryAt
			okOwn := false
			for _, in := range wr.Block().Instrs {
				if st, ok := in.(*ssa.Store); ok {
					if e, ok := st.Val.(*ssa.Extract); ok && e.Tuple == ssa.Value(wr) && e.Index == 1 {
						okOwn = true
					}
				}
			}
			v := ex.vals[0]
			if e, ok := v.(*ssa.Extract); ok && e.Tuple == ssa.Value(wr) && e.Index == 1 {
				okOwn = true
			}
			r.Check(pfx+".duplicate-check", "newCounter/returns the new record after a successful link", m.Pos(ret.Pos()), okOwn, "after linking, the value is writeEntryAt's v")
		}
	}

	c04ValueAdd(c, m, pfx+".value-add")

	if pfx == "C04" {
		c10ExtendTail(c, m, "C04.extend-tail")
		c10PageTest(c, m, "C04.extend-tail")
		c10Limit(c, m, "C04.single-writer-of-limit")
		c04Growth(c, m, nc, walkEntry)
	}
}

func describePlaceArgs(*ssa.Call) string { return "\x00" }

// samePlace: a and b are results #0 and #1 of the same place() call.
func samePlace(a, b ssa.Value) bool {
	ea, ok1 := strip(a).(*ssa.Extract)
	eb, ok2 := strip(b).(*ssa.Extract)
	if !ok1 || !ok2 || ea.Tuple != eb.Tuple || ea.Index != 0 || eb.Index != 1 {
		return false
	}
	c, ok := ea.Tuple.(*ssa.Call)
	return ok && calleeName(&c.Call) == "(*internal/counter.mappedFile).place"
}

func c04AtomicOnly(c *Ctx, m *Module) {
	r := c.R
	n := 0
	for _, fn := range m.PkgFuncs("internal/counter") {
		for _, in := range instrsOf(fn) {
			var kind, key string
			switch x := in.(type) {
			case *ssa.IndexAddr:
				if !strings.HasSuffix(describe(x.X), ".mapping.Data") {
					continue
				}
				n++
				key = fname(fn) + "/address of mapping byte"
				// every use: cast chain to a pointer used atomically
				kind = "unclassified"
				allAtomic := true
				someUse := false
				for _, u := range referrers(x) {
					cv, ok := u.(*ssa.Convert)
					if !ok || cv.Type().String() != "unsafe.Pointer" {
						if _, isDbg := u.(*ssa.DebugRef); isDbg {
							continue
						}
						allAtomic = false
						kind = "plain use " + u.String()
						continue
					}
					for _, u2 := range referrers(cv) {
						cv2, ok := u2.(*ssa.Convert)
						if !ok {
							allAtomic = false
							continue
						}
						t := cv2.Type().String()
						for _, u3 := range referrers(cv2) {
							someUse = true
							switch y := u3.(type) {
							case ssa.CallInstruction:
								cn := calleeName(y.Common())
								if !(strings.HasPrefix(cn, "(*sync/atomic.") || strings.HasPrefix(cn, "sync/atomic.")) {
									allAtomic = false
									kind = "pointer passed to " + cn
								}
							case *ssa.Return, *ssa.Store, *ssa.DebugRef, *ssa.MakeInterface:
								// handing out / remembering the *atomic.T pointer is fine (its methods are atomic)
								if !strings.Contains(t, "sync/atomic.") {
									allAtomic = false
									kind = "non-atomic pointer type " + t + " escapes"
								}
							case *ssa.UnOp:
								if constExpr(x.Index, 0) {
									// a word at a FIXED offset is part of the file header, which is
									// written before the file is shared and never modified afterwards
									continue
								}
								allAtomic = false
								kind = "plain load through " + t
							default:
								if !strings.Contains(t, "sync/atomic.") {
									allAtomic = false
									kind = fmt.Sprintf("use %T of %s", u3, t)
								}
							}
						}
					}
				}
				if allAtomic && someUse {
					kind = "atomic"
				}
			case *ssa.Slice:
				if !strings.HasSuffix(describe(x.X), ".mapping.Data") {
					continue
				}
				n++
				key = fname(fn) + "/slice of the mapping"
				kind = "unclassified slice"
				for _, u := range referrers(x) {
					switch y := u.(type) {
					case ssa.CallInstruction:
						cn := calleeName(y.Common())
						switch {
						case cn == "builtin:copy" && argsOf(y)[0] == ssa.Value(x) && fname(fn) == "(*internal/counter.mappedFile).writeEntryAt":
							kind = "atomic" // name copy into a reserved, not yet linked record
						case cn == "builtin:copy" && argsOf(y)[1] == ssa.Value(x):
							kind = "atomic" // read
						case cn == "bytes.Equal" || cn == "bytes.HasPrefix" || cn == "bytes.HasSuffix" || cn == "bytes.Compare":
							kind = "atomic" // read-only comparison, as the header test on the whole mapping
						}
					case *ssa.Return, *ssa.Store, *ssa.Convert, *ssa.DebugRef:
						kind = "atomic" // name bytes handed to the caller (immutable once the record is linked)
					}
				}
			default:
				continue
			}
			r.Check("C04.atomic-only", key, m.Pos(in.Pos()), kind == "atomic", "shared mapping bytes may be touched only atomically (or as immutable name bytes / the pre-link name copy): "+kind)
		}
	}
	r.Check("C04.atomic-only", "mapping accesses enumerated", "-", n >= 6, fmt.Sprintf("%d accesses", n))
}

// c04Growth: C04.growth-vs-corruption.
func c04Growth(c *Ctx, m *Module, nc *ssa.Function, walkEntry *ssa.Call) {
	r := c.R
	loops := naturalLoops(nc)
	n := 0
	for _, ex := range exitPaths(nc) {
		// one Return can stand for several exits (results collected in variables): each way of
		// reaching it with errCorrupt as the error is a corruption report of its own
		ret := ex.ret
		ev := refine(ex.vals[2], ex.facts)
		if ev == nil || describe(ev) != "*global:internal/counter.errCorrupt" {
			continue
		}
		n++
		facts := ex.facts
		// which failure led here?
		lookupFailed := hasFact(facts, func(f Fact) bool {
			d := describe(f.Cond)
			return strings.Contains(d, ").lookup(") && strings.HasSuffix(d, "#3") && !f.Pol || strings.HasPrefix(d, "phi:") && !f.Pol
		})
		walkFailed := walkEntry != nil && hasFact(facts, func(f Fact) bool {
			e, ok := f.Cond.(*ssa.Extract)
			return ok && e.Tuple == ssa.Value(walkEntry) && e.Index == 3 && !f.Pol
		})
		writeFailed := hasFact(facts, func(f Fact) bool {
			e, ok := f.Cond.(*ssa.Extract)
			if !ok {
				return false
			}
			cl, ok := e.Tuple.(*ssa.Call)
			return ok && calleeName(&cl.Call) == "(*internal/counter.mappedFile).writeEntryAt" && !f.Pol
		})
		// evidence that growth does not explain it: a comparison of the limit word with the mapping length on this path
		var limitCmp *ssa.BinOp
		var limitLoad *ssa.Call
		for _, f := range facts {
			if bo, ok := f.Cond.(*ssa.BinOp); ok {
				for _, pair := range [][2]ssa.Value{{bo.X, bo.Y}, {bo.Y, bo.X}} {
					if cl := limitWordLoad(pair[0]); cl != nil && strings.Contains(describe(pair[1]), "mapping.Data") {
						limitCmp, limitLoad = bo, cl
					}
				}
			}
		}
		tries := hasFact(facts, func(f Fact) bool {
			bo, ok := f.Cond.(*ssa.BinOp)
			if !ok {
				return false
			}
			k, isC := intConst(bo.Y)
			return isC && k == 10 && f.Pol
		})
		switch {
		case walkFailed:
			r.Check("C04.growth-vs-corruption", "(*mappedFile).newCounter/dup-walk", m.Pos(ret.Pos()), limitCmp != nil,
				"F15: after a lost link race the walk starts at a record another process may have placed beyond THIS process' mapping (file grown); entryAt !ok then reports errCorrupt without comparing the limit with the mapping length or remapping, so a well-formed file makes a survivor fail")
		case writeFailed:
			r.Check("C04.growth-vs-corruption", "(*mappedFile).newCounter/write of a reserved record failed", m.Pos(ret.Pos()), true, "the offset was just reserved under end ≤ len(mapping): failure means the arithmetic or the file is wrong, not growth")
		case tries:
			r.Check("C04.growth-vs-corruption", "(*mappedFile).newCounter/remap retries exhausted", m.Pos(ret.Pos()), true, "bounded retries")
		case lookupFailed || limitCmp != nil:
			okFresh := limitCmp != nil
			if limitCmp != nil {
				// the limit compared must be loaded in the same iteration of the remap loop
				for _, l := range loops {
					if l.blocks[limitCmp.Block()] && !l.blocks[limitLoad.Block()] {
						okFresh = false
					}
				}
			}
			r.Check("C04.growth-vs-corruption", "(*mappedFile).newCounter/lookup failed: "+shortDesc(describeCmp(limitCmp)), m.Pos(ret.Pos()), okFresh,
				"corruption may be reported for a failed lookup only after comparing the allocation limit, loaded in this iteration, with the mapping length (a limit read before an earlier remap is stale: the file may have grown again)")
		default:
			r.Check("C04.growth-vs-corruption", "(*mappedFile).newCounter/other corruption report", m.Pos(ret.Pos()), false, "unclassified errCorrupt return")
		}
	}
	r.Check("C04.growth-vs-corruption", "newCounter/corruption reports enumerated", m.Pos(nc.Pos()), n >= 4, fmt.Sprintf("%d returns of errCorrupt", n))
}

func describeCmp(b *ssa.BinOp) string {
	if b == nil {
		return "no limit comparison"
	}
	if strings.Contains(describe(b.X), "openMapped") || strings.Contains(describe(b.Y), "openMapped") {
		return "limit vs the NEW mapping"
	}
	return "limit vs the current mapping"
}

// limitWordLoad: v is (a conversion of) load32(hdrLen + limitOff).
func limitWordLoad(v ssa.Value) *ssa.Call {
	v = strip(v)
	if cv, ok := v.(*ssa.Convert); ok {
		v = strip(cv.X)
	}
	cl, ok := v.(*ssa.Call)
	if !ok || calleeName(&cl.Call) != "(*internal/counter.mappedFile).load32" {
		return nil
	}
	p := newProver()
	off := p.norm(argsOf(cl)[1])
	if len(off.coef) != 1 || off.k != 0 {
		return nil
	}
	for t := range off.coef {
		if strings.HasSuffix(t, "hdrLen") {
			return cl
		}
	}
	return nil
}

// c04ValueAdd: the mapped 64-bit value changes only by a compare-and-swap whose new value is the
// saturating sum computed from the very value the CAS expects (shared with C03.saturation).
func c04ValueAdd(c *Ctx, m *Module, rule string) {
	r := c.R
	// ---- value add ------------------------------------------------------------------
	add := m.Func("internal/counter", "Counter.add")
	okCAS := len(callsIn(add, "(*sync/atomic.Uint64).CompareAndSwap")) >= 1 && len(callsIn(add, "(*sync/atomic.Uint64).Load")) >= 1
	r.Check(rule, "Counter.add/load-CAS loop", m.Pos(add.Pos()), okCAS, "the mapped value changes only by CompareAndSwap of a freshly loaded value")
	for _, fn := range m.PkgFuncs("internal/counter") {
		for _, cs := range callsIn(fn, "(*sync/atomic.Uint64).Store", "(*sync/atomic.Uint64).Add", "(*sync/atomic.Uint64).Swap", "sync/atomic.StoreUint64", "sync/atomic.AddUint64") {
			d := describeArg(cs, 0)
			mapped := strings.Contains(d, ".count") || strings.Contains(d, "entryAt") || strings.Contains(d, "mapping.Data")
			r.Check(rule, "blind store/add to a 64-bit atomic in "+fname(fn), m.Pos(cs.Pos()), !mapped, "counter values must only be CASed (saturating add); got "+calleeName(cs.Common())+" on "+d)
		}
	}
	// saturation in add: sum < old ⇒ max
	okSat := false
	for _, in := range instrsOf(add) {
		if phi, ok := in.(*ssa.Phi); ok {
			for _, e := range phi.Edges {
				if k, isC := intConst(e); isC && uint64(k) == ^uint64(0) {
					okSat = true
				}
			}
		}
	}
	r.Check(rule, "Counter.add/saturates instead of wrapping", m.Pos(add.Pos()), okSat, "on overflow the value written is ^uint64(0)")

	// the CAS installs f(expected): the loads the new value is computed from are the loads the
	// expected value comes from, edge by edge when both are merged at the retry
	loadsOf := func(v ssa.Value) map[ssa.Value]bool {
		out := map[ssa.Value]bool{}
		for x := range backwardSlice(v, 40) {
			if cl, ok := x.(*ssa.Call); ok && calleeName(&cl.Call) == "(*sync/atomic.Uint64).Load" {
				out[cl] = true
			}
		}
		return out
	}
	sameLoads := func(a, b ssa.Value) bool {
		la, lb := loadsOf(a), loadsOf(b)
		if len(la) == 0 || len(la) != len(lb) {
			return false
		}
		for k := range la {
			if !lb[k] {
				return false
			}
		}
		return true
	}
	for _, cs := range callsIn(add, "(*sync/atomic.Uint64).CompareAndSwap") {
		oldV, newV := cs.Common().Args[1], cs.Common().Args[2]
		okFresh := sameLoads(newV, oldV)
		op, isOP := strip(oldV).(*ssa.Phi)
		np, isNP := strip(newV).(*ssa.Phi)
		if isOP && isNP && op.Block() == np.Block() {
			okFresh = true
			for i := range op.Edges {
				if !sameLoads(np.Edges[i], op.Edges[i]) {
					okFresh = false
				}
			}
		}
		r.Check(rule, "Counter.add/the value installed is computed from the value expected", m.Pos(cs.Pos()), okFresh,
			"CompareAndSwap(old, f(old)): after a lost race the sum must be recomputed from the value just loaded (a stale sum overwrites other writers' increments)")
	}
	// every addition that produces a candidate value is followed by its overflow test
	nAdd := 0
	for _, in := range instrsOf(add) {
		bo, ok := in.(*ssa.BinOp)
		if !ok || bo.Op != token.ADD || !strings.Contains(bo.Type().String(), "uint64") {
			continue
		}
		if len(loadsOf(bo)) == 0 {
			continue
		}
		nAdd++
		tested := false
		for _, u := range referrers(bo) {
			if cmp, ok := u.(*ssa.BinOp); ok && (cmp.Op == token.LSS || cmp.Op == token.GTR || cmp.Op == token.LEQ || cmp.Op == token.GEQ) {
				tested = true
			}
		}
		r.Check(rule, "Counter.add/sum tested for wrap-around", m.Pos(bo.Pos()), tested, "every old+n that can be installed must be compared with old (sum < old ⇒ saturate); an untested sum wraps at 2^64")
	}
	// … or the sum is made by bits.Add64, whose carry is the overflow test
	for _, cs := range callsIn(add, "math/bits.Add64") {
		cl, ok := cs.(*ssa.Call)
		if !ok || len(loadsOf(cl)) == 0 {
			continue
		}
		nAdd++
		tested := false
		for _, u := range referrers(cl) {
			if e, isE := u.(*ssa.Extract); isE && e.Index == 1 {
				for _, u2 := range referrers(e) {
					if cmp, ok := u2.(*ssa.BinOp); ok {
						switch cmp.Op {
						case token.NEQ, token.EQL, token.GTR, token.LSS, token.GEQ, token.LEQ:
							tested = true
						}
					}
				}
			}
		}
		r.Check(rule, "Counter.add/sum tested for wrap-around", m.Pos(cl.Pos()), tested, "the carry of bits.Add64 must be tested (carry ⇒ saturate)")
	}
	r.Check(rule, "Counter.add/sums enumerated", m.Pos(add.Pos()), nAdd >= 1, fmt.Sprintf("%d", nAdd))
}

// constExpr: v is computed from compile-time constants only (operators, conversions, and calls
// of this module's read-only functions such as round).
func constExpr(v ssa.Value, depth int) bool {
	if depth > 6 {
		return false
	}
	switch x := v.(type) {
	case *ssa.Const:
		return true
	case *ssa.BinOp:
		return constExpr(x.X, depth+1) && constExpr(x.Y, depth+1)
	case *ssa.Convert:
		return constExpr(x.X, depth+1)
	case *ssa.ChangeType:
		return constExpr(x.X, depth+1)
	case *ssa.Call:
		if x.Call.IsInvoke() || !pureCallee(&x.Call) {
			return false
		}
		for _, a := range x.Call.Args {
			if !constExpr(a, depth+1) {
				return false
			}
		}
		return true
	}
	return false
}

// c04LookupGuard: lookup's guard against cyclic chains must admit every well-formed chain. A
// chain can hold one record per recordUnit bytes of file, files grow without bound, and several
// processes add to one bucket: the bound must be derived from the mapping's length
// (len(Data)/K with K at most the smallest record), not be a constant.
func c04LookupGuard(c *Ctx, m *Module, rule string) {
	r := c.R
	lk := m.Func("internal/counter", "mappedFile.lookup")
	n := 0
	for _, b := range lk.Blocks {
		ifi, ok := b.Instrs[len(b.Instrs)-1].(*ssa.If)
		if !ok {
			continue
		}
		bo, ok := ifi.Cond.(*ssa.BinOp)
		if !ok {
			continue
		}
		// a comparison of a loop counter (a phi that is incremented) with a bound
		var bound ssa.Value
		isCounter := func(v ssa.Value) bool {
			phi, ok := strip(v).(*ssa.Phi)
			if !ok {
				return false
			}
			for _, e := range phi.Edges {
				if inc, ok := strip(e).(*ssa.BinOp); ok && inc.Op == token.ADD && strip(inc.X) == ssa.Value(phi) {
					return true
				}
			}
			// (the counter may be stepped inside an expanded helper that reports through a flag)
			for _, l := range naturalLoops(lk) {
				if l.header == phi.Block() && l.induction(phi) != nil {
					return true
				}
			}
			return false
		}
		switch {
		case isCounter(bo.X) && (bo.Op == token.GTR || bo.Op == token.GEQ):
			bound = bo.Y
		case isCounter(bo.Y) && (bo.Op == token.LSS || bo.Op == token.LEQ):
			bound = bo.X
		default:
			continue
		}
		n++
		d := describe(bound)
		okB := false
		if q, ok := strip(bound).(*ssa.BinOp); ok && q.Op == token.QUO {
			if k, isC := intConst(q.Y); isC && k >= 1 && k <= 32 && strings.HasSuffix(describe(q.X), "mapping.Data)") && strings.HasPrefix(describe(q.X), "builtin:len(") {
				okB = true
			}
		}
		r.Check(rule, fmt.Sprintf("lookup/cycle guard #%d is bounded by the mapping's size", n), m.Pos(bo.Pos()), okB,
			"a walk may be given up as cyclic only after more steps than the file can hold records: len(mapping.Data)/K, K ≤ 32; got "+shortDesc(d))
	}
	r.Check(rule, "lookup/has a cycle guard", m.Pos(lk.Pos()), n >= 1, "the chain walk must be bounded (a cyclic chain would hang the caller)")
}

// c04OpenRejects: openMapped turns a file away only because a system call failed or because the
// file's header is not the one this process writes. A file that is merely short — empty, or left
// by an opener that died between its two initial writes — is (re-)established, never refused:
// refusing it would lock every surviving process out for the rest of the week.
func c04OpenRejects(c *Ctx, m *Module, rule string) {
	r := c.R
	om := m.Func("internal/counter", "openMapped")
	n := 0
	for _, ex := range exitPaths(om) {
		v := strip(refine(ex.vals[0], ex.facts))
		if k, isC := v.(*ssa.Const); !isC || !k.IsNil() {
			continue
		}
		// refusals after the file was mapped are the header verification (c09HeaderVerified decides
		// when openMapped may succeed); this rule is about the file being established
		mapped := false
		for _, cs := range callsIn(om) {
			if cl, isCall := cs.(*ssa.Call); isCall && ex.passes(cs) {
				if tup, isT := cl.Type().(*types.Tuple); isT && tup.Len() == 2 && strings.Contains(tup.At(0).Type().String(), "mmap.Data") {
					mapped = true
				}
			}
		}
		if mapped {
			continue
		}
		n++
		why := ""
		for _, f := range ex.facts {
			switch x := f.Cond.(type) {
			case *ssa.BinOp:
				// err != nil of some call
				if (x.Op == token.NEQ && f.Pol || x.Op == token.EQL && !f.Pol) && isNilConst(x.Y) {
					if _, isErr := x.X.Type().Underlying().(*types.Interface); isErr {
						if dependsOnCall(x.X) {
							why = "a call failed"
						}
					}
				}
			case *ssa.Call:
				cn := calleeName(&x.Call)
				if (cn == "bytes.Equal" || cn == "bytes.HasPrefix") && !f.Pol {
					why = "header mismatch"
				}
			}
		}
		if why == "" {
			// … or the file is still short after this call wrote the header and the reserved tail
			nW := 0
			for _, cs := range callsIn(om, "(*os.File).WriteAt") {
				if ex.passes(cs) {
					nW++
				}
			}
			if nW >= 2 {
				why = "still short after both initial writes"
			}
		}
		r.Check(rule, fmt.Sprintf("openMapped/refusal #%d has a cause", n), m.Pos(ex.ret.Pos()), why != "",
			"openMapped may fail only when a system call failed or the header differs; a short file is re-established, not refused")
	}
	r.Check(rule, "openMapped/refusals enumerated", m.Pos(om.Pos()), n >= 3, fmt.Sprintf("%d", n))
}

// dependsOnCall: v is (a phi of) error results of calls.
func dependsOnCall(v ssa.Value) bool { return dependsOnCallS(v, map[ssa.Value]bool{}) }

func dependsOnCallS(v ssa.Value, seen map[ssa.Value]bool) bool {
	if seen[v] {
		return true
	}
	seen[v] = true
	switch x := strip(v).(type) {
	case *ssa.Extract:
		_, ok := x.Tuple.(*ssa.Call)
		return ok
	case *ssa.Call:
		return true
	case *ssa.Phi:
		for _, e := range x.Edges {
			if !isNilConst(e) && !dependsOnCallS(e, seen) {
				return false
			}
		}
		return true
	case *ssa.UnOp:
		if a, ok := x.X.(*ssa.Alloc); ok && x.Op == token.MUL {
			for _, u := range referrers(a) {
				if st, ok := u.(*ssa.Store); ok && st.Addr == ssa.Value(a) && !isNilConst(st.Val) && !dependsOnCallS(st.Val, seen) {
					return false
				}
			}
			return true
		}
	}
	return false
}
