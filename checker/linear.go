package main

// E9: a small linear-arithmetic entailment engine over SSA integer values.
// Values are normalised to linear forms Σ coef·term + k over opaque terms (canonical
// describe() strings). A goal "G ≥ 0" is proven when G equals the sum of at most
// three known facts (each a linear form ≥ 0) plus non-negative terms and a
// non-negative constant. Sound but incomplete; unproven ⇒ the obligation fails.
//
// Arithmetic is treated as mathematical (no wrap-around): obligations are stated
// on guards the code evaluates in int64, and rounding of file-controlled uint32
// values is covered by a separate wrap rule (C05.wrap).

import (
	"fmt"
	"go/constant"
	"go/token"
	"go/types"
	"sort"
	"strings"

	"golang.org/x/tools/go/ssa"
)

type lin struct {
	coef map[string]int64
	k    int64
}

func linConst(k int64) lin { return lin{map[string]int64{}, k} }
func linTerm(t string) lin { return lin{map[string]int64{t: 1}, 0} }

func (a lin) add(b lin, sign int64) lin {
	r := lin{map[string]int64{}, a.k + sign*b.k}
	for t, c := range a.coef {
		r.coef[t] = c
	}
	for t, c := range b.coef {
		r.coef[t] += sign * c
		if r.coef[t] == 0 {
			delete(r.coef, t)
		}
	}
	return r
}

func (a lin) scale(n int64) lin {
	r := lin{map[string]int64{}, a.k * n}
	for t, c := range a.coef {
		r.coef[t] = c * n
	}
	return r
}

func (a lin) String() string {
	var ts []string
	for t := range a.coef {
		ts = append(ts, t)
	}
	sort.Strings(ts)
	var parts []string
	for _, t := range ts {
		c := a.coef[t]
		switch c {
		case 1:
			parts = append(parts, "+"+t)
		case -1:
			parts = append(parts, "-"+t)
		default:
			parts = append(parts, fmt.Sprintf("%+d*%s", c, t))
		}
	}
	parts = append(parts, fmt.Sprintf("%+d", a.k))
	return strings.Join(parts, " ")
}

type prover struct {
	ctx    []Fact          // facts at the obligation being proved (set by at)
	nonneg map[string]bool // terms known ≥ 0 (lengths, unsigned values)
	memo   map[ssa.Value]lin
	extra  []lin // facts discovered while normalising (contracts)
	notes  map[string]bool
	// minFuncs: repo functions verified (by the caller) to return the smaller argument
	minFuncs map[string]bool
}

func newProver() *prover {
	return &prover{nonneg: map[string]bool{}, memo: map[ssa.Value]lin{}, notes: map[string]bool{}}
}

func isUnsigned(t types.Type) bool {
	b, ok := t.Underlying().(*types.Basic)
	return ok && b.Info()&types.IsUnsigned != 0
}

func isInteger(t types.Type) bool {
	b, ok := t.Underlying().(*types.Basic)
	return ok && b.Info()&types.IsInteger != 0
}

// lenTerm is the canonical term for len(x).
func (p *prover) lenOf(x ssa.Value) lin {
	x = strip(x)
	switch v := x.(type) {
	case *ssa.MakeSlice:
		return p.norm(v.Len)
	case *ssa.Const:
		if v.Value != nil && v.Value.Kind() == constant.String {
			return linConst(int64(len(constant.StringVal(v.Value))))
		}
	case *ssa.Slice:
		// len(x[lo:hi]) = hi - lo
		var hi lin
		if v.High != nil {
			hi = p.norm(v.High)
		} else {
			hi = p.lenOf(v.X)
		}
		lo := linConst(0)
		if v.Low != nil {
			lo = p.norm(v.Low)
		}
		return hi.add(lo, -1)
	case *ssa.Convert:
		// string(bytes) / []byte(string) preserve length
		if isStringy(v.Type()) || isByteSlice(v.Type()) {
			if isStringy(v.X.Type()) || isByteSlice(v.X.Type()) {
				return p.lenOf(v.X)
			}
		}
	case *ssa.BinOp:
		if v.Op == token.ADD && isStringy(v.Type()) {
			return p.lenOf(v.X).add(p.lenOf(v.Y), 1)
		}
	case *ssa.UnOp:
		if v.Op == token.MUL {
			if pt, ok := v.X.Type().Underlying().(*types.Pointer); ok {
				if arr, ok := pt.Elem().Underlying().(*types.Array); ok {
					return linConst(arr.Len())
				}
			}
		}
	}
	if pt, ok := x.Type().Underlying().(*types.Pointer); ok {
		if arr, ok := pt.Elem().Underlying().(*types.Array); ok {
			return linConst(arr.Len())
		}
	}
	if arr, ok := x.Type().Underlying().(*types.Array); ok {
		return linConst(arr.Len())
	}
	t := "len(" + describe(x) + ")"
	p.nonneg[t] = true
	return linTerm(t)
}

func isByteSlice(t types.Type) bool {
	s, ok := t.Underlying().(*types.Slice)
	if !ok {
		return false
	}
	b, ok := s.Elem().Underlying().(*types.Basic)
	return ok && b.Kind() == types.Uint8
}

// norm normalises an integer SSA value.
func (p *prover) norm(v ssa.Value) lin {
	v = strip(v)
	// a merged value is the one value the facts at the obligation leave possible
	if phi, ok := v.(*ssa.Phi); ok && p.ctx != nil {
		loopCarried := false
		for _, pred := range phi.Block().Preds {
			if phi.Block().Dominates(pred) {
				loopCarried = true // its operands are defined in terms of itself
			}
		}
		if !loopCarried {
			if rv := refine(phi, p.ctx); rv != ssa.Value(phi) {
				v = strip(rv)
			}
		}
	}
	if l, ok := p.memo[v]; ok {
		return l
	}
	l := p.norm1(v)
	p.memo[v] = l
	return l
}

func (p *prover) opaque(v ssa.Value) lin {
	t := describe(v)
	if isUnsigned(v.Type()) {
		p.nonneg[t] = true
	}
	return linTerm(t)
}

func (p *prover) norm1(v ssa.Value) lin {
	switch x := v.(type) {
	case *ssa.Const:
		if n, ok := intConst(x); ok {
			return linConst(n)
		}
	case *ssa.Convert:
		if isInteger(x.Type()) && isInteger(x.X.Type()) {
			return p.norm(x.X)
		}
	case *ssa.BinOp:
		switch x.Op {
		case token.ADD:
			if isInteger(x.Type()) {
				return p.norm(x.X).add(p.norm(x.Y), 1)
			}
		case token.SUB:
			if isInteger(x.Type()) {
				return p.norm(x.X).add(p.norm(x.Y), -1)
			}
		case token.MUL:
			if n, ok := intConst(x.Y); ok {
				return p.norm(x.X).scale(n)
			}
			if n, ok := intConst(x.X); ok {
				return p.norm(x.Y).scale(n)
			}
		case token.AND:
			// x & mask with a non-negative constant mask: 0 ≤ r ≤ mask
			if n, ok := intConst(x.Y); ok && n >= 0 {
				t := describe(v)
				p.nonneg[t] = true
				p.extra = append(p.extra, linConst(n).add(linTerm(t), -1)) // mask - r ≥ 0
				return linTerm(t)
			}
		case token.REM:
			if n, ok := intConst(x.Y); ok && n > 0 && isUnsigned(x.Type()) {
				t := describe(v)
				p.nonneg[t] = true
				p.extra = append(p.extra, linConst(n-1).add(linTerm(t), -1))
				return linTerm(t)
			}
		}
	case *ssa.Call:
		n := calleeName(&x.Call)
		switch n {
		case "builtin:len":
			return p.lenOf(argsOf(x)[0])
		case "builtin:min":
			t := describe(v)
			for _, a := range argsOf(x) {
				p.extra = append(p.extra, p.norm(a).add(linTerm(t), -1)) // a - r ≥ 0
			}
			return linTerm(t)
		case "strings.Index", "strings.LastIndex", "strings.IndexByte", "strings.LastIndexByte", "bytes.IndexByte", "bytes.Index", "bytes.LastIndex", "strings.IndexRune":
			// -1 ≤ r ; r + 1 ≤ len(s)  (r < len(s))
			t := describe(v)
			r := linTerm(t)
			p.extra = append(p.extra, r.add(linConst(1), 1))                                 // r + 1 ≥ 0
			p.extra = append(p.extra, p.lenOf(argsOf(x)[0]).add(r, -1).add(linConst(1), -1)) // len - r - 1 ≥ 0
			p.notes["contract: "+n+" returns -1 ≤ r < len(s)"] = true
			return r
		case "os.Getpagesize":
			t := describe(v)
			p.nonneg[t] = true
			p.extra = append(p.extra, linTerm(t).add(linConst(1), -1))
			p.notes["contract: os.Getpagesize() ≥ 1"] = true
			return linTerm(t)
		case "(io/fs.FileInfo).Size", "(os.FileInfo).Size":
			t := describe(v)
			p.nonneg[t] = true
			p.notes["contract: FileInfo.Size() ≥ 0 for regular files"] = true
			return linTerm(t)
		case "runtime.Callers":
			t := describe(v)
			r := linTerm(t)
			p.nonneg[t] = true
			p.extra = append(p.extra, p.lenOf(argsOf(x)[1]).add(r, -1))
			p.notes["contract: runtime.Callers(skip, pcs) returns 0 ≤ n ≤ len(pcs)"] = true
			return r
		}
		if p.minFuncs[n] || verifiedMinFuncs[n] {
			t := describe(v)
			allNN := true
			for _, a := range argsOf(x) {
				la := p.norm(a)
				p.extra = append(p.extra, la.add(linTerm(t), -1))
				if !p.isNonneg(la) {
					allNN = false
				}
			}
			if allNN {
				p.nonneg[t] = true // the result is one of the (non-negative) arguments
			}
			return linTerm(t)
		}
		if strings.HasPrefix(n, "internal/counter.round[") {
			// round(x, unit): x ≤ r ≤ x + unit - 1 (unit a power of two; no wrap assumed here, see C05.wrap)
			t := describe(v)
			r := linTerm(t)
			xa := p.norm(argsOf(x)[0])
			p.extra = append(p.extra, r.add(xa, -1))
			if u, ok := intConst(argsOf(x)[1]); ok {
				p.extra = append(p.extra, xa.add(linConst(u-1), 1).add(r, -1))
			}
			if isUnsigned(v.Type()) {
				p.nonneg[t] = true
			}
			p.notes["contract: round(x, unit) returns x ≤ r < x + unit"] = true
			return r
		}
	case *ssa.Extract:
		// key of a range over a string: 0 ≤ i < len(s)
		if nx, ok := x.Tuple.(*ssa.Next); ok && x.Index == 1 {
			if rg, ok := nx.Iter.(*ssa.Range); ok && isStringy(rg.X.Type()) {
				t := describe(v)
				p.nonneg[t] = true
				p.extra = append(p.extra, p.lenOf(rg.X).add(linTerm(t), -1).add(linConst(1), -1))
				p.notes["contract: the key of a range over a string is a valid byte index"] = true
				return linTerm(t)
			}
		}
	case *ssa.Phi:
		// induction variable: edges are constants and (phi + positive constant) ⇒ phi ≥ min constant
		t := describe(v)
		min := int64(1 << 62)
		ok := len(x.Edges) > 0
		for _, e := range x.Edges {
			if c, isC := intConst(e); isC {
				if _, isConst := strip(e).(*ssa.Const); isConst {
					if c < min {
						min = c
					}
					continue
				}
			}
			if bo, isB := strip(e).(*ssa.BinOp); isB && bo.Op == token.ADD {
				if c, isC := intConst(bo.Y); isC && c > 0 && strip(bo.X) == ssa.Value(x) {
					continue
				}
			}
			ok = false
		}
		if ok && min < 1<<62 {
			p.extra = append(p.extra, linTerm(t).add(linConst(min), -1)) // phi - min ≥ 0
		}
		if isUnsigned(v.Type()) {
			p.nonneg[t] = true
		}
		return linTerm(t)
	}
	return p.opaque(v)
}

// hdrLenBound is the invariant established by C05.hdrlen-bounded: every value ever stored
// into mappedFile.hdrLen is at most pageSize.
const hdrLenBound = 16384

// invariantFacts: global invariants about terms occurring in l.
func (p *prover) invariantFacts(l lin) []lin {
	var out []lin
	for t := range l.coef {
		if strings.HasSuffix(t, ".hdrLen") {
			out = append(out, linConst(hdrLenBound).add(linTerm(t), -1))
		}
	}
	return out
}

// wrapSafe: every unsigned sub-word addition/multiplication inside v that has a
// non-constant operand provably stays below 2^32 (so treating it as mathematical
// arithmetic is sound). A guard computed in wrapping arithmetic proves nothing.
func (p *prover) wrapSafe(v ssa.Value, depth int) bool {
	v = strip(v)
	if depth > 20 {
		return false
	}
	switch x := v.(type) {
	case *ssa.Convert:
		return p.wrapSafe(x.X, depth+1)
	case *ssa.BinOp:
		if x.Op != token.ADD && x.Op != token.MUL && x.Op != token.SUB {
			return true
		}
		if !p.wrapSafe(x.X, depth+1) || !p.wrapSafe(x.Y, depth+1) {
			return false
		}
		bt, ok := x.Type().Underlying().(*types.Basic)
		if !ok || bt.Info()&types.IsUnsigned == 0 {
			return true // signed / 64-bit int arithmetic: the code's int64 guards
		}
		if bt.Kind() == types.Uint64 || bt.Kind() == types.Uint || bt.Kind() == types.Uintptr {
			return true
		}
		_, c1 := intConst(x.X)
		_, c2 := intConst(x.Y)
		if c1 && c2 {
			return true
		}
		if x.Op == token.SUB {
			return false // may wrap below zero; never relied upon
		}
		l := p.norm(x)
		limit := linConst(1<<32-1).add(l, -1)
		ok2, _ := p.proveFrom(limit, p.invariantFacts(l))
		return ok2
	}
	return true
}

// factLin converts a fact (comparison known true/false) into linear forms ≥ 0.
func (p *prover) factLin(f Fact) []lin {
	if bo, ok := f.Cond.(*ssa.BinOp); ok && isInteger(bo.X.Type()) {
		if !p.wrapSafe(bo.X, 0) || !p.wrapSafe(bo.Y, 0) {
			p.notes["ignored a guard evaluated in wrapping 32-bit unsigned arithmetic: "+describe(bo)] = true
			return nil
		}
	}
	b, ok := f.Cond.(*ssa.BinOp)
	if !ok {
		// strings.HasPrefix(s, p) true ⇒ len(p) ≤ len(s)
		if c, ok := f.Cond.(*ssa.Call); ok && f.Pol {
			switch calleeName(&c.Call) {
			case "strings.HasPrefix", "strings.HasSuffix", "bytes.HasPrefix", "bytes.HasSuffix":
				p.notes["contract: HasPrefix/HasSuffix(s, p) ⇒ len(p) ≤ len(s)"] = true
				return []lin{p.lenOf(argsOf(c)[0]).add(p.lenOf(argsOf(c)[1]), -1)}
			case "bytes.Equal":
				p.notes["contract: bytes.Equal(a, b) ⇒ len(a) = len(b)"] = true
				la, lb := p.lenOf(argsOf(c)[0]), p.lenOf(argsOf(c)[1])
				return []lin{la.add(lb, -1), lb.add(la, -1)}
			}
		}
		return nil
	}
	if !isInteger(b.X.Type()) || !isInteger(b.Y.Type()) {
		// string == "" ⇒ len = 0 ; string != "" ⇒ len ≥ 1
		if isStringy(b.X.Type()) {
			if k, isC := constOf(b.Y); isC && k == "" {
				eq := (b.Op == token.EQL) == f.Pol
				if b.Op == token.EQL || b.Op == token.NEQ {
					if eq {
						return []lin{p.lenOf(b.X).scale(-1)}
					}
					return []lin{p.lenOf(b.X).add(linConst(1), -1)}
				}
			}
		}
		return nil
	}
	x, y := p.norm(b.X), p.norm(b.Y)
	op := b.Op
	if !f.Pol {
		op = map[token.Token]token.Token{token.LSS: token.GEQ, token.LEQ: token.GTR, token.GTR: token.LEQ, token.GEQ: token.LSS, token.EQL: token.NEQ, token.NEQ: token.EQL}[op]
	}
	switch op {
	case token.LSS: // x < y  ⇒ y - x - 1 ≥ 0
		return []lin{y.add(x, -1).add(linConst(1), -1)}
	case token.LEQ:
		return []lin{y.add(x, -1)}
	case token.GTR:
		return []lin{x.add(y, -1).add(linConst(1), -1)}
	case token.GEQ:
		return []lin{x.add(y, -1)}
	case token.EQL:
		return []lin{x.add(y, -1), y.add(x, -1)}
	case token.NEQ:
		// x != 0 for a non-negative x ⇒ x ≥ 1
		if len(y.coef) == 0 && y.k == 0 && p.isNonneg(x) {
			return []lin{x.add(linConst(1), -1)}
		}
		if len(x.coef) == 0 && x.k == 0 && p.isNonneg(y) {
			return []lin{y.add(linConst(1), -1)}
		}
	}
	return nil
}

func (p *prover) isNonneg(l lin) bool {
	if l.k < 0 {
		return false
	}
	for t, c := range l.coef {
		if c < 0 || !p.nonneg[t] {
			return false
		}
	}
	return true
}

// prove: goal ≥ 0 follows from facts (each ≥ 0), non-negativity of terms and constants.
func (p *prover) prove(goal lin, facts []lin) (bool, string) {
	return p.proveFrom(goal, append(append([]lin{}, facts...), p.invariantFacts(goal)...))
}

func (p *prover) proveFrom(goal lin, facts []lin) (bool, string) {
	all := append(append([]lin{}, facts...), p.extra...)
	if p.isNonneg(goal) {
		return true, "by non-negativity"
	}
	n := len(all)
	for i := 0; i < n; i++ {
		g1 := goal.add(all[i], -1)
		if p.isNonneg(g1) {
			return true, "using {" + all[i].String() + " ≥ 0}"
		}
	}
	for i := 0; i < n; i++ {
		g1 := goal.add(all[i], -1)
		for j := i; j < n; j++ {
			g2 := g1.add(all[j], -1)
			if p.isNonneg(g2) {
				return true, "using {" + all[i].String() + " ≥ 0, " + all[j].String() + " ≥ 0}"
			}
		}
	}
	if n <= 40 {
		for i := 0; i < n; i++ {
			g1 := goal.add(all[i], -1)
			for j := i; j < n; j++ {
				g2 := g1.add(all[j], -1)
				for k := j; k < n; k++ {
					if p.isNonneg(g2.add(all[k], -1)) {
						return true, "using three facts"
					}
				}
			}
		}
	}
	return false, "not entailed: need " + goal.String() + " ≥ 0 from " + fmt.Sprintf("%d facts", n)
}

// factsLinAt collects the linear facts holding at an instruction.
func (p *prover) factsLinAt(in ssa.Instruction) []lin {
	var out []lin
	for _, f := range factsAt(in) {
		out = append(out, p.factLin(f)...)
	}
	return out
}

// verifiedMinFuncs: repo functions whose bodies a rule has verified to return the smaller argument.
var verifiedMinFuncs = map[string]bool{}

// at sets the program point of the obligation: merged values are resolved by the facts there.
func (p *prover) at(in ssa.Instruction) *prover {
	p.ctx = factsAt(in)
	if p.ctx == nil {
		p.ctx = []Fact{}
	}
	return p
}
