package main

// C06 — reading a counter file is total and faithful (structural part).

import (
	"fmt"
	"os"
	"regexp"
	"sort"
	"strconv"
	"strings"

	"golang.org/x/tools/go/ssa"
)

func init() {
	register("C06", &propDef{
		run:    runC06,
		matrix: true,
		decided: []string{
			"every index, slice and widened unsafe access reachable from Parse is entailed in range by dominating guards (linear entailment over the guards the code evaluates)",
			"every loop reachable from Parse has a progress measure (range, counted, or a visited set tested and inserted with the same key on every iteration)",
			"no explicit panic/exit reachable from Parse; one decoder: all readers go through counter.Parse and no other package reinterprets file bytes",
			"faithfulness shape: all buckets walked, every visited record recorded with its loaded value under its once-decoded name, rejections only for the tabled reasons",
		},
		notDecided: []string{"agreement with an independent decoder of the documented layout (needs execution)", "alignment of file-controlled offsets for 64-bit atomics on 32-bit platforms"},
	})
}

func parseReach(m *Module) []*ssa.Function {
	parse := m.Func("internal/counter", "Parse")
	chains := m.reach([]*ssa.Function{parse}, nil)
	var out []*ssa.Function
	for f := range chains {
		if f.Blocks == nil {
			continue
		}
		p := f.Pkg
		if p == nil && f.Origin() != nil {
			p = f.Origin().Pkg
		}
		if p == nil && f.Parent() != nil {
			p = f.Parent().Pkg
		}
		if p != nil && strings.HasPrefix(p.Pkg.Path(), modPath) {
			out = append(out, f)
		}
	}
	sort.Slice(out, func(i, j int) bool { return out[i].String() < out[j].String() })
	return out
}

func runC06(c *Ctx) {
	c10LengthWord(c, c.Root(), "C06.faithful")
	c15DecodeResult(c, c.Root(), "C06.faithful")
	c06InvalidRecordRejects(c, c.Root(), "C06.faithful")
	c10HeaderLenRange(c, c.Root(), "C06.faithful")

	m := c.Root()
	r := c.R
	parse := m.Func("internal/counter", "Parse")
	fns := parseReach(m)
	var names []string
	for _, f := range fns {
		names = append(names, fname(f))
	}
	r.Analysed["functions_reachable_from_Parse"] = names

	nB, nL := 0, 0
	for _, f := range fns {
		nB += boundsObligations(r, m, "C06.bounds", f, nil)
		nL += loopObligations(r, m, "C06.termination", f, nil)
	}
	r.Check("C06.bounds", "obligations enumerated", m.Pos(parse.Pos()), nB >= 8, fmt.Sprintf("%d index/slice obligations (floor 8)", nB))
	r.Check("C06.termination", "loops enumerated", m.Pos(parse.Pos()), nL >= 3, fmt.Sprintf("%d loops (floor 3)", nL))

	// no explicit panics / exits
	for _, f := range fns {
		for _, in := range instrsOf(f) {
			if p, ok := in.(*ssa.Panic); ok {
				r.Check("C06.no-panic-calls", fname(f)+"/explicit panic", m.Pos(p.Pos()), false, "decoding must not panic: "+describe(p.X))
			}
			if cc := callOf(in); cc != nil {
				n := calleeName(cc)
				if n == "os.Exit" || strings.HasPrefix(n, "log.Fatal") || strings.HasPrefix(n, "log.Panic") {
					r.Check("C06.no-panic-calls", fname(f)+"/"+n, m.Pos(in.Pos()), false, "decoding must not exit the process")
				}
			}
		}
	}
	r.Check("C06.no-panic-calls", "functions scanned", m.Pos(parse.Pos()), len(fns) >= 5, fmt.Sprintf("%d functions", len(fns)))

	// one decoder
	for _, fn := range m.srcFns {
		p := ""
		if fn.Pkg != nil {
			p = short(fn.Pkg.Pkg.Path())
		}
		if p == "internal/counter" || p == "internal/mmap" || p == "" {
			continue
		}
		for _, in := range instrsOf(fn) {
			if cv, ok := in.(*ssa.Convert); ok && cv.Type().String() == "unsafe.Pointer" {
				if _, isIA := cv.X.(*ssa.IndexAddr); isIA {
					r.Check("C06.one-decoder", "unsafe reinterpretation of bytes in "+fname(fn), m.Pos(cv.Pos()), false, "only internal/counter may reinterpret counter-file bytes")
				}
			}
		}
	}
	for _, reader := range [][2]string{{"internal/upload", "uploader.parseCountFile"}, {"cmd/gotelemetry", "runDump"}, {"cmd/gotelemetry/internal/view", "readCounterFiles"}} {
		fn := m.FuncOpt(reader[0], reader[1])
		if fn == nil {
			// the viewer's reader may be named differently; find any function of the package calling counter.Parse
			found := false
			for _, f := range m.PkgFuncs(reader[0]) {
				if len(callsIn(f, "internal/counter.Parse")) > 0 {
					found = true
				}
			}
			r.Check("C06.one-decoder", reader[0]+" decodes through counter.Parse", "-", found, "every reader of counter files must call counter.Parse")
			continue
		}
		r.Check("C06.one-decoder", fname(fn)+" decodes through counter.Parse", m.Pos(fn.Pos()), len(callsInAll(fn, "internal/counter.Parse")) >= 1, "every reader of counter files must call counter.Parse")
	}

	c06Shape(c, m, parse)
	c05HdrLen(c, m)
	if c.Tier == "thorough" && c.goos == "linux" && c.arch == "amd64" {
		c05BCE(c, m, "C06.bce-crosscheck", []string{"internal/counter"}, fns)
	}
}

func c06Shape(c *Ctx, m *Module, parse *ssa.Function) {
	r := c.R
	loops := naturalLoops(parse)
	// the chain walk: the loop containing the entryAt call
	var walk, buckets *loopInfo
	var entry *ssa.Call
	for _, cs := range callsIn(parse, "(*internal/counter.mappedFile).entryAt") {
		entry = cs.(*ssa.Call)
	}
	r.Check("C06.shared-accessors", "Parse/reads records through entryAt", m.Pos(parse.Pos()), entry != nil, "Parse must use the writer's own bounds-checked accessor")
	if entry == nil {
		return
	}
	for _, l := range loops {
		if l.blocks[entry.Block()] {
			if walk == nil || len(l.blocks) < len(walk.blocks) {
				walk = l
			}
		}
	}
	for _, l := range loops {
		if l != walk && walk != nil && l.blocks[walk.header] {
			buckets = l
		}
	}
	r.Check("C06.shared-accessors", "Parse/chain walk inside a bucket loop", m.Pos(parse.Pos()), walk != nil && buckets != nil, "expected: for each bucket { walk its chain }")
	if walk == nil || buckets == nil {
		return
	}
	// bucket loop: counted against numHash, head = load32(hdrLen + hashOff + 4*i)
	cl := classifyLoop(buckets)
	numHash := m.ConstVal("internal/counter", "numHash")
	r.Check("C06.shared-accessors", "Parse/walks all numHash buckets", m.Pos(loopPos(buckets)), cl.Kind == "counted" && strings.HasSuffix(cl.Detail, "bound "+numHash+", tested every iteration"),
		"the bucket loop must run i = 0 … numHash-1; classified: "+cl.Kind+" "+cl.Detail)
	for _, cs := range callsIn(parse, "(*internal/counter.mappedFile).load32") {
		if !buckets.blocks[cs.Block()] || walk.blocks[cs.Block()] {
			continue
		}
		p := newProver()
		off := p.norm(argsOf(cs)[1])
		// expect hdrLen + hashOff + 4*i
		hashOff := m.ConstVal("internal/counter", "hashOff")
		okShape := false
		var four, one int
		for t, cf := range off.coef {
			if cf == 4 && strings.HasPrefix(t, "phi:") {
				four++
			}
			if cf == 1 {
				one++
				_ = t
			}
		}
		okShape = four == 1 && one == 1 && fmt.Sprint(off.k) == hashOff
		r.Check("C06.shared-accessors", "Parse/bucket head offset", m.Pos(cs.Pos()), okShape, "bucket i's head is at hdrLen + hashOff + 4·i; got "+off.String())
	}
	// every iteration of the walk records the record: MapUpdate into f.Count executed every iteration,
	// value = Load() of entryAt's value result, key = DecodeStack(string(name result)) exactly once
	var upd *ssa.MapUpdate
	for b := range walk.blocks {
		for _, in := range b.Instrs {
			if mu, ok := in.(*ssa.MapUpdate); ok {
				if _, f, ok := fieldLoad(mu.Map); ok && f == "Count" {
					upd = mu
				}
			}
		}
	}
	r.Check("C06.faithful", "Parse/records every visited record", m.Pos(loopPos(walk)), upd != nil && walk.everyIteration(upd.Block()),
		"the store into File.Count must execute on every iteration of the chain walk (no record may be skipped)")
	if upd != nil {
		vd := describe(upd.Value)
		r.Check("C06.faithful", "Parse/recorded value is the record's loaded value", m.Pos(upd.Pos()),
			strings.HasPrefix(vd, "(*sync/atomic.Uint64).Load((*internal/counter.mappedFile).entryAt(") && strings.HasSuffix(vd, "#2)"), "got "+vd)
		kd := describe(upd.Key)
		okKey := strings.HasPrefix(kd, "internal/counter.DecodeStack(conv<string>((*internal/counter.mappedFile).entryAt(") && strings.Count(kd, "DecodeStack") == 1
		r.Check("C06.faithful", "Parse/recorded name is the once-decoded record name", m.Pos(upd.Pos()), okKey, "got "+kd)
	}
	// the walk advances by the record's own next link
	for _, in := range walk.header.Instrs {
		if phi, ok := in.(*ssa.Phi); ok {
			for i, e := range phi.Edges {
				if walk.blocks[walk.header.Preds[i]] {
					d := describe(e)
					if strings.Contains(d, "entryAt(") {
						r.Check("C06.faithful", "Parse/walk follows the next link", m.Pos(loopPos(walk)), strings.HasSuffix(d, "#1"), "the next offset must be entryAt's next result; got "+d)
					}
				}
			}
		}
	}
	// rejections: the path condition of every error return of Parse must IMPLY one of the tabled
	// reasons. The condition is taken relative to the nearest dominator for which the
	// implication holds (any path to the return passes through it), so the nesting, merging or
	// splitting of the guards does not matter.
	reasons := map[string]bool{}
	for _, b := range parse.Blocks {
		ret, ok := b.Instrs[len(b.Instrs)-1].(*ssa.Return)
		if !ok || isNilConst(ret.Results[1]) {
			continue
		}
		held := false
		detail := "unconditional"
		var used []string
		for d, k := b.Idom(), 0; d != nil && k < 8 && !held; d, k = d.Idom(), k+1 {
			fb := newFormulaBuilder()
			fb.root = d
			fb.namer = func(v ssa.Value) (string, bool) {
				if lk := membershipTest(v); lk != nil {
					return "visited(" + describe(lk.Index) + ")", true
				}
				return "", false
			}
			F := fb.reach(b)
			var lits []BExpr
			var why []string
			seenLit := map[string]bool{}
			leaves(F, func(a BExpr) {
				lit, reason := c06AllowedReject(a)
				if lit != nil && !seenLit[lit.String()] {
					seenLit[lit.String()] = true
					lits = append(lits, lit)
					why = append(why, reason)
				}
			})
			detail = "path condition " + shortDesc(F.String())
			if os.Getenv("VERIF_DEBUG_C06") != "" {
				fmt.Printf("C06F root=%d b=%d: %s\n", d.Index, b.Index, F.String())
			}
			if len(lits) == 0 {
				continue
			}
			if ok, _, _ := implies(F, bOr{lits}); ok {
				held = true
				// essential reasons: those without which the implication fails
				for i := range lits {
					rest := append(append([]BExpr{}, lits[:i]...), lits[i+1:]...)
					if ok2, _, _ := implies(F, bOr{rest}); !ok2 || len(lits) == 1 {
						used = append(used, why[i])
						reasons[why[i]] = true
					}
				}
			}
		}
		sort.Strings(used)
		r.Check("C06.faithful", fmt.Sprintf("Parse/rejection #%d is for a tabled reason", len(reasons)*0+retOrdinal(parse, ret)), m.Pos(ret.Pos()), held,
			"Parse may reject only for the tabled reasons (a well-formed file must decode): "+strings.Join(used, " | ")+"; "+detail)
	}
	r.Check("C06.faithful", "Parse/rejection reasons enumerated", m.Pos(parse.Pos()), len(reasons) >= 4, fmt.Sprintf("%d distinct reasons: %v", len(reasons), keysSorted(reasons)))
	// metadata: every non-empty line must contribute its key/value
	for _, in := range instrsOf(parse) {
		if mu, ok := in.(*ssa.MapUpdate); ok {
			if _, f, ok := fieldLoad(mu.Map); ok && f == "Meta" {
				kd, vd := describe(mu.Key), describe(mu.Value)
				r.Check("C06.faithful", "Parse/metadata key and value come from one Cut of the line", m.Pos(mu.Pos()),
					strings.HasPrefix(kd, "strings.Cut(") && strings.HasSuffix(kd, `, ": ")#0`) && strings.HasSuffix(vd, `, ": ")#1`), "got "+kd+" / "+vd)
			}
		}
	}
}

var allowedRejects = map[string]string{
	"len(data) < pageSize":                      "too short to hold a header page",
	"!HasPrefix(data, hdrPrefix)":               "wrong magic",
	"header length out of range":                "hdrLen > pageSize or < prefix",
	"metadata line without ': '":                "malformed metadata",
	"entryAt !ok":                               "record offset/length outside the file",
	"duplicate/cyclic record (visited set hit)": "same raw name seen twice",
}

// c06AllowedReject classifies an atom of a path condition: the literal (atom or its negation)
// that is a tabled reason for rejecting a file, and the reason.
var roundPlusRe = regexp.MustCompile(`^\(internal/counter\.round\[int\]\((\d+), (\d+)\) \+ (\d+)\)$`)

func c06AllowedReject(a BExpr) (BExpr, string) {
	switch x := a.(type) {
	case bOrd:
		d := x.A + " ? " + x.B
		switch {
		case strings.Contains(d, "builtin:len(param:data)") && strings.Contains(d, "16384"):
			if x.A == "16384" {
				return mkOrd(x.A, ">", x.B), "len(data) < pageSize"
			}
			return mkOrd(x.A, "<", x.B), "len(data) < pageSize"
		case strings.Contains(d, "*conv<*uint32>"):
			// a comparison of the header-length word, as the code wrote it
			return a, "header length out of range"
		case x.A == "builtin:len(param:data)" || x.B == "builtin:len(param:data)":
			// shorter than some smaller constant (the length guard of a hand-written prefix
			// test): a fortiori shorter than a page
			other := x.A
			if x.A == "builtin:len(param:data)" {
				other = x.B
			}
			k, err := strconv.Atoi(other)
			if err != nil {
				// round(A, U) + B with constants: at most A + U - 1 + B (contract of round, linear.go)
				if mm := roundPlusRe.FindStringSubmatch(other); mm != nil {
					a, _ := strconv.Atoi(mm[1])
					u, _ := strconv.Atoi(mm[2])
					b, _ := strconv.Atoi(mm[3])
					k, err = a+u-1+b, nil
				}
			}
			if err == nil && k >= 0 && k <= 16384 {
				if x.A == other {
					return mkOrd(x.A, ">", x.B), "len(data) < pageSize"
				}
				return mkOrd(x.A, "<", x.B), "len(data) < pageSize"
			}
		}
	case bBool:
		switch {
		case strings.HasPrefix(x.A, "bytes.HasPrefix(param:data"):
			return bNot{a}, "!HasPrefix(data, hdrPrefix)"
		case strings.HasPrefix(x.A, "strings.Cut(") && strings.HasSuffix(x.A, `, ": ")#2`):
			return bNot{a}, "metadata line without ': '"
		case strings.Contains(x.A, ").entryAt(") && strings.HasSuffix(x.A, "#3"):
			return bNot{a}, "entryAt !ok"
		case strings.HasPrefix(x.A, "visited(conv<string>(") && strings.Contains(x.A, ").entryAt(") && strings.HasSuffix(x.A, "#0))"):
			// keyed by the RAW record name: two distinct raw names may decode to one name
			// (DecodeStack is not injective), and such a file is well formed
			return a, "duplicate/cyclic record (visited set hit)"
		case strings.HasPrefix(x.A, "visited(phi:") && !strings.Contains(x.A, "("+"internal"):
			// keyed by the record offset being walked
			return a, "duplicate/cyclic record (visited set hit)"
		}
	}
	return nil, ""
}

// retOrdinal numbers the returns of fn in block order.
func retOrdinal(fn *ssa.Function, ret *ssa.Return) int {
	n := 0
	for _, b := range fn.Blocks {
		if rt, ok := b.Instrs[len(b.Instrs)-1].(*ssa.Return); ok {
			n++
			if rt == ret {
				return n
			}
		}
	}
	return 0
}

func allocSuffix(string) string { return "" }

// c06InvalidRecordRejects: once a record of a chain is invalid (entryAt reports !ok: an offset
// or a length that does not fit the data), Parse fails — it does not keep what it has read so
// far. A truncated or damaged file must stay "unreadable" for the uploader, which leaves
// unreadable files alone and deletes the ones it could fold (C07).
func c06InvalidRecordRejects(c *Ctx, m *Module, rule string) {
	r := c.R
	parse := m.Func("internal/counter", "Parse")
	n := 0
	for _, cs := range callsIn(parse, "(*internal/counter.mappedFile).entryAt") {
		cl, ok := cs.(*ssa.Call)
		if !ok {
			continue
		}
		var okV ssa.Value
		for _, u := range referrers(cl) {
			if e, isE := u.(*ssa.Extract); isE && e.Index == 3 {
				okV = e
			}
		}
		var starts []walkState
		for _, b := range parse.Blocks {
			ifi, isIf := b.Instrs[len(b.Instrs)-1].(*ssa.If)
			if !isIf || okV == nil {
				continue
			}
			f := normFact(ifi.Cond, true)
			if f.Cond != okV {
				continue
			}
			fail := b.Succs[1]
			if !f.Pol {
				fail = b.Succs[0]
			}
			starts = append(starts, walkState{b, fail, 0})
		}
		n++
		okRule := len(starts) > 0
		where := "the validity of the record is not tested"
		if okRule {
			w := walkWithout(starts, func(in ssa.Instruction) bool {
				ret, isRet := in.(*ssa.Return)
				return isRet && len(ret.Results) == 2 && isNilConst(ret.Results[1])
			}, func(in ssa.Instruction) bool {
				_, isCall := in.(*ssa.Call)
				return isCall && in.(*ssa.Call) == cl // the next record: a new validity test
			})
			// reaching the next entryAt, or a successful return, without an error return in between
			w2 := walkWithout(starts, func(in ssa.Instruction) bool { return in == ssa.Instruction(cl) }, func(ssa.Instruction) bool { return false })
			if w != nil {
				okRule, where = false, "a successful return is reached at "+m.Pos(w.Pos())
			} else if w2 != nil {
				okRule, where = false, "the walk goes on to the next record"
			}
		}
		r.Check(rule, "Parse/an invalid record makes the file unreadable", m.Pos(cl.Pos()), okRule,
			"after entryAt reports an invalid record, Parse must return an error: "+where)
	}
	r.Check(rule, "Parse/record reads enumerated", m.Pos(parse.Pos()), n >= 1, fmt.Sprintf("%d", n))
}
