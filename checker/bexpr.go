package main

// E5: comparison-only evaluator. A boolean SSA value is turned into a formula
// whose leaves are comparisons; the formula is evaluated in every "world" (an
// assignment of an ordering to each compared pair, zero/non-zero to each IsZero
// subject, a constant-partition cell to each integer/string compared with
// constants, a truth value to each opaque atom) and its truth table is compared
// with the table a rule states. No code from /repo runs.

import (
	"fmt"
	"go/constant"
	"go/token"
	"go/types"
	"sort"
	"strings"

	"golang.org/x/tools/go/ssa"
)

type World map[string]int

type BExpr interface {
	Eval(w World) bool
	vars(m map[string][]string) // var -> domain value names
	String() string
}

type bConst bool
type bNot struct{ X BExpr }
type bAnd struct{ Xs []BExpr }
type bOr struct{ Xs []BExpr }

// bOrd: ordering atom over the pair (A,B) with A < B lexicographically; Mask bit0 '<', bit1 '=', bit2 '>'.
type bOrd struct {
	A, B string
	Mask int
}

// bZero: IsZero(A)
type bZero struct{ A string }

// bBool: opaque boolean atom
type bBool struct{ A string }

// bCell: value of term A lies in the set of cells (partition induced by sorted constants Cuts:
// cells are: <c0, =c0, (c0,c1), =c1, ..., >cn). Cells holds the accepted cell indexes.
type bCell struct {
	A     string
	Cuts  []string // printed constants, for display; numeric order established by caller
	Cells map[int]bool
}

// bStr: string term A equals constant K (domain: all constants compared with A in the
// formula, plus "other").
type bStr struct {
	A, K string
}

func (c bConst) Eval(World) bool          { return bool(c) }
func (c bConst) vars(map[string][]string) {}
func (c bConst) String() string {
	if c {
		return "T"
	}
	return "F"
}
func (n bNot) Eval(w World) bool          { return !n.X.Eval(w) }
func (n bNot) vars(m map[string][]string) { n.X.vars(m) }
func (n bNot) String() string             { return "¬" + n.X.String() }
func (a bAnd) Eval(w World) bool {
	for _, x := range a.Xs {
		if !x.Eval(w) {
			return false
		}
	}
	return true
}
func (a bAnd) vars(m map[string][]string) {
	for _, x := range a.Xs {
		x.vars(m)
	}
}
func (a bAnd) String() string { return joinB(a.Xs, " ∧ ") }
func (o bOr) Eval(w World) bool {
	for _, x := range o.Xs {
		if x.Eval(w) {
			return true
		}
	}
	return false
}
func (o bOr) vars(m map[string][]string) {
	for _, x := range o.Xs {
		x.vars(m)
	}
}
func (o bOr) String() string { return joinB(o.Xs, " ∨ ") }
func joinB(xs []BExpr, sep string) string {
	var s []string
	for _, x := range xs {
		s = append(s, x.String())
	}
	return "(" + strings.Join(s, sep) + ")"
}

func ordVar(a, b string) string  { return "ord(" + a + " ? " + b + ")" }
func (o bOrd) Eval(w World) bool { return o.Mask&(1<<uint(w[ordVar(o.A, o.B)])) != 0 }
func (o bOrd) vars(m map[string][]string) {
	m[ordVar(o.A, o.B)] = []string{"<", "=", ">"}
}
func (o bOrd) String() string {
	ops := map[int]string{1: "<", 2: "=", 4: ">", 3: "<=", 6: ">=", 5: "!=", 7: "any", 0: "none"}
	return o.A + " " + ops[o.Mask] + " " + o.B
}

// mkOrd builds an ordering atom "a rel b" with rel in <,<=,=,!=,>=,>; operands are
// put in canonical order.
func mkOrd(a, rel, b string) BExpr {
	mask := map[string]int{"<": 1, "=": 2, "==": 2, ">": 4, "<=": 3, ">=": 6, "!=": 5}[rel]
	if a == b {
		return bConst(mask&2 != 0)
	}
	if a > b {
		a, b = b, a
		// flip
		m2 := mask & 2
		if mask&1 != 0 {
			m2 |= 4
		}
		if mask&4 != 0 {
			m2 |= 1
		}
		mask = m2
	}
	return bOrd{a, b, mask}
}

func (z bZero) Eval(w World) bool          { return w["zero("+z.A+")"] == 1 }
func (z bZero) vars(m map[string][]string) { m["zero("+z.A+")"] = []string{"nonzero", "zero"} }
func (z bZero) String() string             { return "IsZero(" + z.A + ")" }
func (b bBool) Eval(w World) bool          { return w["b("+b.A+")"] == 1 }
func (b bBool) vars(m map[string][]string) { m["b("+b.A+")"] = []string{"false", "true"} }
func (b bBool) String() string             { return b.A }

func (s bStr) Eval(w World) bool { return w["strk("+s.A+")="+s.K] == 1 }
func (s bStr) vars(m map[string][]string) {
	// one boolean per (term, constant); mutual exclusion between distinct constants is
	// enforced when enumerating worlds.
	m["strk("+s.A+")="+s.K] = []string{"no", "yes"}
}
func (s bStr) String() string { return fmt.Sprintf("%s==%q", s.A, s.K) }

func (c bCell) Eval(w World) bool { return c.Cells[w["cell("+c.A+")"]] }
func (c bCell) vars(m map[string][]string) {
	var names []string
	for i, k := range c.Cuts {
		if i == 0 {
			names = append(names, "<"+k)
		} else {
			names = append(names, "("+c.Cuts[i-1]+","+k+")")
		}
		names = append(names, "="+k)
	}
	names = append(names, ">"+c.Cuts[len(c.Cuts)-1])
	m["cell("+c.A+")"] = names
}
func (c bCell) String() string {
	var idx []int
	for i := range c.Cells {
		idx = append(idx, i)
	}
	sort.Ints(idx)
	return fmt.Sprintf("%s∈cells%v/%v", c.A, idx, c.Cuts)
}

// worlds enumerates all assignments for the variables of the given formulas.
func worlds(fs ...BExpr) (names []string, doms map[string][]string, all []World) {
	doms = map[string][]string{}
	for _, f := range fs {
		f.vars(doms)
	}
	for n := range doms {
		names = append(names, n)
	}
	sort.Strings(names)
	total := 1
	for _, n := range names {
		total *= len(doms[n])
		if total > 1<<20 {
			infra("comparison evaluator: too many worlds (%d vars)", len(names))
		}
	}
	cur := World{}
	var rec func(i int)
	rec = func(i int) {
		if i == len(names) {
			// string exclusivity: a term cannot equal two distinct constants
			cnt := map[string]int{}
			for n, v := range cur {
				if strings.HasPrefix(n, "strk(") && v == 1 {
					cnt[n[:strings.Index(n, ")=")]]++
				}
			}
			for _, c := range cnt {
				if c > 1 {
					return
				}
			}
			w := World{}
			for k, v := range cur {
				w[k] = v
			}
			all = append(all, w)
			return
		}
		for v := range doms[names[i]] {
			cur[names[i]] = v
			rec(i + 1)
		}
	}
	rec(0)
	return
}

func worldString(names []string, doms map[string][]string, w World) string {
	var s []string
	for _, n := range names {
		s = append(s, n+"="+doms[n][w[n]])
	}
	return strings.Join(s, ", ")
}

// equivalent compares two formulas on every world; returns a differing world description.
func equivalent(got, want BExpr) (bool, string, int) {
	names, doms, all := worlds(got, want)
	for _, w := range all {
		if got.Eval(w) != want.Eval(w) {
			return false, fmt.Sprintf("in world {%s}: code gives %v, required %v", worldString(names, doms, w), got.Eval(w), want.Eval(w)), len(all)
		}
	}
	return true, "", len(all)
}

// implies checks a ⇒ b on every world.
func implies(a, b BExpr) (bool, string, int) {
	names, doms, all := worlds(a, b)
	for _, w := range all {
		if a.Eval(w) && !b.Eval(w) {
			return false, fmt.Sprintf("in world {%s}: premise holds but conclusion does not", worldString(names, doms, w)), len(all)
		}
	}
	return true, "", len(all)
}

// ---- building formulas from SSA -------------------------------------------

// A termNamer gives rule-chosen names to SSA values (so that the rule's required
// formula and the code's formula talk about the same symbols). Unnamed values are
// named by describe().
type formulaBuilder struct {
	names   map[ssa.Value]string
	namer   func(ssa.Value) (string, bool) // structural naming hook supplied by the rule
	inline  map[*ssa.Function]bool         // bool-returning functions to see through
	memoB   map[*ssa.BasicBlock]BExpr
	onPath  map[*ssa.BasicBlock]bool
	undec   []string
	phiBusy map[*ssa.Phi]bool
	root    *ssa.BasicBlock // reach() is relative to this block when set (it must dominate the queried block)
}

func newFormulaBuilder() *formulaBuilder {
	return &formulaBuilder{names: map[ssa.Value]string{}, inline: map[*ssa.Function]bool{}, memoB: map[*ssa.BasicBlock]BExpr{}, onPath: map[*ssa.BasicBlock]bool{}}
}

func (fb *formulaBuilder) name(v ssa.Value) string {
	v = strip(v)
	if n, ok := fb.names[v]; ok {
		return n
	}
	if fb.namer != nil {
		if n, ok := fb.namer(v); ok {
			return n
		}
	}
	// loads of the same field of the same object denote the same value when nothing
	// stores to it in between; describe() renders them identically.
	return describe(v)
}

// term renders an integer/duration/time valued SSA value as a symbolic term name,
// folding Convert.
func (fb *formulaBuilder) term(v ssa.Value) string {
	v = strip(v)
	if n, ok := fb.names[v]; ok {
		return n
	}
	if fb.namer != nil {
		if n, ok := fb.namer(v); ok {
			return n
		}
	}
	switch x := v.(type) {
	case *ssa.Convert:
		return fb.term(x.X)
	case *ssa.Const:
		if x.Value != nil {
			if x.Value.Kind() == constant.String {
				return fmt.Sprintf("%q", constant.StringVal(x.Value))
			}
			return x.Value.ExactString()
		}
	case *ssa.UnOp:
		if x.Op == token.MUL {
			if g, ok := x.X.(*ssa.Global); ok {
				return "global:" + short(g.Pkg.Pkg.Path()+"."+g.Name())
			}
		}
	}
	return fb.name(v)
}

// formula turns a boolean SSA value into a BExpr.
func (fb *formulaBuilder) formula(v ssa.Value) BExpr {
	v = strip(v)
	switch x := v.(type) {
	case *ssa.Const:
		return bConst(constString(x.Value) == "true")
	case *ssa.UnOp:
		if x.Op == token.NOT {
			return fb.negFormula(x.X)
		}
	case *ssa.Phi:
		if fb.phiBusy == nil {
			fb.phiBusy = map[*ssa.Phi]bool{}
		}
		if fb.phiBusy[x] {
			fb.undec = append(fb.undec, "loop-carried boolean "+x.Name())
			return bBool{fb.name(v)}
		}
		fb.phiBusy[x] = true
		defer func() { fb.phiBusy[x] = false }()
		var alts []BExpr
		for i, e := range x.Edges {
			if x.Block().Dominates(x.Block().Preds[i]) {
				// back edge: value carried around a loop
				fb.undec = append(fb.undec, "loop-carried boolean "+x.Name())
				return bBool{fb.name(v)}
			}
			pred := x.Block().Preds[i]
			ec := fb.edgeCond(pred, x.Block())
			alts = append(alts, bAnd{[]BExpr{ec, fb.formula(e)}})
		}
		return bOr{alts}
	case *ssa.BinOp:
		switch x.Op {
		case token.EQL, token.NEQ, token.LSS, token.LEQ, token.GTR, token.GEQ:
			return fb.compare(x)
		case token.AND:
			if isBoolType(x.Type()) {
				return bAnd{[]BExpr{fb.formula(x.X), fb.formula(x.Y)}}
			}
		case token.OR:
			if isBoolType(x.Type()) {
				return bOr{[]BExpr{fb.formula(x.X), fb.formula(x.Y)}}
			}
		}
	case *ssa.Call:
		n := calleeName(&x.Call)
		args := argsOf(x)
		switch n {
		case "(time.Time).Before":
			return fb.timeOrd(args[0], "<", args[1])
		case "(time.Time).After":
			return fb.timeOrd(args[0], ">", args[1])
		case "(time.Time).Equal":
			return fb.timeOrd(args[0], "=", args[1])
		case "(time.Time).IsZero":
			return bZero{fb.term(args[0])}
		}
		if f := x.Call.StaticCallee(); f != nil && fb.inline[f] {
			return fb.inlineCall(x, f)
		}
	}
	return bBool{fb.name(v)}
}

func isBoolType(t types.Type) bool {
	b, ok := t.Underlying().(*types.Basic)
	return ok && b.Info()&types.IsBoolean != 0
}

func (fb *formulaBuilder) timeOrd(a ssa.Value, rel string, b ssa.Value) BExpr {
	return mkOrd(fb.term(a), rel, fb.term(b))
}

// affixTest recognises a prefix or suffix test however it is written: the library call
// (strings|bytes).Has(Prefix|Suffix)(s, p), or the comparison s[:len(p)] == p / s[len(s)-len(p):] == p
// (p a constant of that length or any value; the length guard that goes with the hand-written
// form is a separate comparison). kind is "HasPrefix" or "HasSuffix".
func affixTest(v ssa.Value) (kind string, s, p ssa.Value, ok bool) {
	v = strip(v)
	if cl, isCall := v.(*ssa.Call); isCall {
		switch calleeName(&cl.Call) {
		case "strings.HasPrefix", "bytes.HasPrefix":
			return "HasPrefix", cl.Call.Args[0], cl.Call.Args[1], true
		case "strings.HasSuffix", "bytes.HasSuffix":
			return "HasSuffix", cl.Call.Args[0], cl.Call.Args[1], true
		}
		return "", nil, nil, false
	}
	x, isB := v.(*ssa.BinOp)
	if !isB || x.Op != token.EQL {
		return "", nil, nil, false
	}
	for _, pair := range [][2]ssa.Value{{x.X, x.Y}, {x.Y, x.X}} {
		sv := strip(pair[0])
		if cv, ok := sv.(*ssa.Convert); ok {
			sv = strip(cv.X)
		}
		sl, ok := sv.(*ssa.Slice)
		if !ok {
			continue
		}
		other := pair[1]
		plen := "builtin:len(" + describe(other) + ")"
		if k, isC := constOf(other); isC {
			if c, isConst := strip(other).(*ssa.Const); isConst && c.Value != nil && c.Value.Kind() == constant.String {
				plen = fmt.Sprint(len(k))
			}
		}
		base := describe(sl.X)
		low0 := sl.Low == nil
		if n, isK := intConst(sl.Low); isK && n == 0 {
			low0 = true
		}
		if sl.High != nil && low0 && describe(sl.High) == plen {
			return "HasPrefix", sl.X, other, true
		}
		if sl.High == nil && sl.Low != nil {
			d := describe(sl.Low)
			if d == "(builtin:len("+base+") - "+plen+")" {
				return "HasSuffix", sl.X, other, true
			}
		}
	}
	return "", nil, nil, false
}

// prefixTest: the atom name a hand-written affix test gets in formulas — that of the library call.
func prefixTest(x *ssa.BinOp) (string, bool) {
	if x.Op != token.EQL && x.Op != token.NEQ {
		return "", false
	}
	y := *x
	y.Op = token.EQL
	kind, s, p, ok := affixTest2(&y)
	if !ok {
		return "", false
	}
	pkg, lit := "strings", describe(p)
	if _, isBytes := s.Type().Underlying().(*types.Slice); isBytes {
		pkg = "bytes"
		if _, isC := constOf(p); isC {
			lit = "conv<[]byte>(" + lit + ")"
		}
	}
	return pkg + "." + kind + "(" + describe(s) + ", " + lit + ")", true
}

// affixTest2 is affixTest for a comparison that is not (yet) an instruction of the program.
func affixTest2(x *ssa.BinOp) (string, ssa.Value, ssa.Value, bool) {
	for _, pair := range [][2]ssa.Value{{x.X, x.Y}, {x.Y, x.X}} {
		sv := strip(pair[0])
		if cv, ok := sv.(*ssa.Convert); ok {
			sv = strip(cv.X)
		}
		sl, ok := sv.(*ssa.Slice)
		if !ok {
			continue
		}
		other := pair[1]
		plen := "builtin:len(" + describe(other) + ")"
		if k, isC := constOf(other); isC {
			if c, isConst := strip(other).(*ssa.Const); isConst && c.Value != nil && c.Value.Kind() == constant.String {
				plen = fmt.Sprint(len(k))
			}
		}
		base := describe(sl.X)
		low0 := sl.Low == nil
		if n, isK := intConst(sl.Low); isK && n == 0 {
			low0 = true
		}
		if sl.High != nil && low0 && describe(sl.High) == plen {
			return "HasPrefix", sl.X, other, true
		}
		if sl.High == nil && sl.Low != nil && describe(sl.Low) == "(builtin:len("+base+") - "+plen+")" {
			return "HasSuffix", sl.X, other, true
		}
	}
	return "", nil, nil, false
}

func (fb *formulaBuilder) compare(x *ssa.BinOp) BExpr {
	if name, ok := prefixTest(x); ok {
		var a BExpr = bBool{name}
		if x.Op == token.NEQ {
			a = bNot{a}
		}
		return a
	}
	// an operand merged from several exits (a result variable of an expanded helper): the
	// comparison holds iff it holds for the value carried by the edge taken
	for side, v := range []ssa.Value{x.X, x.Y} {
		phi, ok := strip(v).(*ssa.Phi)
		if !ok || isNilConst(x.X) || isNilConst(x.Y) {
			continue
		}
		if fb.phiBusy == nil {
			fb.phiBusy = map[*ssa.Phi]bool{}
		}
		loop := fb.phiBusy[phi]
		for i := range phi.Edges {
			if phi.Block().Dominates(phi.Block().Preds[i]) {
				loop = true
			}
		}
		if loop {
			continue
		}
		fb.phiBusy[phi] = true
		var alts []BExpr
		for i, e := range phi.Edges {
			ec := fb.edgeCond(phi.Block().Preds[i], phi.Block())
			var c BExpr
			if side == 0 {
				c = fb.compareVals(e, x.Op, x.Y)
			} else {
				c = fb.compareVals(x.X, x.Op, e)
			}
			alts = append(alts, bAnd{[]BExpr{ec, c}})
		}
		fb.phiBusy[phi] = false
		return bOr{alts}
	}
	return fb.compareVals(x.X, x.Op, x.Y)
}

// compareVals: the comparison a op b as a formula.
func (fb *formulaBuilder) compareVals(a ssa.Value, op token.Token, b ssa.Value) BExpr {
	x := &ssa.BinOp{Op: op, X: a, Y: b}
	rel := map[token.Token]string{token.EQL: "=", token.NEQ: "!=", token.LSS: "<", token.LEQ: "<=", token.GTR: ">", token.GEQ: ">="}[op]
	if ac, aok := intConst(a); aok {
		if bc, bok := intConst(b); bok {
			// both constant: decide
			switch rel {
			case "=":
				return bConst(ac == bc)
			case "!=":
				return bConst(ac != bc)
			case "<":
				return bConst(ac < bc)
			case "<=":
				return bConst(ac <= bc)
			case ">":
				return bConst(ac > bc)
			case ">=":
				return bConst(ac >= bc)
			}
		}
	}
	// nil comparisons -> opaque boolean "isnil(term)"
	if isNilConst(x.Y) || isNilConst(x.X) {
		other := x.X
		if isNilConst(x.X) {
			other = x.Y
		}
		var a BExpr = bBool{"isnil(" + fb.name(other) + ")"}
		// a value merged from several exits (the error of an expanded helper): nil exactly on
		// the edges that carry nil
		if phi, ok := strip(other).(*ssa.Phi); ok {
			if e := fb.nilOfPhi(phi); e != nil {
				a = e
			}
		}
		if rel == "=" {
			return a
		}
		return bNot{a}
	}
	// string equality with a constant
	if isStringy(x.X.Type()) && (rel == "=" || rel == "!=") {
		var val ssa.Value
		var k string
		if c, ok := constOf(x.Y); ok {
			val, k = x.X, c
		} else if c, ok := constOf(x.X); ok {
			val, k = x.Y, c
		}
		if val != nil {
			a := bStr{fb.term(val), k}
			if rel == "=" {
				return a
			}
			return bNot{a}
		}
	}
	// time.Duration / numeric: "a - b > c"  =>  ordering between (a-b) and c is kept as
	// an ordering atom between the two rendered terms.
	return mkOrd(fb.term(x.X), rel, fb.term(x.Y))
}

// edgeCond: condition under which control flows from pred to succ, given pred is reached:
// reach(pred) ∧ branch.
func (fb *formulaBuilder) edgeCond(pred, succ *ssa.BasicBlock) BExpr {
	rc := fb.reach(pred)
	last := pred.Instrs[len(pred.Instrs)-1]
	if ifi, ok := last.(*ssa.If); ok && pred.Succs[0] != pred.Succs[1] {
		if pred.Succs[0] == succ {
			return bAnd{[]BExpr{rc, fb.formula(ifi.Cond)}}
		}
		return bAnd{[]BExpr{rc, fb.negFormula(ifi.Cond)}}
	}
	return rc
}

// reach: path condition of block b from the function entry. Back edges are cut
// (the formula is only meaningful for values defined outside loops; a loop on the way
// makes the result "undecided", reported by the caller through fb.undec).
func (fb *formulaBuilder) reach(b *ssa.BasicBlock) BExpr {
	if e, ok := fb.memoB[b]; ok {
		return e
	}
	if b.Index == 0 || len(b.Preds) == 0 || b == fb.root {
		return bConst(true)
	}
	if fb.root != nil && !fb.root.Dominates(b) {
		return bConst(false) // a predecessor outside the region below root: not on a path from root
	}
	// control always arrives at b once it is at b's immediate dominator (only loops, assumed to
	// terminate, and branches that join again lie in between): same path condition
	if d := b.Idom(); d != nil && (fb.root == nil || fb.root.Dominates(d)) && postDominates(b, d) {
		e := fb.reach(d)
		fb.memoB[b] = e
		return e
	}
	if fb.onPath[b] {
		fb.undec = append(fb.undec, fmt.Sprintf("loop through block %d of %s", b.Index, fname(b.Parent())))
		return bConst(false)
	}
	fb.onPath[b] = true
	var alts []BExpr
	for _, p := range b.Preds {
		if b.Dominates(p) {
			continue // back edge: the first arrival decides values defined before the loop
		}
		alts = append(alts, fb.edgeCond(p, b))
	}
	fb.onPath[b] = false
	var e BExpr = bOr{alts}
	if len(alts) == 1 {
		e = alts[0]
	}
	fb.memoB[b] = e
	return e
}

// inlineCall sees through a bool-returning function: the disjunction over its
// returns of (reach(return) ∧ formula(result)), with parameters renamed to the
// call's argument terms.
func (fb *formulaBuilder) inlineCall(call *ssa.Call, f *ssa.Function) BExpr {
	sub := newFormulaBuilder()
	sub.inline = fb.inline
	sub.namer = fb.namer
	for k, v := range fb.names {
		sub.names[k] = v
	}
	for i, p := range f.Params {
		if i < len(argsOf(call)) {
			sub.names[p] = fb.term(argsOf(call)[i])
		}
	}
	var alts []BExpr
	for _, b := range f.Blocks {
		ret, ok := b.Instrs[len(b.Instrs)-1].(*ssa.Return)
		if !ok || len(ret.Results) != 1 {
			continue
		}
		alts = append(alts, bAnd{[]BExpr{sub.reach(b), sub.formula(ret.Results[0])}})
	}
	fb.undec = append(fb.undec, sub.undec...)
	return bOr{alts}
}

// leaves calls f on every atom of e.
func leaves(e BExpr, f func(BExpr)) {
	switch x := e.(type) {
	case bNot:
		leaves(x.X, f)
	case bAnd:
		for _, y := range x.Xs {
			leaves(y, f)
		}
	case bOr:
		for _, y := range x.Xs {
			leaves(y, f)
		}
	case bConst:
	default:
		f(e)
	}
}

// nilOfPhi: "phi == nil" as the disjunction over the incoming edges of (edge taken ∧ the value
// carried is nil); nil if the phi is loop-carried.
func (fb *formulaBuilder) nilOfPhi(phi *ssa.Phi) BExpr {
	if fb.phiBusy == nil {
		fb.phiBusy = map[*ssa.Phi]bool{}
	}
	if fb.phiBusy[phi] {
		return nil
	}
	for i := range phi.Edges {
		if phi.Block().Dominates(phi.Block().Preds[i]) {
			return nil
		}
	}
	fb.phiBusy[phi] = true
	defer func() { fb.phiBusy[phi] = false }()
	var alts []BExpr
	for i, e := range phi.Edges {
		ec := fb.edgeCond(phi.Block().Preds[i], phi.Block())
		var isNil BExpr
		switch {
		case isNilConst(e):
			isNil = bConst(true)
		case knownNonNil(e):
			isNil = bConst(false)
		default:
			if p2, ok := strip(e).(*ssa.Phi); ok {
				if sub := fb.nilOfPhi(p2); sub != nil {
					isNil = sub
					break
				}
			}
			isNil = bBool{"isnil(" + fb.name(e) + ")"}
		}
		alts = append(alts, bAnd{[]BExpr{ec, isNil}})
	}
	return bOr{alts}
}

var postDomMemo = map[[2]*ssa.BasicBlock]bool{}

// postDominates: every path from d that leaves the function (return or panic) passes b first.
// Cycles that never leave are not counted: loops are assumed to terminate.
func postDominates(b, d *ssa.BasicBlock) bool {
	if b == d {
		return true
	}
	key := [2]*ssa.BasicBlock{b, d}
	if v, ok := postDomMemo[key]; ok {
		return v
	}
	seen := map[*ssa.BasicBlock]bool{b: true}
	work := []*ssa.BasicBlock{d}
	res := true
	for len(work) > 0 && res {
		x := work[len(work)-1]
		work = work[:len(work)-1]
		if seen[x] {
			continue
		}
		seen[x] = true
		if len(x.Succs) == 0 {
			res = false // an exit reached without passing b
		}
		work = append(work, x.Succs...)
	}
	postDomMemo[key] = res
	return res
}

// negFormula: the formula of "v is false". For a merged boolean (a result variable of an
// expanded helper) this is "control came over an edge that carries false" — the disjunction
// over the edges of (edge taken ∧ value false) — rather than the negation of "came over an edge
// that carries true": the two agree where exactly one edge is taken, but only the former keeps
// saying WHICH edge when the surrounding path condition no longer does.
func (fb *formulaBuilder) negFormula(v ssa.Value) BExpr {
	v = strip(v)
	if u, ok := v.(*ssa.UnOp); ok && u.Op == token.NOT {
		return fb.formula(u.X)
	}
	x, ok := v.(*ssa.Phi)
	if !ok {
		return bNot{fb.formula(v)}
	}
	if fb.phiBusy == nil {
		fb.phiBusy = map[*ssa.Phi]bool{}
	}
	if fb.phiBusy[x] {
		return bNot{fb.formula(v)}
	}
	for i := range x.Edges {
		if x.Block().Dominates(x.Block().Preds[i]) {
			return bNot{fb.formula(v)} // loop-carried: formula() reports it
		}
	}
	fb.phiBusy[x] = true
	defer func() { fb.phiBusy[x] = false }()
	var alts []BExpr
	for i, e := range x.Edges {
		ec := fb.edgeCond(x.Block().Preds[i], x.Block())
		alts = append(alts, bAnd{[]BExpr{ec, fb.negFormula(e)}})
	}
	return bOr{alts}
}
