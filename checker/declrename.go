package main

// Renamed declarations other than functions (functions: inline.go, detectRenames).
//
// The rules name the constants, package-level variables, types and struct fields they are
// about ("numHash", "errCorrupt", "work.readyfiles"). A maintainer who renames one of them —
// with every use — changes nothing the program does. baseline_funcs.txt records, per package
// of the reference tree,
//
//	const:<pkg>.<Name>  <fingerprint of the value expression>
//	var:<pkg>.<Name>    <type text>#<fingerprint of the initialiser>
//	fields:<pkg>.<Type> <name type|name type|…>
//
// and a declaration of the reference tree that is missing, while exactly one declaration that
// the reference tree does not have carries the same fingerprint (constant, variable), the
// same field list (type) or the same type at the only changed position (field), is recognised
// as renamed. Lookups by name (ConstVal, GlobalVar, method anchors, namedType, field names in
// describe/fieldLoad/…) then answer with the reference name.

import (
	"go/ast"
	"go/printer"
	"go/token"
	"go/types"
	"path/filepath"
	"sort"
	"strings"

	"golang.org/x/tools/go/packages"
)

var (
	refConst  = map[string]string{} // <pkg>.<new> → reference name
	newConst  = map[string]string{} // <pkg>.<ref> → new name
	refVar    = map[string]string{}
	newVar    = map[string]string{}
	refType   = map[string]string{} // <pkg>.<new type> → reference type name
	newType   = map[string]string{}
	refFieldN = map[string]string{} // <pkg>.<reference type>.<new field> → reference field name
)

func exprPrint(fset *token.FileSet, e ast.Expr, ren map[string]string) string {
	if e == nil {
		return "-"
	}
	var sb strings.Builder
	printer.Fprint(&sb, fset, e)
	txt := strings.Join(strings.Fields(sb.String()), "")
	for n, o := range ren {
		txt = replaceIdent(txt, n, o)
	}
	return txt
}

// replaceIdent replaces whole-identifier occurrences of from by to.
func replaceIdent(s, from, to string) string {
	var out strings.Builder
	for i := 0; i < len(s); {
		if strings.HasPrefix(s[i:], from) {
			before := i == 0 || !isIdentByte(s[i-1])
			after := i+len(from) >= len(s) || !isIdentByte(s[i+len(from)])
			if before && after {
				out.WriteString(to)
				i += len(from)
				continue
			}
		}
		out.WriteByte(s[i])
		i++
	}
	return out.String()
}

func isIdentByte(b byte) bool {
	return b == '_' || b >= '0' && b <= '9' || b >= 'a' && b <= 'z' || b >= 'A' && b <= 'Z' || b >= 0x80
}

// declLines: the baseline lines for the package-level constants, variables and struct types of a file.
func declLines(fset *token.FileSet, pkg string, f *ast.File) []string {
	var out []string
	for _, d := range f.Decls {
		gd, ok := d.(*ast.GenDecl)
		if !ok {
			continue
		}
		var lastVals []ast.Expr
		for _, sp := range gd.Specs {
			switch x := sp.(type) {
			case *ast.TypeSpec:
				if st, ok := x.Type.(*ast.StructType); ok {
					out = append(out, "fields:"+pkg+"."+x.Name.Name+"\t"+fieldList(fset, st))
				}
			case *ast.ValueSpec:
				vals := x.Values
				if gd.Tok == token.CONST {
					if len(vals) == 0 {
						vals = lastVals // implicit repetition
					} else {
						lastVals = vals
					}
				}
				for i, n := range x.Names {
					if n.Name == "_" {
						continue
					}
					var v ast.Expr
					if i < len(vals) {
						v = vals[i]
					}
					if gd.Tok == token.CONST {
						out = append(out, "const:"+pkg+"."+n.Name+"\t"+exprPrint(fset, v, nil))
					} else if gd.Tok == token.VAR {
						out = append(out, "var:"+pkg+"."+n.Name+"\t"+exprPrint(fset, x.Type, nil)+"#"+exprPrint(fset, v, nil))
					}
				}
			}
		}
	}
	return out
}

func fieldList(fset *token.FileSet, st *ast.StructType) string {
	var fs []string
	for _, fld := range st.Fields.List {
		t := exprPrint(fset, fld.Type, nil)
		if len(fld.Names) == 0 {
			fs = append(fs, " "+t)
		}
		for _, n := range fld.Names {
			fs = append(fs, n.Name+" "+t)
		}
	}
	return strings.Join(fs, "|")
}

// baselineDecl: the const:/var:/fields: lines of the reference tree (key → payload; several
// payloads for per-platform files are joined with "\x00").
var baselineDecl = func() map[string]string {
	m := map[string]string{}
	for _, l := range strings.Split(baselineFuncsTxt, "\n") {
		if strings.HasPrefix(l, "const:") || strings.HasPrefix(l, "var:") || strings.HasPrefix(l, "fields:") {
			k, v, _ := strings.Cut(l, "\t")
			if old, ok := m[k]; ok {
				m[k] = old + "\x00" + v
			} else {
				m[k] = v
			}
		}
	}
	return m
}()

func hasPayload(all, one string) bool {
	for _, p := range strings.Split(all, "\x00") {
		if p == one {
			return true
		}
	}
	return false
}

func detectDeclRenames(pkgs []*packages.Package, dir string) []string {
	var notes []string
	for _, p := range pkgs {
		if len(p.Syntax) == 0 || len(p.CompiledGoFiles) != len(p.Syntax) {
			continue
		}
		cur := map[string]string{} // current lines of this package
		inModule := false
		for i, f := range p.Syntax {
			if !strings.HasPrefix(p.CompiledGoFiles[i], dir+string(filepath.Separator)) {
				continue
			}
			inModule = true
			for _, l := range declLines(p.Fset, p.PkgPath, f) {
				k, v, _ := strings.Cut(l, "\t")
				cur[k] = v
			}
			for _, d := range f.Decls {
				if gd, ok := d.(*ast.GenDecl); ok && gd.Tok == token.TYPE {
					for _, sp := range gd.Specs {
						cur["type:"+p.PkgPath+"."+sp.(*ast.TypeSpec).Name.Name] = ""
					}
				}
			}
		}
		if !inModule {
			continue
		}
		prefixOf := func(kind string) string { return kind + ":" + p.PkgPath + "." }
		// --- types: same field list under a new name
		identRen := map[string]string{}
		for key, payload := range baselineDecl {
			pf := prefixOf("fields")
			if !strings.HasPrefix(key, pf) || strings.Contains(strings.TrimPrefix(key, pf), "/") {
				continue
			}
			if _, present := cur[key]; present {
				continue
			}
			if _, present := cur["type:"+strings.TrimPrefix(key, "fields:")]; present {
				continue // the type exists but is no longer a struct: not a rename
			}
			var match string
			n := 0
			for k2, v2 := range cur {
				if strings.HasPrefix(k2, pf) && baselineDecl[k2] == "" && hasPayload(payload, v2) {
					if _, wasType := baselineFuncs["type:"+strings.TrimPrefix(k2, "fields:")]; wasType {
						continue
					}
					match = strings.TrimPrefix(k2, pf)
					n++
				}
			}
			if n == 1 {
				old := strings.TrimPrefix(key, pf)
				refType[p.PkgPath+"."+match] = old
				newType[p.PkgPath+"."+old] = match
				identRen[match] = old
				baselineFuncs["type:"+p.PkgPath+"."+match] = true
				notes = append(notes, "type "+short(p.PkgPath+"."+old)+" is now "+match)
			}
		}
		// --- fields: in a struct type that exists on both sides, one-for-one replacement by type
		for key, payload := range baselineDecl {
			pf := prefixOf("fields")
			if !strings.HasPrefix(key, pf) || strings.Contains(payload, "\x00") {
				continue
			}
			tOld := strings.TrimPrefix(key, pf)
			tNow := tOld
			if nn, ok := newType[p.PkgPath+"."+tOld]; ok {
				tNow = nn
			}
			now, present := cur[pf+tNow]
			if !present || now == payload {
				continue
			}
			was := strings.Split(payload, "|")
			is := strings.Split(now, "|")
			wasSet, isSet := map[string]bool{}, map[string]bool{}
			for _, f := range was {
				wasSet[f] = true
			}
			for _, f := range is {
				isSet[f] = true
			}
			var gone, fresh []string
			for _, f := range was {
				if !isSet[f] {
					gone = append(gone, f)
				}
			}
			for _, f := range is {
				if !wasSet[f] {
					fresh = append(fresh, f)
				}
			}
			// every field that is gone pairs with exactly one new field of the same type
			for _, g := range gone {
				gn, gt, _ := strings.Cut(g, " ")
				var cand []string
				for _, f := range fresh {
					fn, ft, _ := strings.Cut(f, " ")
					if ft == gt && fn != "" {
						cand = append(cand, fn)
					}
				}
				nGoneSameType := 0
				for _, g2 := range gone {
					if _, t2, _ := strings.Cut(g2, " "); t2 == gt {
						nGoneSameType++
					}
				}
				if len(cand) == 1 && nGoneSameType == 1 && gn != "" {
					refFieldN[p.PkgPath+"."+tOld+"."+cand[0]] = gn
					notes = append(notes, "field "+short(p.PkgPath+"."+tOld)+"."+gn+" is now "+cand[0])
				}
			}
		}
		// --- constants and variables: same value / same type and initialiser under a new name
		for _, kind := range []string{"const", "var"} {
			pf := prefixOf(kind)
			var keys []string
			for key := range baselineDecl {
				keys = append(keys, key)
			}
			sort.Strings(keys)
			for _, key := range keys {
				payload := baselineDecl[key]
				if !strings.HasPrefix(key, pf) || strings.Contains(strings.TrimPrefix(key, pf), "/") {
					continue
				}
				if _, present := cur[key]; present {
					continue
				}
				var match string
				n := 0
				for k2, v2 := range cur {
					if !strings.HasPrefix(k2, pf) {
						continue
					}
					if _, was := baselineDecl[k2]; was {
						continue
					}
					v2r := v2
					for nn, oo := range identRen {
						v2r = replaceIdent(v2r, nn, oo)
					}
					if hasPayload(payload, v2r) {
						match = strings.TrimPrefix(k2, pf)
						n++
					}
				}
				if n != 1 {
					continue
				}
				old := strings.TrimPrefix(key, pf)
				if kind == "const" {
					refConst[p.PkgPath+"."+match] = old
					newConst[p.PkgPath+"."+old] = match
				} else {
					refVar[p.PkgPath+"."+match] = old
					newVar[p.PkgPath+"."+old] = match
				}
				identRen[match] = old
				notes = append(notes, kind+" "+short(p.PkgPath+"."+old)+" is now "+match)
			}
		}
	}
	sort.Strings(notes)
	return notes
}

// refTypeNameOf: the reference name of a named type (its own name unless it was renamed).
func refTypeNameOf(n *types.Named) string {
	if n.Obj().Pkg() == nil {
		return n.Obj().Name()
	}
	if old, ok := refType[n.Obj().Pkg().Path()+"."+n.Obj().Name()]; ok {
		return old
	}
	return n.Obj().Name()
}

// refFieldName: the reference name of field idx of the struct type behind t (t may be a named
// struct, a pointer to one, or a bare struct type).
func refFieldName(t types.Type, idx int) string {
	if p, ok := t.Underlying().(*types.Pointer); ok {
		t = p.Elem()
	}
	if p, ok := t.(*types.Pointer); ok {
		t = p.Elem()
	}
	st, ok := t.Underlying().(*types.Struct)
	if !ok || idx >= st.NumFields() {
		return "?"
	}
	name := st.Field(idx).Name()
	if len(refFieldN) == 0 {
		return name
	}
	if n, ok := t.(*types.Named); ok && n.Obj().Pkg() != nil {
		if old, ok := refFieldN[n.Obj().Pkg().Path()+"."+refTypeNameOf(n)+"."+name]; ok {
			return old
		}
	}
	return name
}
