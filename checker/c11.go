package main

// C11 — uploader, server and local viewer agree on what is approved.
// Sibling cross-check: the set of (predicate, argument-role) pairs that decide
// inclusion must be the same, exhaustive set at all three sites.

import (
	"fmt"
	"sort"
	"strings"

	"golang.org/x/tools/go/ssa"
)

func init() {
	register("C11", &propDef{
		run: runC11,
		decided: []string{
			"identical program-level predicate set {HasGOOS(GOOS),HasGOARCH(GOARCH),HasGoVersion(GoVersion),HasProgram(Program),HasVersion(Program,Version)} with correct argument roles and polarity at uploader (createReport), server (validate) and viewer (summary, newCounterFile)",
			"counter-level HasCounter(Program,key) and stack-level HasStack(Program, name-before-first-newline) at all sites",
			"every exported bool predicate of config.Config (minus the tabled chart-only one) is consulted at every site",
		},
		notDecided: []string{"semantics of the lookup tables (C01 covers their construction)", "viewer rendering", "rate-based exclusion in the viewer (it cannot know X)"},
	})
}

// chart-only / uploader-only predicates (one line of reason each).
var c11Except = map[string]string{
	"HasCounterPrefix": "used only by chart generation to recognise a chart name; not an approval decision",
}

func sigSet(acs []approvalCall) map[string]approvalCall {
	m := map[string]approvalCall{}
	for _, a := range acs {
		m[a.Sig()] = a
	}
	return m
}

func keysOf(m map[string]approvalCall) string {
	var k []string
	for s := range m {
		k = append(k, s)
	}
	sort.Strings(k)
	return strings.Join(k, " ")
}

func runC11(c *Ctx) {
	root := c.Root()
	r := c.R
	// the three sides split a key at the first newline; the uploader decides "is a stack" with IsStackCounter
	c15IsStackCounter(c, root, "C11.stack-level")
	methods := approvalMethods(root)
	var required []string // method names every site must consult
	for _, m := range methods {
		if _, ex := c11Except[m]; !ex {
			required = append(required, m)
		}
	}
	r.Analysed["config_predicates"] = methods

	// ---- S1 uploader ----------------------------------------------------
	us := findUploadSite(root)
	{
		facts := sigSet(approvalFacts(us.progStore))
		for _, want := range programLevel {
			a, ok := facts[want]
			okBase := ok
			if ok {
				for _, b := range a.Bases {
					if b == nil {
						okBase = false
					}
				}
			}
			r.Check("C11.program-level", "uploader.createReport/store upload.Programs/"+want, root.Pos(us.progStore.Pos()), okBase,
				fmt.Sprintf("required fact %s on every path to the append of a program to the upload report; facts found: {%s}", want, keysOf(facts)))
		}
		// all roles must be fields of ONE program report value, the one copied into x
		bases := map[ssa.Value]bool{}
		for _, a := range facts {
			for _, b := range a.Bases {
				if b != nil {
					bases[strip(b)] = true
				}
			}
		}
		r.Check("C11.program-level", "uploader.createReport/store upload.Programs/single-subject", root.Pos(us.progStore.Pos()), len(bases) == 1,
			fmt.Sprintf("all approval predicates must test fields of one ProgramReport value; distinct subjects: %d", len(bases)))
		var subject ssa.Value
		for b := range bases {
			subject = b
		}
		// x's identity fields are copied from the same subject
		if subject != nil {
			for _, in := range instrsOf(us.fn) {
				st, ok := in.(*ssa.Store)
				if !ok {
					continue
				}
				fa, ok := st.Addr.(*ssa.FieldAddr)
				if !ok || strip(fa.X) != us.x {
					continue
				}
				_, fld, _ := fieldAddrName(fa)
				if fld == "Counters" || fld == "Stacks" {
					continue
				}
				b, f, ok := fieldLoad(st.Val)
				r.Check("C11.program-level", "uploader.createReport/x."+fld+" copied from the tested program", root.Pos(st.Pos()),
					ok && strip(b) == subject && f == fld,
					fmt.Sprintf("x.%s must be the %s field of the program report that the approval predicates tested; got %s", fld, fld, describe(st.Val)))
			}
		}
		for _, mu := range us.ctrUpd {
			facts := sigSet(approvalFacts(mu))
			_, ok := facts["HasCounter(Program,key)"]
			keyRole, _ := argRole(mu.Key)
			r.Check("C11.counter-level", "uploader.createReport/store x.Counters[k]", root.Pos(mu.Pos()), ok && keyRole == "key",
				fmt.Sprintf("required fact HasCounter(Program,key) with key = the stored map key (%s); facts: {%s}", keyRole, keysOf(facts)))
			checkSameKey(r, root, "C11.counter-level", "uploader.createReport/store x.Counters[k]/same-key", mu, facts["HasCounter(Program,key)"], 1, false)
		}
		for _, mu := range us.stackUpd {
			facts := sigSet(approvalFacts(mu))
			_, ok := facts["HasStack(Program,cutnl(key))"]
			keyRole, _ := argRole(mu.Key)
			r.Check("C11.stack-level", "uploader.createReport/store x.Stacks[k]", root.Pos(mu.Pos()), ok && keyRole == "key",
				fmt.Sprintf("required fact HasStack(Program, name before first newline of the stored key); facts: {%s}", keysOf(facts)))
			checkSameKey(r, root, "C11.stack-level", "uploader.createReport/store x.Stacks[k]/same-key", mu, facts["HasStack(Program,cutnl(key))"], 1, true)
		}
		r.Check("C11.counter-level", "uploader.createReport/has a counter store", root.Pos(us.fn.Pos()), len(us.ctrUpd) >= 1, "the upload report copies approved counters")
		r.Check("C11.stack-level", "uploader.createReport/has a stack store", root.Pos(us.fn.Pos()), len(us.stackUpd) >= 1, "the upload report copies approved stacks")
		siteExhaustive(r, root, "uploader.createReport", us.fn, required)
	}

	// ---- S3 viewer --------------------------------------------------------
	{
		sum := root.Func("cmd/gotelemetry/internal/view", "summary")
		calls := approvalCallsIn(sum)
		bySig := map[string][]approvalCall{}
		for _, a := range calls {
			bySig[a.Sig()] = append(bySig[a.Sig()], a)
		}
		finalRet := lastReturn(sum)
		for _, want := range programLevel {
			acs := bySig[want]
			ok := false
			detail := "no call with these argument roles (meta keys) in summary"
			for _, a := range acs {
				for _, succ := range branchSucc(a.Call, false) {
					if ret := returnBlock(succ); ret != nil && ret != finalRet {
						ok = true
					} else {
						detail = "a false result does not lead to the early 'no data from this set would be uploaded' return"
					}
				}
			}
			r.Check("C11.program-level", "view.summary/"+want, root.Pos(sum.Pos()), ok, "viewer must declare the whole set excluded when "+want+" fails: "+detail+"; calls found: "+sigList(calls))
			// … whenever it fails: the test is reached on every path on which the earlier predicates held,
			// not only for some values of the metadata
			for _, a := range acs {
				extra := ""
				for _, f := range factsAt(a.Call) {
					isApproval := false
					for _, b := range calls {
						if f.Cond == ssa.Value(b.Call) && f.Pol {
							isApproval = true
						}
					}
					if !isApproval {
						extra = fmt.Sprintf("%s is %v", shortDesc(describe(f.Cond)), f.Pol)
					}
				}
				r.Check("C11.program-level", "view.summary/"+want+" is tested unconditionally", root.Pos(a.Call.Pos()), extra == "",
					"uploader and server apply "+want+" to every data set; the viewer tests it only when "+extra)
			}
		}
		// counter / stack level: a false predicate appends the name to the excluded list
		for _, want := range []string{"HasCounter(Program,key)", "HasStack(Program,cutnl(key))"} {
			rule := "C11.counter-level"
			if strings.HasPrefix(want, "HasStack") {
				rule = "C11.stack-level"
			}
			acs := bySig[want]
			ok := false
			for _, a := range acs {
				for _, succ := range branchSucc(a.Call, false) {
					if blockAppends(succ) {
						ok = true
					}
				}
			}
			r.Check(rule, "view.summary/"+want, root.Pos(sum.Pos()), ok, "viewer must list a counter as excluded when "+want+" is false; calls found: "+sigList(calls))
		}
		// stack/counter discrimination is "contains newline"
		siteExhaustive(r, root, "view.summary", sum, required)

		ncf := root.Func("cmd/gotelemetry/internal/view", "newCounterFile")
		calls = approvalCallsIn(ncf)
		have := sigSet(calls)
		for _, want := range append(append([]string{}, programLevel...), "HasCounter(Program,key)", "HasStack(Program,cutnl(key))") {
			rule := "C11.program-level"
			if strings.HasPrefix(want, "HasCounter") {
				rule = "C11.counter-level"
			} else if strings.HasPrefix(want, "HasStack") {
				rule = "C11.stack-level"
			}
			_, ok := have[want]
			r.Check(rule, "view.newCounterFile/"+want, root.Pos(ncf.Pos()), ok, "viewer's active flags must be computed by "+want+"; calls found: "+sigList(calls))
		}
		// ActiveMeta[K] must be computed by the predicate for K
		for _, in := range instrsOf(ncf) {
			mu, ok := in.(*ssa.MapUpdate)
			if !ok {
				continue
			}
			k, isC := constOf(mu.Key)
			if !isC {
				continue
			}
			call, isCall := strip(mu.Value).(*ssa.Call)
			if !isCall || !strings.HasPrefix(calleeName(&call.Call), cfgRecv+"Has") {
				continue
			}
			meth := strings.TrimPrefix(calleeName(&call.Call), cfgRecv)
			wantMeth := map[string]string{"Program": "HasProgram", "Version": "HasVersion", "GOOS": "HasGOOS", "GOARCH": "HasGOARCH", "GoVersion": "HasGoVersion"}[k]
			args := callArgs(&call.Call)
			lastRole, _ := argRole(args[len(args)-1])
			r.Check("C11.program-level", "view.newCounterFile/ActiveMeta["+k+"]", root.Pos(mu.Pos()), meth == wantMeth && lastRole == k,
				fmt.Sprintf("ActiveMeta[%q] must be %s(meta[%q]); got %s(…%s)", k, wantMeth, k, meth, lastRole))
		}
		siteExhaustive(r, root, "view.newCounterFile", ncf, required)
	}

	// ---- S2 server --------------------------------------------------------
	{
		gd := c.Godev()
		val := gd.Func("cmd/telemetrygodev", "validate")
		calls := approvalCallsIn(val)
		bySig := map[string][]approvalCall{}
		for _, a := range calls {
			bySig[a.Sig()] = append(bySig[a.Sig()], a)
		}
		for _, want := range append(append([]string{}, programLevel...), "HasCounter(Program,key)", "HasStack(Program,cutnl(key))") {
			rule := "C11.program-level"
			if strings.HasPrefix(want, "HasCounter") {
				rule = "C11.counter-level"
			} else if strings.HasPrefix(want, "HasStack") {
				rule = "C11.stack-level"
			}
			ok := false
			detail := "no call with these argument roles in validate"
			for _, a := range bySig[want] {
				for _, succ := range branchSucc(a.Call, false) {
					if _, rej := rejectBlock(succ); rej {
						ok = true
					} else {
						detail = "a false result does not lead to a rejecting return"
					}
				}
			}
			r.Check(rule, "telemetrygodev.validate/"+want, gd.Pos(val.Pos()), ok, "server must reject when "+want+" is false: "+detail+"; calls found: "+sigList(calls))
		}
		// every predicate is unskippable: within the loop that visits the checked item, no path
		// from the loop head back to it (next item) or to an accepting return avoids the call.
		loops := naturalLoops(val)
		for _, a := range calls {
			var inner *loopInfo
			for _, l := range loops {
				if l.blocks[a.Call.Block()] && (inner == nil || len(l.blocks) < len(inner.blocks)) {
					inner = l
				}
			}
			var start []*ssa.BasicBlock
			if inner != nil {
				for _, s := range inner.header.Succs {
					if inner.blocks[s] {
						start = append(start, s)
					}
				}
			} else {
				start = []*ssa.BasicBlock{val.Blocks[0]}
			}
			type edge struct{ pred, b *ssa.BasicBlock }
			seen := map[edge]bool{}
			escape := ""
			var walk func(pred, b *ssa.BasicBlock)
			walk = func(pred, b *ssa.BasicBlock) {
				if escape != "" || b == a.Call.Block() {
					return
				}
				if inner != nil && b == inner.header {
					escape = "the next item is reached"
					return
				}
				if seen[edge{pred, b}] {
					return
				}
				seen[edge{pred, b}] = true
				if ret, ok := b.Instrs[len(b.Instrs)-1].(*ssa.Return); ok {
					if _, rej := rejectBlock(b); !rej {
						escape = "an accepting return at " + gd.Pos(ret.Pos()) + " is reached"
					}
					return
				}
				for _, s := range feasibleSuccs(pred, b) {
					walk(b, s)
				}
			}
			for _, s := range start {
				walk(nil, s)
			}
			r.Check("C11.exhaustive", "telemetrygodev.validate/"+a.Sig()+" cannot be skipped", gd.Pos(a.Call.Pos()), escape == "",
				"every item must pass this predicate before it is accepted; without evaluating it "+escape)
		}
		// subject: all program-level roles are fields of the ranged element of r.Programs
		siteExhaustive(r, gd, "telemetrygodev.validate", val, required)
	}
	// the uploader folds each count file under the program report found for THAT file's build
	c07AccumulateAs(c, root, "C11.program-level")
	// the lookup tables behind the predicates are built as the documented semantics say
	c01TablesAs(c, root, "C11")
	r.Floor("C11.program-level", 20)
	r.Floor("C11.exhaustive", 4*len(required))
}

func sigList(acs []approvalCall) string {
	var s []string
	for _, a := range acs {
		s = append(s, a.Sig())
	}
	sort.Strings(s)
	return "{" + strings.Join(s, " ") + "}"
}

func siteExhaustive(r *Report, m *Module, site string, fn *ssa.Function, required []string) {
	have := map[string]bool{}
	for _, a := range approvalCallsIn(fn) {
		have[a.Method] = true
	}
	for _, meth := range required {
		r.Check("C11.exhaustive", site+"/"+meth, m.Pos(fn.Pos()), have[meth],
			"every approval predicate of config.Config must be consulted at every approval site (a new dimension must be honoured by uploader, server and viewer alike)")
	}
}

// checkSameKey: the predicate's key argument (index argIdx) must be derived from
// the very key value stored by mu.
func checkSameKey(r *Report, m *Module, rule, key string, mu *ssa.MapUpdate, a approvalCall, argIdx int, cut bool) {
	if a.Call == nil {
		return
	}
	arg := strip(callArgs(&a.Call.Call)[argIdx])
	ok := false
	if !cut {
		ok = arg == strip(mu.Key)
	} else {
		if e, isE := arg.(*ssa.Extract); isE {
			if c, isC := e.Tuple.(*ssa.Call); isC && len(argsOf(c)) > 0 {
				ok = strip(argsOf(c)[0]) == strip(mu.Key)
			}
		}
		if s, isS := arg.(*ssa.Slice); isS {
			ok = strip(s.X) == strip(mu.Key)
		}
	}
	r.Check(rule, key, m.Pos(mu.Pos()), ok, "the approval predicate must be applied to the same key that is stored: stored "+describe(mu.Key)+", tested "+describe(arg))
}

func lastReturn(fn *ssa.Function) *ssa.Return {
	var last *ssa.Return
	for _, b := range fn.Blocks {
		if ret, ok := b.Instrs[len(b.Instrs)-1].(*ssa.Return); ok {
			if last == nil || ret.Pos() > last.Pos() {
				last = ret
			}
		}
	}
	return last
}

// blockAppends reports whether block b (following jumps without branching)
// contains a call to append.
func blockAppends(b *ssa.BasicBlock) bool {
	for _, in := range b.Instrs {
		if isCallTo(in, "builtin:append") {
			return true
		}
	}
	return false
}
