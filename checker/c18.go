package main

// C18 — storage buckets confine, round-trip and list objects correctly (structural part).

import (
	"fmt"
	"go/token"
	"sort"
	"strings"

	"golang.org/x/tools/go/ssa"
)

func init() {
	register("C18", &propDef{
		run: runC18,
		decided: []string{
			"every object name the upload, merge and chart services pass to BucketHandle.Object is built only from constants, formatted dates, strings validated by time.Parse(DateOnly), %g of a float, or names returned by a listing (the read-only /charts/<x> page is tabled: ServeMux cleans the path)",
			"the file-system path of an object is formed in exactly one place as Join(dir, bucket, FromSlash(name)); listing reports ToSlash(relative path) of the same root, tests the prefix on the slash form, skips directories and never stops early",
			"reads map exactly os.ErrNotExist to ErrObjectNotExist; writes create parent directories and truncate",
		},
		notDecided: []string{"byte round trip and overwrite semantics at run time", "listing exactness over all histories"},
	})
}

type nameProv struct {
	m      *Module
	seen   map[ssa.Value]bool
	tabled []string
}

// ok reports whether v (an object name or part of one) has a confined provenance; use is
// the instruction at which it is consumed (for validation facts).
func (np *nameProv) ok(v ssa.Value, use ssa.Instruction, depth int) (bool, string) {
	v = strip(v)
	if depth > 8 {
		return false, "provenance too deep: " + describe(v)
	}
	if np.seen[v] {
		return true, ""
	}
	np.seen[v] = true
	defer func() { delete(np.seen, v) }()
	// validated by time.Parse(DateOnly, v) == nil on a dominating edge
	if use != nil && validatedDate(v, use) {
		return true, ""
	}
	// a field of a report that validate() accepted (validate checks Week with time.Parse: C12.validate-complete)
	if b, f, isF := fieldLoad(v); isF && f == "Week" && use != nil {
		if hasFact(factsAt(use), func(fc Fact) bool {
			bo, ok := fc.Cond.(*ssa.BinOp)
			if !ok || !isNilConst(bo.Y) {
				return false
			}
			cl, ok := strip(bo.X).(*ssa.Call)
			isNil := (bo.Op == token.EQL) == fc.Pol
			if !(ok && isNil && strings.HasSuffix(calleeName(&cl.Call), "telemetrygodev.validate")) {
				return false
			}
			if strip(argsOf(cl)[0]) == strip(b) || strip(argsOf(cl)[0]) == refine(strip(b), factsAt(use)) || strip(argsOf(cl)[0]) == strip(resolveLoad(strip(b))) {
				return true // (a report pointer that came back through a result variable is resolved where it is used)
			}
			// … or b holds a by-value copy of the report that was validated
			bb := strip(b)
			if ld, isLd := bb.(*ssa.UnOp); isLd && ld.Op == token.MUL {
				bb = ld.X // the whole struct value read from a variable: the variable
			}
			if ba, isA := bb.(*ssa.Alloc); isA {
				if strip(argsOf(cl)[0]) == ssa.Value(ba) {
					return true
				}
				for _, o := range copyOrigins(ba, factsAt(use)) {
					if strip(argsOf(cl)[0]) == ssa.Value(o) {
						return true
					}
				}
			}
			return false
		}) {
			return true, ""
		}
	}
	switch x := v.(type) {
	case *ssa.Const:
		return true, ""
	case *ssa.BinOp:
		if x.Op == token.ADD {
			if ok, why := np.ok(x.X, use, depth+1); !ok {
				return false, why
			}
			return np.ok(x.Y, use, depth+1)
		}
	case *ssa.Phi:
		for _, e := range x.Edges {
			if ok, why := np.ok(e, nil, depth+1); !ok {
				return false, why
			}
		}
		return true, ""
	case *ssa.Extract:
		if cl, ok := x.Tuple.(*ssa.Call); ok {
			n := calleeName(&cl.Call)
			if strings.HasSuffix(n, ".ObjectIterator).Next") && x.Index == 0 {
				return true, ""
			}
			if n == "strings.Cut" {
				return np.ok(argsOf(cl)[0], use, depth+1)
			}
		}
	case *ssa.Call:
		n := calleeName(&x.Call)
		switch {
		case n == "(time.Time).Format":
			return true, ""
		case n == "strconv.FormatFloat":
			return true, "" // digits, sign, point, exponent: no separators
		case n == "fmt.Sprintf":
			f, isC := constOf(argsOf(x)[0])
			if !isC {
				return false, "non-constant format"
			}
			if sl, ok := argsOf(x)[1].(*ssa.Slice); ok {
				if el, ok := varargElems(sl); ok {
					verbs := formatVerbs(f)
					for i, e := range el {
						vb := ""
						if i < len(verbs) {
							vb = verbs[i]
						}
						if vb == "g" || vb == "d" || vb == "f" || vb == "v" && isNumeric(strip(e)) {
							continue
						}
						if ok, why := np.ok(e, x, depth+1); !ok {
							if validatedDate(strip(e), x) {
								continue
							}
							return false, why
						}
					}
					return true, ""
				}
			}
			return false, "cannot resolve Sprintf arguments"
		case n == "strings.TrimSuffix" || n == "strings.TrimPrefix" || n == "strings.TrimSpace":
			return np.ok(argsOf(x)[0], use, depth+1)
		}
		if f := x.Call.StaticCallee(); f != nil && f.Blocks != nil && strings.HasPrefix(fname(f), "godev/") {
			// a repo function returning the name: every returned value must be ok
			for _, b := range f.Blocks {
				if ret, ok := b.Instrs[len(b.Instrs)-1].(*ssa.Return); ok && len(ret.Results) >= 1 {
					if ok, why := np.ok(ret.Results[0], nil, depth+1); !ok {
						return false, why
					}
				}
			}
			return true, ""
		}
	case *ssa.Parameter:
		fn := x.Parent()
		idx := -1
		for i, p := range fn.Params {
			if p == x {
				idx = i
			}
		}
		callers := np.m.callersOf(fn)
		if len(callers) == 0 {
			return false, "parameter " + x.Name() + " of " + fname(fn) + " with no resolved caller"
		}
		for _, cs := range callers {
			args := argsOf(cs)
			if idx >= len(args) {
				return false, "caller arity"
			}
			if ok, why := np.ok(args[idx], cs, depth+1); !ok {
				return false, why + " (via " + fname(cs.Parent()) + ")"
			}
		}
		return true, ""
	case *ssa.FreeVar:
		if b := freeVarBinding(x); b != nil {
			return np.ok(b, nil, depth+1)
		}
	case *ssa.UnOp:
		if x.Op == token.MUL {
			// load of a captured/spilled local: all stores must be ok
			var al *ssa.Alloc
			switch a := x.X.(type) {
			case *ssa.Alloc:
				al = a
			case *ssa.FreeVar:
				if b, ok := freeVarBinding(a).(*ssa.Alloc); ok {
					al = b
				}
			}
			if al != nil {
				n := 0
				for _, r := range referrers(al) {
					if st, ok := r.(*ssa.Store); ok && st.Addr == ssa.Value(al) {
						n++
						if ok, why := np.ok(st.Val, st, depth+1); !ok {
							return false, why
						}
					}
				}
				if n > 0 {
					return true, ""
				}
			}
			// the request path on the read-only charts page
			if d := describe(x); strings.HasSuffix(d, ".URL.Path") {
				np.tabled = append(np.tabled, "request path of the read-only /charts/<x> page: http.ServeMux redirects any path with . or .. elements before the handler runs, and the handler only reads")
				return true, ""
			}
		}
	}
	if d := describe(v); strings.HasSuffix(d, ".URL.Path") {
		np.tabled = append(np.tabled, "request path of the read-only /charts/<x> page (ServeMux-cleaned)")
		return true, ""
	}
	return false, "unconfined source: " + shortDesc(describe(v))
}

func isNumeric(v ssa.Value) bool {
	return isInteger(v.Type()) || strings.HasPrefix(v.Type().String(), "float")
}

func formatVerbs(f string) []string {
	var out []string
	for i := 0; i < len(f); i++ {
		if f[i] != '%' {
			continue
		}
		j := i + 1
		for j < len(f) && strings.ContainsRune("+-# 0123456789.", rune(f[j])) {
			j++
		}
		if j < len(f) {
			if f[j] != '%' {
				out = append(out, string(f[j]))
			}
			i = j
		}
	}
	return out
}

// validatedDate: at `use`, time.Parse("2006-01-02", v) is known to have returned a nil error.
func validatedDate(v ssa.Value, use ssa.Instruction) bool {
	return hasFact(factsAt(use), func(f Fact) bool {
		bo, ok := f.Cond.(*ssa.BinOp)
		if !ok {
			return false
		}
		var e ssa.Value
		if isNilConst(bo.Y) {
			e = bo.X
		} else if isNilConst(bo.X) {
			e = bo.Y
		} else {
			return false
		}
		ex, ok := strip(e).(*ssa.Extract)
		if !ok {
			return false
		}
		pc, ok := ex.Tuple.(*ssa.Call)
		if !ok || calleeName(&pc.Call) != "time.Parse" {
			return false
		}
		k, _ := constOf(argsOf(pc)[0])
		same := strip(argsOf(pc)[1]) == v || describeArg(pc, 1) == describe(v)
		isNil := (bo.Op == token.EQL) == f.Pol
		return k == "2006-01-02" && same && isNil
	})
}

func runC18(c *Ctx) {
	gd := c.Godev()
	r := c.R
	// the upload object is named <Week>/<X>.json after validate accepted the report: the name
	// stays inside the bucket because an accepted week is a date (no separators, no "..")
	c12AcceptHeader(c, gd, gd.Func("cmd/telemetrygodev", "validate"), "C18.names-confined")
	c18WhoCreates(c, gd)
	c18BucketWiring(c, gd, "C18.names-confined")
	// ---- names confined ---------------------------------------------------------
	n := 0
	for _, fn := range gd.srcFns {
		p := fname(fn)
		if !strings.HasPrefix(p, "godev/cmd/") && !strings.HasPrefix(p, "(godev/cmd/") {
			continue
		}
		for _, cs := range callsIn(fn) {
			cn := calleeName(cs.Common())
			if !strings.HasSuffix(cn, ".BucketHandle).Object") {
				continue
			}
			n++
			np := &nameProv{m: gd, seen: map[ssa.Value]bool{}}
			ok, why := np.ok(argsOf(cs)[0], cs, 0)
			detail := why
			if len(np.tabled) > 0 {
				detail = "tabled: " + np.tabled[0]
				// the tabled source is acceptable only for reads
				for _, u := range referrers(cs.(*ssa.Call)) {
					if cc := callOf(u); cc != nil && strings.HasSuffix(calleeName(cc), ".NewWriter") {
						ok = false
						detail = "request-derived name used for a WRITE"
					}
				}
			}
			bucket := describe(cs.Common().Value)
			if i := strings.LastIndex(bucket, "."); i >= 0 {
				bucket = bucket[i+1:]
			}
			r.Check("C18.names-confined", fname(fn)+"/Object("+shortDesc(stripNames(describeArg(cs, 0)))+") on "+bucket, gd.Pos(cs.Pos()), ok,
				"object names must be built from constants, formatted/validated dates, floats or listed names: "+detail)
		}
	}
	r.Check("C18.names-confined", "Object call sites enumerated", "-", n >= 7, fmt.Sprintf("%d call sites in godev/cmd", n))

	c18FSObjectPath(c, gd, "C18.names-confined")
	nfo := gd.Func("internal/storage", "NewFSObject")
	for _, cs := range gd.callersOf(nfo) {
		r.Check("C18.names-confined", "caller of NewFSObject: "+fname(cs.Parent()), gd.Pos(cs.Pos()), fname(cs.Parent()) == "(*godev/internal/storage.FSBucket).Object", "only FSBucket.Object creates file-system objects")
	}
	// FSObject.filename is written only there
	for _, fn := range gd.PkgFuncs("internal/storage") {
		for _, in := range instrsOf(fn) {
			if st, ok := in.(*ssa.Store); ok {
				if fa, ok := st.Addr.(*ssa.FieldAddr); ok {
					if _, f, _ := fieldAddrName(fa); f == "filename" {
						r.Check("C18.names-confined", "FSObject.filename set in "+fname(fn), gd.Pos(st.Pos()), fn == nfo, "the path of an object is fixed at construction")
					}
				}
			}
		}
	}

	// ---- listing -------------------------------------------------------------------------
	objs := gd.Func("internal/storage", "FSBucket.Objects")
	var walk *ssa.Call
	for _, cs := range callsIn(objs, "io/fs.WalkDir") {
		walk = cs.(*ssa.Call)
	}
	r.Check("C18.slash-agreement", "Objects/walks the bucket directory", gd.Pos(objs.Pos()), walk != nil, "fs.WalkDir expected")
	if walk != nil {
		root := describeArg(walk, 0)
		r.Check("C18.walk-root", "Objects/walk root is Join(dir, bucket)", gd.Pos(walk.Pos()), root == "os.DirFS(path/filepath.Join([param:b.dir, param:b.bucket]))" && describeArg(walk, 1) == `"."`,
			"the listing must walk exactly the directory objects are written under; got "+root)
		cb := funcValue(argsOf(walk)[2])
		if cb == nil {
			r.Check("C18.slash-agreement", "Objects/callback", gd.Pos(walk.Pos()), false, "cannot resolve the walk callback")
		} else {
			// every return of the callback is nil: the walk never stops early and skips nothing
			for _, b := range cb.Blocks {
				if ret, ok := b.Instrs[len(b.Instrs)-1].(*ssa.Return); ok {
					r.Check("C18.listing-complete", "Objects/callback never stops or prunes the walk", gd.Pos(ret.Pos()), isNilConst(ret.Results[0]),
						"returning fs.SkipAll/SkipDir or an error ends the listing early (WalkDir visits directories component-wise, not in full-path lexical order): returns "+describe(ret.Results[0]))
				}
			}
			// the names handed to the iterator: follow the slice back through every place it is
			// grown. Each grow site appends either the slash form of the walked path (in the
			// callback) or an element of an earlier list (a later filtering pass); along the way
			// exactly two things may filter: the entry is not a directory, and the name has the prefix.
			var names ssa.Value
			for _, in := range instrsOf(objs) {
				if a, ok := in.(*ssa.Alloc); ok && strings.HasSuffix(namedType(a.Type()), "storage.FSObjectIterator") {
					if lit, ok := structLit(a); ok {
						names = lit["names"]
					}
				}
			}
			sites := growSites(names)
			if len(sites) == 0 {
				// the list is grown in place in a field (it.names = append(it.names, …), or a small
				// collector struct): every append of a string in Objects and its literals is a site
				for _, f := range WithClosures(objs) {
					for _, cs := range callsIn(f, "builtin:append") {
						cl := cs.(*ssa.Call)
						if _, el, ok := appendedElems(cl); ok && len(el) == 1 && isStringy(el[0].Type()) {
							sites = append(sites, growSite{cl, el[0]})
						}
					}
				}
			}
			sawDir, sawPrefix, okShape := false, false, len(sites) > 0
			detail := ""
			for _, gs := range sites {
				facts := factsAt(gs.call)
				ed := describe(gs.elem)
				fromWalk := ed == "path/filepath.ToSlash(param:path)" && gs.call.Parent() == cb
				fromList := strings.HasPrefix(ed, "phi:") || strings.Contains(ed, "rangeval(") || strings.HasSuffix(ed, "]")
				if !fromWalk && !fromList {
					okShape = false
					detail += " element " + shortDesc(ed) + ";"
				}
				// every condition this site sits under is one of the two filters (loop mechanics aside)
				for _, f := range facts {
					cl, isCall := f.Cond.(*ssa.Call)
					kind, sv, pv, isAffix := affixTest(f.Cond)
					switch {
					case isCall && strings.HasSuffix(calleeName(&cl.Call), "DirEntry).IsDir") && !f.Pol:
						sawDir = true
					case isAffix && kind == "HasPrefix" && f.Pol && describe(pv) == "param:prefix" &&
						(describe(sv) == "path/filepath.ToSlash(param:path)" || sv == gs.elem || describe(sv) == ed):
						sawPrefix = true
					case c18PrefixLenGuard(f):
						// the length guard of a hand-written prefix test
					case isLoopMechanics(f):
					default:
						okShape = false
						detail += " extra condition " + shortDesc(describe(f.Cond)) + ";"
					}
				}
			}
			r.Check("C18.slash-agreement", "Objects/lists slash-form names of files with the prefix", gd.Pos(objs.Pos()), okShape && sawDir && sawPrefix,
				fmt.Sprintf("names = ToSlash(path) of the walked entries, filtered by ¬IsDir and HasPrefix(name, prefix) only: notDir=%v prefix=%v sites=%d%s", sawDir, sawPrefix, len(sites), detail))
			// and nothing else filters in the callback: its branches are the two tests (or fewer, when the prefix is applied in a later pass)
			nIf := 0
			for _, in := range instrsOf(cb) {
				if ifi, ok := in.(*ssa.If); ok {
					if c18PrefixLenGuard(normFact(ifi.Cond, true)) {
						continue // part of a hand-written prefix test
					}
					nIf++
				}
			}
			r.Check("C18.listing-complete", "Objects/only the directory and prefix tests filter entries", gd.Pos(cb.Pos()), nIf <= 2 && nIf >= 1, fmt.Sprintf("%d conditions in the walk callback", nIf))
		}
	}
	// NewFSBucket creates the same root
	nb := gd.Func("internal/storage", "NewFSBucket")
	okRoot := false
	for _, cs := range callsIn(nb, "os.MkdirAll") {
		okRoot = describeArg(cs, 0) == "path/filepath.Join([param:dir, param:bucket])"
	}
	r.Check("C18.walk-root", "NewFSBucket/creates Join(dir, bucket)", gd.Pos(nb.Pos()), okRoot, "the bucket directory is dir/bucket")

	// ---- reader / writer ---------------------------------------------------------------------
	rd := gd.Func("internal/storage", "FSObject.NewReader")
	okMap := false
	for _, b := range rd.Blocks {
		ret, ok := b.Instrs[len(b.Instrs)-1].(*ssa.Return)
		if !ok {
			continue
		}
		ed := describe(ret.Results[1])
		if strings.HasSuffix(ed, "storage.ErrObjectNotExist") {
			okMap = hasFact(factsAt(ret), callResultIs("errors.Is", true, func(a []ssa.Value, _ *ssa.Call) bool { return describe(a[1]) == "*global:os.ErrNotExist" }))
			r.Check("C18.not-exist", "NewReader/ErrObjectNotExist only for a missing file", gd.Pos(ret.Pos()), okMap, "ErrObjectNotExist ⇐ errors.Is(err, os.ErrNotExist)")
		} else {
			r.Check("C18.not-exist", "NewReader/other results pass through", gd.Pos(ret.Pos()), strings.HasPrefix(ed, "os.Open(param:o.filename)#1"), "got "+ed)
		}
	}
	r.Check("C18.not-exist", "NewReader/maps a missing file to ErrObjectNotExist", gd.Pos(rd.Pos()), okMap, "")
	c18Writer(c, gd, "C18.write-truncates")
}

// c18Writer: FSObject.NewWriter replaces the object's content and creates parent directories.
func c18Writer(c *Ctx, gd *Module, rule string) {
	r := c.R
	wr := gd.Func("internal/storage", "FSObject.NewWriter")
	okTrunc := false
	for _, cs := range callsIn(wr, "os.Create") {
		okTrunc = describeArg(cs, 0) == "param:o.filename"
	}
	for _, cs := range callsIn(wr, "os.OpenFile") {
		okTrunc = describeArg(cs, 0) == "param:o.filename" && gd.openFlagsHave(cs.Common(), "O_CREATE", "O_TRUNC", "O_WRONLY") || gd.openFlagsHave(cs.Common(), "O_CREATE", "O_TRUNC", "O_RDWR")
	}
	r.Check(rule, "godev/internal/storage.(*FSObject).NewWriter", gd.Pos(wr.Pos()), okTrunc, "writing an object must replace its content: os.Create or OpenFile with O_CREATE|O_TRUNC (without O_TRUNC a shorter overwrite keeps a stale tail)")
	okMk := false
	for _, cs := range callsIn(wr, "os.MkdirAll") {
		okMk = describeArg(cs, 0) == "path/filepath.Dir(param:o.filename)"
	}
	r.Check(rule, "NewWriter/creates parent directories", gd.Pos(wr.Pos()), okMk, "nested object names need their directories")
}

// growSite: one place where a slice is grown by append(acc, elem).
type growSite struct {
	call *ssa.Call
	elem ssa.Value
}

// growSites follows a slice value back through merges, captured variables and append calls
// and returns every append that contributes elements to it.
func growSites(v ssa.Value) []growSite {
	var out []growSite
	seen := map[ssa.Value]bool{}
	var visit func(v ssa.Value, depth int)
	storesTo := func(a ssa.Value) []ssa.Value {
		var vals []ssa.Value
		var scan func(addr ssa.Value, depth int)
		scan = func(addr ssa.Value, depth int) {
			if depth > 4 {
				return
			}
			for _, u := range referrers(addr) {
				switch x := u.(type) {
				case *ssa.Store:
					if x.Addr == addr {
						vals = append(vals, x.Val)
					}
				case *ssa.MakeClosure:
					for i, b := range x.Bindings {
						if b == addr {
							scan(x.Fn.(*ssa.Function).FreeVars[i], depth+1)
						}
					}
				}
			}
		}
		scan(a, 0)
		return vals
	}
	visit = func(v ssa.Value, depth int) {
		if v == nil || seen[v] || depth > 12 {
			return
		}
		seen[v] = true
		switch x := strip(v).(type) {
		case *ssa.Phi:
			for _, e := range x.Edges {
				visit(e, depth+1)
			}
		case *ssa.UnOp:
			if x.Op == token.MUL {
				base := x.X
				for k := 0; k < 4; k++ {
					fv, ok := base.(*ssa.FreeVar)
					if !ok {
						break
					}
					if b := freeVarBinding(fv); b != nil {
						base = b
					} else {
						break
					}
				}
				for _, sv := range storesTo(base) {
					visit(sv, depth+1)
				}
			}
		case *ssa.Call:
			if calleeName(&x.Call) == "builtin:append" {
				base, elems, ok := appendedElems(x)
				if ok {
					for _, e := range elems {
						out = append(out, growSite{x, e})
						// an element taken from another list: that list's grow sites contribute too
						if ld, ok := strip(e).(*ssa.UnOp); ok && ld.Op == token.MUL {
							if ia, ok := ld.X.(*ssa.IndexAddr); ok {
								visit(ia.X, depth+1)
							}
						}
						if ix, ok := strip(e).(*ssa.Index); ok {
							visit(ix.X, depth+1)
						}
					}
				}
				visit(base, depth+1)
			}
		case *ssa.Slice:
			visit(x.X, depth+1)
		}
	}
	visit(v, 0)
	return out
}

// isLoopMechanics: a fact that only says "the loop is still running" (range has a next
// element, index below length) or "an error value is nil".
func isLoopMechanics(f Fact) bool {
	switch c := f.Cond.(type) {
	case *ssa.Extract:
		if _, ok := c.Tuple.(*ssa.Next); ok && c.Index == 0 {
			return true
		}
	case *ssa.BinOp:
		if c.Op == token.LSS || c.Op == token.LEQ || c.Op == token.GTR || c.Op == token.GEQ {
			d := describe(c.X) + " " + describe(c.Y)
			return strings.Contains(d, "builtin:len(") || strings.Contains(d, "phi:")
		}
		if (c.Op == token.EQL || c.Op == token.NEQ) && (isNilConst(c.X) || isNilConst(c.Y)) {
			return true
		}
	}
	return false
}

// c18FSObjectPath: the file behind an object is Join(dir, bucket, FromSlash(name)) — the name
// as given, not a rewritten one (shared with C12: the object is named by the report's week and X).
func c18FSObjectPath(c *Ctx, gd *Module, rule string) {
	r := c.R
	// ---- single path construction ---------------------------------------------------
	nfo := gd.Func("internal/storage", "NewFSObject")
	okJoin := false
	for _, cs := range callsIn(nfo, "path/filepath.Join") {
		d := describeArg(cs, 0)
		okJoin = d == "[param:b.dir, param:b.bucket, path/filepath.FromSlash(param:name)]"
		r.Check(rule, "NewFSObject/path = Join(dir, bucket, FromSlash(name))", gd.Pos(cs.Pos()), okJoin, "got "+d)
	}
	r.Check(rule, "NewFSObject/builds the path with filepath.Join", gd.Pos(nfo.Pos()), okJoin, "Join cleans the result; string concatenation would not")
}

// c18WhoCreates: a file appears in a bucket's directory only because an object was written:
// the listing returns every regular file, so a file the storage package creates on its own (a
// marker, a .gitignore) is listed as an object nobody stored and can be read back as one.
func c18WhoCreates(c *Ctx, gd *Module) {
	r := c.R
	n := 0
	for _, fn := range gd.PkgFuncs("internal/storage") {
		for _, cs := range callsIn(fn, "os.WriteFile", "os.Create", "os.OpenFile", "os.CreateTemp", "io/ioutil.WriteFile", "os.Symlink", "os.Link", "os.Rename") {
			top := fnameTop(fn)
			isWriter := strings.HasSuffix(top, "FSObject).NewWriter")
			creates := true
			if calleeName(cs.Common()) == "os.OpenFile" && !gd.openFlagsHave(cs.Common(), "O_CREATE") {
				creates = false
			}
			if !creates {
				continue
			}
			n++
			r.Check("C18.listing-exact", "file created in "+top, gd.Pos(cs.Pos()), isWriter, "only (*FSObject).NewWriter may create files under a bucket: anything else shows up in Objects() as an object nobody stored")
		}
	}
	r.Check("C18.listing-exact", "file-creating calls of the storage package enumerated", "-", n >= 1, fmt.Sprintf("%d", n))
}

// c18PrefixLenGuard: len(name) >= len(prefix) (in any of its spellings), the guard that a
// hand-written prefix test needs before it slices the name.
func c18PrefixLenGuard(f Fact) bool {
	bo, ok := f.Cond.(*ssa.BinOp)
	if !ok {
		return false
	}
	switch bo.Op {
	case token.GEQ, token.LEQ, token.LSS, token.GTR:
	default:
		return false
	}
	dx, dy := describe(bo.X), describe(bo.Y)
	isLenPrefix := func(d string) bool { return d == "builtin:len(param:prefix)" }
	isLenName := func(d string) bool { return strings.HasPrefix(d, "builtin:len(") && !isLenPrefix(d) }
	return (isLenPrefix(dx) && isLenName(dy)) || (isLenPrefix(dy) && isLenName(dx))
}

// c18BucketWiring: the three services work on three different buckets, and each handle of the API
// is the bucket of its own name: API.Upload ← cfg.UploadBucket, API.Merge ← cfg.MergedBucket,
// API.Chart ← cfg.ChartDataBucket; the three configured names are one prefix followed by three
// different constants. (Handles of one type in a positional literal: the compiler cannot tell them
// apart. A chart written as <date>.json into the merged bucket replaces that day's reports.)
func c18BucketWiring(c *Ctx, gd *Module, rule string) {
	r := c.R
	api := gd.Func("internal/storage", "NewAPI")
	want := map[string]string{"Upload": "UploadBucket", "Merge": "MergedBucket", "Chart": "ChartDataBucket"}
	n := 0
	for _, ex := range exitPaths(api) {
		v := strip(refine(ex.vals[0], ex.facts))
		if k, isC := v.(*ssa.Const); isC && k.IsNil() {
			continue
		}
		lit, ok := structLit(v)
		if !ok {
			r.Check(rule, "NewAPI/result is an API literal", gd.Pos(ex.ret.Pos()), false, "got "+shortDesc(describe(v)))
			continue
		}
		for fld, cfgFld := range want {
			n++
			d := describe(lit[fld])
			okF := strings.Contains(d, "storage.NewBucket(") && strings.HasSuffix(d, "param:cfg."+cfgFld+")#0")
			if !okF {
				// through a helper that opens the named buckets in order (mapsum.go): element i is NewBucket(…, i-th name)
				if el, re, arg, isM := mappedElement(lit[fld]); isM {
					if ex, isEx := strip(el).(*ssa.Extract); isEx && ex.Index == 0 {
						if cl, isCall := ex.Tuple.(*ssa.Call); isCall && strings.HasSuffix(calleeName(&cl.Call), "storage.NewBucket") && len(cl.Call.Args) == 3 && cl.Call.Args[2] == re {
							okF = describe(arg) == "param:cfg."+cfgFld
							d = "NewBucket(…, " + describe(arg) + ") through " + calleeName(&cl.Call)
						}
					}
				}
			}
			r.Check(rule, "NewAPI/API."+fld+" is the bucket named by cfg."+cfgFld, gd.Pos(ex.ret.Pos()), okF, "got "+shortDesc(d))
		}
	}
	r.Check(rule, "NewAPI/handles enumerated", gd.Pos(api.Pos()), n == 3, fmt.Sprintf("%d", n))
	// the configured names are pairwise different
	nc := gd.Func("internal/config", "NewConfig")
	names := map[string]string{}
	for _, ex := range exitPaths(nc) {
		lit, ok := structLit(strip(ex.vals[0]))
		if !ok {
			continue
		}
		for _, cfgFld := range want {
			if v := lit[cfgFld]; v != nil {
				names[cfgFld] = describe(v)
			}
		}
	}
	var flds []string
	for _, f := range want {
		flds = append(flds, f)
	}
	sort.Strings(flds)
	for i, a := range flds {
		pa, ka, okA := sepSuffixConst(names[a])
		r.Check(rule, "NewConfig/"+a+" is the environment followed by a constant", gd.Pos(nc.Pos()), okA, "got "+shortDesc(names[a]))
		for _, b := range flds[i+1:] {
			pb, kb, okB := sepSuffixConst(names[b])
			r.Check(rule, "NewConfig/"+a+" and "+b+" name different buckets", gd.Pos(nc.Pos()), okA && okB && pa == pb && ka != kb,
				fmt.Sprintf("%s = %s, %s = %s", a, shortDesc(names[a]), b, shortDesc(names[b])))
		}
	}
}

// sepSuffixConst: d is the canonical form (<prefix> + "<const>"); returns prefix and constant.
func sepSuffixConst(d string) (string, string, bool) {
	if !strings.HasPrefix(d, "(") || !strings.HasSuffix(d, `")`) {
		return "", "", false
	}
	i := strings.LastIndex(d, ` + "`)
	if i < 0 {
		return "", "", false
	}
	return d[1:i], d[i+4 : len(d)-2], true
}
