package main

// C01 — uploaded reports contain only configuration-approved data.

import (
	"fmt"
	"sort"
	"strings"

	"golang.org/x/tools/go/ssa"
)

func init() {
	register("C01", &propDef{
		run: runC01,
		decided: []string{
			"every store that adds data to the upload report (program append, x.Counters[k], x.Stacks[k]) is dominated by the approval predicates of the configuration fetched for this run, applied to that very program/key, and by X <= rate for the matching kind",
			"no other field of the upload report or of its program entries is written except header fields copied from the local report and identity fields copied from the approved program",
			"config tables: each lookup table is written from exactly one list of the upload config; counter keys are Expand() results; rates are stored verbatim; accessors read the table of their kind",
			"single network sink; exec sites are the frozen table; the posted body is the parameter that the only caller fills with the bytes of the ready file; URL carries only the date",
		},
		notDecided: []string{"values equal the sums over the week's files (C07 decides the accumulate shape only)", "completeness (every approved counter is included)", "string semantics of Expand on odd bucket syntax"},
	})
}

func runC01(c *Ctx) {
	c10LengthWord(c, c.Root(), "C01.body")
	c15DecodeResult(c, c.Root(), "C01.body")
	// files of every library revision are read alike: the layout constants are the documented ones
	c10Constants(c, c.Root(), "C01.metadata")
	// what Parse hands the uploader is what the file holds: metadata values untrimmed, every record kept
	c.R.As(map[string]string{"C06.faithful": "C01.metadata"}, func() {
		c06Shape(c, c.Root(), c.Root().Func("internal/counter", "Parse"))
	})

	m := c.Root()
	c01Gate(c, m)
	c01Tables(c, m)
	c01Sink(c, m)
	c01Body(c, m)
	identityRule(c, m, "C01.identity")
	// only upload-form reports are ever queued for sending (never the unfiltered local.* aggregate)
	c02ReadyNames(c, m, "C01.sink")
	// each value is the SUM over the week's files, and every local entry takes part in it
	c07AccumulateAs(c, m, "C01.body")
	// … over files parsed afresh by this run (no process-wide cache of parsed files)
	c07CacheScopeAs(c, m, "C01.body")
}

const rateAcc = cfgRecv + "Rate"
const stackRateAcc = cfgRecv + "StackRate"

func c01Gate(c *Ctx, m *Module) {
	r := c.R
	us := findUploadSite(m)
	fn := us.fn
	// cfg provenance
	var cfgVals = map[ssa.Value]bool{}
	noteCfg := func(call *ssa.Call) {
		if rv := recvOf(&call.Call); rv != nil {
			cfgVals[strip(rv)] = true
		}
	}
	// program store
	{
		facts := sigSet(approvalFacts(us.progStore))
		for _, want := range []string{"HasGoVersion(GoVersion)", "HasProgram(Program)", "HasVersion(Program,Version)"} {
			a, ok := facts[want]
			if ok {
				noteCfg(a.Call)
			}
			r.Check("C01.gate", "createReport/append program/"+want, m.Pos(us.progStore.Pos()), ok,
				"a program is added to the upload report only under "+want+"; facts: {"+keysOf(facts)+"}")
		}
	}
	rateGuard := func(mu *ssa.MapUpdate, kind string, wantAcc string, keyRole string) {
		// find a fact X <= acc(Program, keyRole)
		found := false
		detail := "no fact comparing the report's X with the configured rate"
		for _, f := range factsAt(mu) {
			b, ok := f.Cond.(*ssa.BinOp)
			if !ok {
				continue
			}
			var call *ssa.Call
			var other ssa.Value
			if cl, ok := strip(b.Y).(*ssa.Call); ok && strings.HasPrefix(calleeName(&cl.Call), cfgRecv) {
				call, other = cl, b.X
			} else if cl, ok := strip(b.X).(*ssa.Call); ok && strings.HasPrefix(calleeName(&cl.Call), cfgRecv) {
				call, other = cl, b.Y
			}
			if call == nil {
				continue
			}
			acc := calleeName(&call.Call)
			fb := newFormulaBuilder()
			fb.names[call] = "rate"
			fb.names[strip(other)] = "X"
			e := fb.formula(b)
			if !f.Pol {
				e = bNot{e}
			}
			okT, why, _ := equivalent(e, mkOrd("X", "<=", "rate"))
			// X must be the X field of a Report
			_, fld, isF := fieldLoad(other)
			var roles []string
			for _, a := range callArgs(&call.Call) {
				ro, _ := argRole(a)
				roles = append(roles, ro)
			}
			okRoles := len(roles) == 2 && roles[0] == "Program" && roles[1] == keyRole
			okAcc := acc == wantAcc
			noteCfg(call)
			detail = fmt.Sprintf("guard %s uses %s(%s); %s", describe(b), strings.TrimPrefix(acc, cfgRecv), strings.Join(roles, ","), why)
			if okT && isF && fld == "X" && okRoles && okAcc {
				found = true
				// same X as stored in upload.X
				okSameX := false
				if hd, ok := reportHeader(fn, us.upload); ok {
					ob, of, isF := fieldLoad(other)
					okSameX = isF && hd["X"].Base != nil && hd["X"].Base == strip(ob) && hd["X"].Field == of
				}
				r.Check("C01.gate", "createReport/"+kind+" rate guard uses the uploaded X", m.Pos(mu.Pos()), okSameX, "the X compared with the rate must be the X written into the upload report")
			}
		}
		r.Check("C01.gate", "createReport/store x."+kind+"[k]/X <= rate", m.Pos(mu.Pos()), found,
			"a "+kind+" value is copied only under X <= "+strings.TrimPrefix(wantAcc, cfgRecv)+"(Program, "+keyRole+"): "+detail)
	}
	for _, mu := range us.ctrUpd {
		facts := sigSet(approvalFacts(mu))
		a, ok := facts["HasCounter(Program,key)"]
		if ok {
			noteCfg(a.Call)
		}
		r.Check("C01.gate", "createReport/store x.Counters[k]/HasCounter", m.Pos(mu.Pos()), ok, "facts: {"+keysOf(facts)+"}")
		checkSameKey(r, m, "C01.gate", "createReport/store x.Counters[k]/same-key", mu, a, 1, false)
		rateGuard(mu, "Counters", rateAcc, "key")
		checkValueFromSameKey(r, m, mu, "Counters")
	}
	for _, mu := range us.stackUpd {
		facts := sigSet(approvalFacts(mu))
		a, ok := facts["HasStack(Program,cutnl(key))"]
		if ok {
			noteCfg(a.Call)
		}
		r.Check("C01.gate", "createReport/store x.Stacks[k]/HasStack", m.Pos(mu.Pos()), ok, "facts: {"+keysOf(facts)+"}")
		checkSameKey(r, m, "C01.gate", "createReport/store x.Stacks[k]/same-key", mu, a, 1, true)
		rateGuard(mu, "Stacks", stackRateAcc, "cutnl(key)")
		checkValueFromSameKey(r, m, mu, "Stacks")
	}
	for _, in := range us.otherUpd {
		r.Check("C01.gate", "createReport/other map store into the uploaded program", m.Pos(in.Pos()), false, "unexpected map update on the uploaded program report: "+in.String())
	}
	// one cfg, built from u.config
	okCfg := len(cfgVals) == 1
	detail := fmt.Sprintf("%d distinct config values used by the guards", len(cfgVals))
	for v := range cfgVals {
		d := describe(v)
		detail = d
		if !(strings.HasPrefix(d, "internal/config.NewConfig(") && strings.Contains(d, "param:u.config")) {
			okCfg = false
		}
	}
	r.Check("C01.gate", "createReport/guards use NewConfig(u.config)", m.Pos(fn.Pos()), okCfg, "all approval predicates must be asked of the configuration of this run: "+detail)

	// u.config is assigned only in newUploader, from configstore.Download or the empty config
	newUp := m.Func("internal/upload", "newUploader")
	for _, f := range m.PkgFuncs("internal/upload") {
		for _, in := range instrsOf(f) {
			st, ok := in.(*ssa.Store)
			if !ok {
				continue
			}
			fa, ok := st.Addr.(*ssa.FieldAddr)
			if !ok {
				continue
			}
			if _, fld, _ := fieldAddrName(fa); fld != "config" || namedType(fa.X.Type()) != "internal/upload.uploader" {
				continue
			}
			okSrc := f == newUp
			d := describe(st.Val)
			// every value that can be stored (through any number of merges) is a download
			// result or the empty configuration literal
			for _, e := range alternatives(st.Val, factsAt(st)) {
				de := describe(e)
				if !(strings.HasPrefix(de, "internal/configstore.Download(") || strings.HasPrefix(de, "alloc:complit")) {
					okSrc = false
					d = de
				}
			}
			r.Check("C01.gate", "uploader.config assigned in "+fname(f), m.Pos(st.Pos()), okSrc, "the run's configuration comes from configstore.Download (or is the empty config when the mode is not on); got "+d)
		}
	}

	// ---- metadata: every store into upload / x ---------------------------------
	var reportAlloc ssa.Value
	for _, in := range instrsOf(fn) {
		st, ok := in.(*ssa.Store)
		if !ok {
			continue
		}
		fa, ok := st.Addr.(*ssa.FieldAddr)
		if !ok {
			continue
		}
		base := strip(fa.X)
		_, fld, _ := fieldAddrName(fa)
		switch base {
		case us.upload:
			if fld == "Programs" {
				continue
			}
			// header stores are judged below through reportHeader (also covers helper-built reports)
		case us.x:
			switch fld {
			case "Counters", "Stacks":
				_, isMake := strip(st.Val).(*ssa.MakeMap)
				r.Check("C01.metadata", "createReport/x."+fld+" starts empty", m.Pos(st.Pos()), isMake, "the uploaded program's "+fld+" must start as a fresh empty map (never the local map itself); got "+describe(st.Val))
			default:
				_, f2, ok := fieldLoad(st.Val)
				okId := ok && f2 == fld && (fld == "Program" || fld == "Version" || fld == "GoVersion" || fld == "GOOS" || fld == "GOARCH")
				r.Check("C01.metadata", "createReport/x."+fld, m.Pos(st.Pos()), okId, "only identity fields may be copied into the uploaded program; got "+describe(st.Val))
			}
		}
	}
	// header of the upload report: every field is the same field of ONE local report
	{
		hd, ok := reportHeader(fn, us.upload)
		r.Check("C01.metadata", "createReport/upload report header resolved", m.Pos(fn.Pos()), ok, "the upload report must be a literal or the result of a helper returning a literal")
		for _, fld := range []string{"Week", "LastWeek", "X", "Config"} {
			h := hd[fld]
			okHdr := h.Base != nil && h.Field == fld && namedType(h.Base.Type()) == "internal/telemetry.Report" && h.Base != us.upload
			if okHdr {
				if reportAlloc == nil {
					reportAlloc = h.Base
				} else if h.Base != reportAlloc {
					okHdr = false
				}
			}
			if fld == "Config" && h.Desc == "param:u.configVersion" {
				okHdr = true // the same source the local report's Config is taken from
			}
			r.Check("C01.metadata", "createReport/upload."+fld, m.Pos(fn.Pos()), okHdr, "the upload report's "+fld+" must be the local report's "+fld+" (in particular the X that selected the counters is the X that is uploaded); got "+h.Desc)
		}
		for fld, h := range hd {
			switch fld {
			case "Week", "LastWeek", "X", "Config", "Programs":
			default:
				r.Check("C01.metadata", "createReport/upload."+fld+" (unexpected header field)", m.Pos(fn.Pos()), false, "got "+h.Desc)
			}
		}
	}
	// upload escapes only into json.MarshalIndent whose bytes go to exclusiveWrite(<week>.json)
	nMarshal := 0
	for _, u := range referrers(us.upload) {
		if mi, ok := u.(*ssa.MakeInterface); ok {
			for _, u2 := range referrers(mi) {
				if isCallTo(u2, "encoding/json.MarshalIndent", "encoding/json.Marshal") {
					nMarshal++
				} else if _, isDbg := u2.(*ssa.DebugRef); !isDbg {
					r.Check("C01.metadata", "createReport/upload report escapes", m.Pos(u2.Pos()), false, "the upload report may only be marshalled: "+u2.String())
				}
			}
		}
	}
	r.Check("C01.metadata", "createReport/upload report is marshalled once", m.Pos(fn.Pos()), nMarshal == 1, fmt.Sprintf("%d marshal sites", nMarshal))
	r.Floor("C01.gate", 12)
}

// checkValueFromSameKey: the stored value is the ranged value paired with the stored key.
func checkValueFromSameKey(r *Report, m *Module, mu *ssa.MapUpdate, kind string) {
	ke, ok1 := strip(mu.Key).(*ssa.Extract)
	ve, ok2 := strip(mu.Value).(*ssa.Extract)
	ok := ok1 && ok2 && ke.Tuple == ve.Tuple && ke.Index == 1 && ve.Index == 2
	if ok {
		// ranged map is the local program's map of the same kind
		if nx, isN := ke.Tuple.(*ssa.Next); isN {
			if rg, isR := nx.Iter.(*ssa.Range); isR {
				_, f, isF := fieldLoad(rg.X)
				ok = isF && f == kind
			}
		}
	}
	r.Check("C01.gate", "createReport/store x."+kind+"[k]/value of the same entry", m.Pos(mu.Pos()), ok,
		"the value copied must be the local value of the same key of the program's "+kind+"; got key "+describe(mu.Key)+", value "+describe(mu.Value))
}

// ---- config tables -------------------------------------------------------------

var tableSource = map[string]string{ // table -> the single list it may be written from
	"pgversion": "Versions", "pgcounter": "Counters", "pgcounterprefix": "Counters", "pgstack": "Stacks", "rate": "Counters", "stackrate": "Stacks",
}
var accessorTable = map[string]string{
	"HasVersion": "pgversion", "HasCounter": "pgcounter", "HasCounterPrefix": "pgcounterprefix", "HasStack": "pgstack", "Rate": "rate", "StackRate": "stackrate",
	"HasProgram": "program", "HasGOOS": "goos", "HasGOARCH": "goarch", "HasGoVersion": "goversion",
}

func c01Tables(c *Ctx, m *Module) { c01TablesAs(c, m, "C01") }

func c01TablesAs(c *Ctx, m *Module, pfx string) {
	r := c.R
	nc := m.Func("internal/config", "NewConfig")
	lists := map[string]bool{"Versions": true, "Counters": true, "Stacks": true}
	writers := map[string]map[string]bool{}
	for _, in := range instrsOf(nc) {
		mu, ok := in.(*ssa.MapUpdate)
		if !ok {
			continue
		}
		_, tbl, ok := fieldLoad(mu.Map)
		if !ok {
			continue
		}
		if _, tracked := tableSource[tbl]; !tracked {
			continue
		}
		// sources of key and value
		src := map[string]bool{}
		for f := range indexedFields(mu.Key) {
			if lists[f] {
				src[f] = true
			}
		}
		if writers[tbl] == nil {
			writers[tbl] = map[string]bool{}
		}
		for f := range src {
			writers[tbl][f] = true
		}
		var sl []string
		for f := range src {
			sl = append(sl, f)
		}
		sort.Strings(sl)
		r.Check(pfx+".table-provenance", "NewConfig/"+tbl+" written from "+strings.Join(sl, "+"), m.Pos(mu.Pos()), len(sl) == 1 && sl[0] == tableSource[tbl],
			fmt.Sprintf("table %s must be written only from the %s list of the program config (one table, one list); this write draws its key from {%s}", tbl, tableSource[tbl], strings.Join(sl, ",")))
		// key shape pgkey{p.Name, <elem>}
		if lit, ok := structLit(mu.Key); ok {
			_, pf, okP := fieldLoad(lit["program"])
			r.Check(pfx+".expand", "NewConfig/"+tbl+" key.program", m.Pos(mu.Pos()), okP && pf == "Name", "the program part of the key must be the program's Name; got "+describe(lit["program"]))
			kd := describe(lit["key"])
			switch tbl {
			case "pgcounter", "rate":
				okK := strings.HasPrefix(kd, "internal/config.Expand(") && strings.Contains(kd, ".Name)[")
				r.Check(pfx+".expand", "NewConfig/"+tbl+" key is an Expand() result", m.Pos(mu.Pos()), okK, "counter keys must be the elements of Expand(c.Name); got "+kd)
			case "pgstack", "stackrate":
				_, kf, okK := fieldLoad(lit["key"])
				r.Check(pfx+".expand", "NewConfig/"+tbl+" key is the stack's Name", m.Pos(mu.Pos()), okK && kf == "Name", "stack keys must be the configured stack Name; got "+kd)
			}
		} else {
			r.Check(pfx+".expand", "NewConfig/"+tbl+" key shape", m.Pos(mu.Pos()), false, "key is not a pgkey literal: "+describe(mu.Key))
		}
		// value
		switch tbl {
		case "rate", "stackrate":
			_, vf, okV := fieldLoad(mu.Value)
			r.Check(pfx+".rate-verbatim", "NewConfig/"+tbl+" value", m.Pos(mu.Pos()), okV && vf == "Rate",
				"the rate recorded must be the configured Rate field itself (no defaulting or scaling); got "+describe(mu.Value))
		default:
			k, isC := constOf(mu.Value)
			r.Check(pfx+".expand", "NewConfig/"+tbl+" value", m.Pos(mu.Pos()), isC && k == "true", "set tables store the constant true; got "+describe(mu.Value))
		}
	}
	for tbl := range tableSource {
		r.Check(pfx+".table-provenance", "NewConfig/"+tbl+" has a writer", m.Pos(nc.Pos()), len(writers[tbl]) >= 1, "every lookup table must be filled by NewConfig")
	}
	// accessors read the table of their kind with key pgkey{program, name}
	for meth, tbl := range accessorTable {
		fn := m.FuncOpt("internal/config", "Config."+meth)
		if fn == nil {
			r.Check(pfx+".table-provenance", "accessor "+meth, "-", false, "missing accessor")
			continue
		}
		okRead := false
		var got []string
		for _, in := range instrsOf(fn) {
			if l, ok := in.(*ssa.Lookup); ok {
				if _, f, ok := fieldLoad(l.X); ok {
					got = append(got, f)
					if f == tbl {
						okRead = true
						if lit, isLit := structLit(l.Index); isLit {
							okKey := lit["program"] == ssa.Value(fn.Params[1]) && lit["key"] == ssa.Value(fn.Params[2])
							r.Check(pfx+".table-provenance", "accessor "+meth+" key", m.Pos(l.Pos()), okKey, "the accessor must look up pgkey{program, name} built from its own parameters in that order")
						}
					}
				}
			}
		}
		r.Check(pfx+".table-provenance", "accessor "+meth+" reads "+tbl, m.Pos(fn.Pos()), okRead && len(got) == 1, fmt.Sprintf("accessor %s must read exactly table %s; reads %v", meth, tbl, got))
		// … and answers with what the table says, nothing else: every result is the looked-up value,
		// or the constant the look-up was just found to equal
		nEx := 0
		for _, ex := range exitPaths(fn) {
			nEx++
			v := strip(refine(ex.vals[0], ex.facts))
			isLk := func(x ssa.Value) bool {
				l, ok := strip(x).(*ssa.Lookup)
				if !ok || l.CommaOk {
					return false
				}
				_, f, ok := fieldLoad(l.X)
				return ok && f == tbl
			}
			okV := isLk(v)
			if k, isC := constOf(v); isC && (k == "true" || k == "false") {
				okV = hasFact(ex.facts, func(fc Fact) bool { return isLk(fc.Cond) && fc.Pol == (k == "true") })
			}
			r.Check(pfx+".table-provenance", fmt.Sprintf("accessor %s result #%d is the table's answer", meth, nEx), m.Pos(ex.ret.Pos()), okV,
				"an accessor answers with the looked-up value (an empty or missing table approves nothing); got "+shortDesc(describe(v)))
		}
	}
	// only NewConfig writes the tables
	for _, fn := range m.PkgFuncs("internal/config") {
		if fn == nc {
			continue
		}
		for _, in := range instrsOf(fn) {
			if mu, ok := in.(*ssa.MapUpdate); ok {
				if _, f, ok := fieldLoad(mu.Map); ok {
					if _, tracked := accessorTable["x"]; !tracked && (tableSource[f] != "" || f == "program" || f == "goos" || f == "goarch" || f == "goversion") {
						r.Check(pfx+".table-provenance", "write to "+f+" outside NewConfig in "+fname(fn), m.Pos(mu.Pos()), false, "lookup tables are immutable after construction")
					}
				}
			}
		}
	}
	r.Floor(pfx+".table-provenance", 14)
}

// ---- sink -------------------------------------------------------------------------

func c01Sink(c *Ctx, m *Module) {
	r := c.R
	roots := []*ssa.Function{m.Func("internal/upload", "Run"), m.Func("", "Start"), m.Func("", "MaybeChild"), m.Func("counter", "Open"),
		m.Func("counter", "OpenAndRotate"), m.Func("counter", "OpenDir"), m.Func("internal/counter", "Counter.Add"), m.Func("internal/counter", "StackCounter.Inc")}
	effs, chains := m.reachableEffects(roots, nil)
	nsend := 0
	execTable := map[string]string{
		"telemetry.startChild":          "re-executes this program with fixed arguments; counter data reaches it only through the crash pipe (C14)",
		"internal/configstore.Download": "go mod download of the constant config module; arguments are the module path and version",
	}
	for _, e := range effs {
		switch e.Kind {
		case effNet:
			nsend++
			ok := fname(e.Fn) == "(*internal/upload.uploader).uploadReportContents" && e.Name == "net/http.Post"
			r.Check("C01.sink", "network send "+e.Name+" in "+fname(e.Fn), m.Pos(e.Call.Pos()), ok, "only uploadReportContents may send; chain: "+chainString(chains[e.Fn]))
		case effExec:
			_, ok := execTable[fname(e.Fn)]
			r.Check("C01.sink", "exec site in "+fname(e.Fn), m.Pos(e.Call.Pos()), ok, "process launches reachable from the library entry points must be in the frozen table; chain: "+chainString(chains[e.Fn]))
		}
	}
	r.Check("C01.sink", "exactly one network send site", "-", nsend == 1, fmt.Sprintf("found %d", nsend))
}

// ---- body ---------------------------------------------------------------------------

func c01Body(c *Ctx, m *Module) {
	r := c.R
	urc := m.Func("internal/upload", "uploader.uploadReportContents")
	ur := m.Func("internal/upload", "uploader.uploadReport")
	for _, cs := range callsIn(urc, "net/http.Post") {
		a := argsOf(cs)
		body := describe(a[2])
		r.Check("C01.body", "uploadReportContents/posted body", m.Pos(cs.Pos()), body == "bytes.NewReader(param:buf)", "the body posted must be exactly the buf parameter; got "+body)
		url := describe(a[0])
		okURL := strings.Contains(url, "param:u.uploadServerURL") && !strings.Contains(url, "param:buf")
		// the variable part is a suffix of the file's base name
		r.Check("C01.body", "uploadReportContents/URL", m.Pos(cs.Pos()), okURL, "the URL is the configured server plus the report's date only; got "+url)
	}
	for _, cs := range callsIn(ur, "(*internal/upload.uploader).uploadReportContents") {
		a := argsOf(cs)
		d := describe(a[2])
		r.Check("C01.body", "uploadReport/bytes of the ready file", m.Pos(cs.Pos()), d == "os.ReadFile(param:fname)#0" && a[1] == ssa.Value(ur.Params[1]),
			"the buffer passed on must be os.ReadFile(fname) of the very file name passed on; got "+d)
	}
	// createReport hands back the name of the file holding the FILTERED bytes
	cr := m.Func("internal/upload", "uploader.createReport")
	us := findUploadSite(m)
	var uploadBytes ssa.Value
	for _, u := range referrers(us.upload) {
		if mi, ok := u.(*ssa.MakeInterface); ok {
			for _, u2 := range referrers(mi) {
				if isCallTo(u2, "encoding/json.MarshalIndent", "encoding/json.Marshal") {
					uploadBytes = u2.(ssa.Value)
				}
			}
		}
	}
	var uploadName ssa.Value
	for _, cs := range callsIn(cr, "internal/upload.exclusiveWrite") {
		a := argsOf(cs)
		if uploadBytes != nil && dependsOn(a[1], uploadBytes, 6) {
			uploadName = a[0]
			r.Check("C01.body", "createReport/filtered bytes written exclusively", m.Pos(cs.Pos()), true, "exclusiveWrite("+describe(a[0])+", marshalled upload report)")
		} else {
			// the other write must be the local (unfiltered) report under a local.-prefixed name
			r.Check("C01.body", "createReport/unfiltered report goes to a local.-prefixed name", m.Pos(cs.Pos()), strings.Contains(describe(a[0]), `"local."`),
				"the unfiltered aggregate must be written under a name findWork never selects; got "+describe(a[0]))
		}
	}
	r.Check("C01.body", "createReport/writes the filtered bytes", m.Pos(cr.Pos()), uploadName != nil, "the marshalled upload report must be written with exclusiveWrite")
	for _, ex := range exitPaths(cr) {
		ret := ex.ret
		if k, isC := constOf(ex.vals[0]); isC && k == "" {
			continue
		}
		r.Check("C01.body", "createReport/returns the filtered file", m.Pos(ret.Pos()), uploadName != nil && describe(ex.vals[0]) == describe(uploadName),
			"the file name handed to the sender must be the file the filtered bytes were written to; returns "+describe(ex.vals[0]))
	}
	r.Floor("C01.body", 3)
}
