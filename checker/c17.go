package main

// C17 — chart configuration parsing and upload-config generation are faithful (structural part).

import (
	"fmt"
	"go/token"
	"go/types"
	"sort"
	"strings"

	"golang.org/x/tools/go/ssa"
)

func init() {
	register("C17", &propDef{
		run: runC17,
		decided: []string{
			"every field of ChartConfig has a parser under its lower-cased name whose kind matches the field type (otherwise reflect panics at first use); the explicit 'no parser' panic is unreachable",
			"Parse is total: all index/slice obligations entailed, loops are ranges; field text derives from the comment-stripped line only; the raw line is used only for the separator test and error messages; field keys with ':' are pairwise prefix-free",
			"generate: each validated record contributes its counter expression to Stacks iff depth > 0 else Counters; version comparisons use the comparator of the program's family (toolchain: go/version, otherwise semver)",
			"padVersions: result is semver.Sort-ed, derives from a clone of the input by append only, release candidates are appended under ¬seen, and the existing-prerelease scan covers all patterns",
			"determinism: ranges over maps feed slices that are sorted before they are returned",
		},
		notDecided: []string{"render/parse round trip", "absence of duplicates among padded versions in general", "completeness of version lists w.r.t. the proxy"},
	})
}

func runC17(c *Ctx) {
	m := c.Root()
	c17Parsers(c, m)
	c17ParseTotal(c, m)
	c17Generate(c, m)
	c17Pad(c, m)
	c17Determinism(c, m)
	cToolchainPred(c, m, "C17.comparator-family")
	c17ReflectRange(c, c.Root())
}

func c17Parsers(c *Ctx, m *Module) {
	r := c.R
	pkg := m.Pkg("internal/chartconfig")
	st := pkg.Pkg.Scope().Lookup("ChartConfig").Type().Underlying().(*types.Struct)
	// fieldParsers map literal: MapUpdates in the package initialiser
	parsers := map[string]string{}
	g := m.GlobalVar("internal/chartconfig", "fieldParsers")
	initFn := pkg.Func("init")
	for _, in := range instrsOf(initFn) {
		mu, ok := in.(*ssa.MapUpdate)
		if !ok {
			continue
		}
		// the map being filled is the one stored into the global
		stored := false
		for _, u := range referrers(mu.Map) {
			if s2, ok := u.(*ssa.Store); ok && s2.Addr == ssa.Value(g) {
				stored = true
			}
		}
		if !stored {
			continue
		}
		k, _ := constOf(mu.Key)
		parsers[k] = describe(mu.Value)
	}
	r.Check("C17.parser-exhaustive", "fieldParsers table resolved", m.Pos(g.Pos()), len(parsers) >= 5, fmt.Sprintf("%d entries", len(parsers)))
	kindOf := func(t types.Type) string {
		switch u := t.Underlying().(type) {
		case *types.Basic:
			switch {
			case u.Info()&types.IsString != 0:
				return "func:internal/chartconfig.parseString"
			case u.Info()&types.IsInteger != 0 && u.Info()&types.IsUnsigned == 0:
				return "func:internal/chartconfig.parseInt"
			case u.Info()&types.IsFloat != 0:
				return "func:internal/chartconfig.parseFloat"
			}
		}
		return "?"
	}
	var keys []string
	for i := 0; i < st.NumFields(); i++ {
		f := st.Field(i)
		key := strings.ToLower(f.Name())
		keys = append(keys, key)
		want := kindOf(f.Type())
		if sl, ok := f.Type().Underlying().(*types.Slice); ok {
			want = "internal/chartconfig.parseSlice(" + kindOf(sl.Elem()) + ")"
		}
		got, has := parsers[key]
		r.Check("C17.parser-exhaustive", "ChartConfig."+f.Name(), m.Pos(f.Pos()), has && got == want,
			fmt.Sprintf("field %s (%s) needs parser %s under key %q; table has %q (a missing or mismatched parser panics in reflect at the first record using the field)", f.Name(), f.Type(), want, key, got))
	}
	for k := range parsers {
		found := false
		for _, kk := range keys {
			if kk == k {
				found = true
			}
		}
		r.Check("C17.parser-exhaustive", "parser key "+k+" names a field", m.Pos(g.Pos()), found, "a parser without a field can never be selected")
	}
	// prefix-freeness of key+":"
	sort.Strings(keys)
	okPF := true
	for _, a := range keys {
		for _, b := range keys {
			if a != b && strings.HasPrefix(b+":", a+":") {
				okPF = false
			}
		}
	}
	r.Check("C17.parse-total", "field keys are pairwise prefix-free", m.Pos(g.Pos()), okPF, "Parse selects the field by ranging over a map and breaking at the first prefix match: that is order-independent only if no key+':' is a prefix of another")
}

func c17ParseTotal(c *Ctx, m *Module) {
	r := c.R
	parse := m.Func("internal/chartconfig", "Parse")
	n := 0
	for _, f := range WithClosures(parse) {
		n += boundsObligationsT(r, m, "C17.parse-total", f, boundsTable{
			"internal/chartconfig.Parse/unchecked type assertion": "",
		})
		loopObligations(r, m, "C17.parse-total", f, nil)
	}
	for _, name := range []string{"parseString", "parseInt", "parseFloat", "parseSlice"} {
		for _, f := range WithClosures(m.Func("internal/chartconfig", name)) {
			boundsObligationsT(r, m, "C17.parse-total", f, nil)
		}
	}
	r.Check("C17.parse-total", "Parse obligations enumerated", m.Pos(parse.Pos()), n >= 5, fmt.Sprintf("%d", n))
	// the explicit panic lies under "field has no parser", which C17.parser-exhaustive excludes
	for _, in := range instrsOf(parse) {
		if p, ok := in.(*ssa.Panic); ok {
			okG := hasFact(factsAt(p), func(f Fact) bool {
				e, ok := f.Cond.(*ssa.Extract)
				if !ok || e.Index != 1 || f.Pol {
					return false
				}
				l, ok := e.Tuple.(*ssa.Lookup)
				return ok && strings.HasSuffix(describe(l.X), "fieldParsers")
			})
			r.Check("C17.parse-total", "Parse/explicit panic only for a field without parser", m.Pos(p.Pos()), okG, "unreachable by C17.parser-exhaustive")
		}
	}
	// uses of the raw line
	var lineV ssa.Value
	for _, in := range instrsOf(parse) {
		if cl, ok := in.(*ssa.Call); ok && calleeName(&cl.Call) == "strings.Cut" {
			if k, _ := constOf(argsOf(cl)[1]); k == "#" {
				lineV = argsOf(cl)[0]
			}
		}
	}
	r.Check("C17.comment-stripped", "Parse/strips comments with Cut(line, \"#\")", m.Pos(parse.Pos()), lineV != nil, "")
	if lineV != nil {
		var visit func(v ssa.Value, depth int)
		seen := map[ssa.Value]bool{}
		visit = func(v ssa.Value, depth int) {
			if seen[v] || depth > 4 {
				return
			}
			seen[v] = true
			for _, u := range referrers(v) {
				switch x := u.(type) {
				case *ssa.BinOp:
					k, isC := constOf(x.Y)
					r.Check("C17.comment-stripped", "Parse/raw line compared with a constant", m.Pos(x.Pos()), isC && (x.Op == token.EQL || x.Op == token.NEQ), fmt.Sprintf("compared with %q", k))
				case *ssa.MakeInterface:
					// only as an argument of an error message
					for _, u2 := range referrers(x) {
						if st, ok := u2.(*ssa.Store); ok {
							if ia, ok := st.Addr.(*ssa.IndexAddr); ok {
								okErr := false
								if al, ok := ia.X.(*ssa.Alloc); ok {
									for _, ru := range referrers(al) {
										if sl, ok := ru.(*ssa.Slice); ok {
											for _, su := range referrers(sl) {
												if isCallTo(su, "fmt.Errorf") {
													okErr = true
												}
											}
										}
									}
								}
								r.Check("C17.comment-stripped", "Parse/raw line quoted in an error message", m.Pos(st.Pos()), okErr, "the raw line may only be shown in error messages")
							}
						}
					}
				case *ssa.Call:
					cn := calleeName(&x.Call)
					r.Check("C17.comment-stripped", "Parse/raw line passed to "+cn, m.Pos(x.Pos()), cn == "strings.Cut",
						"field values must derive from the comment-stripped text, never from the raw line (a trailing '# comment' would become part of the value)")
				case *ssa.DebugRef, *ssa.Phi:
				default:
					if _, ok := u.(ssa.Value); ok {
						r.Check("C17.comment-stripped", fmt.Sprintf("Parse/raw line used by %T", u), m.Pos(u.Pos()), false, "unexpected use of the raw line: "+u.String())
					}
				}
			}
		}
		visit(lineV, 0)
	}
}

func c17Generate(c *Ctx, m *Module) {
	r := c.R
	gen := m.Func("internal/configgen", "generate")
	// validation precedes the fold: the fold loop is dominated by the validation loop's normal exit;
	// every ValidateChartConfig error returns
	for _, cs := range callsIn(gen, "internal/configgen.ValidateChartConfig") {
		ok := false
		for _, succ := range branchSucc(errCond(cs.(*ssa.Call)), true) {
			if _, rej := rejectBlock(succ); rej {
				ok = true
			}
		}
		r.Check("C17.generate-shape", "generate/invalid record aborts", m.Pos(cs.Pos()), ok, "a ValidateChartConfig error must be returned")
	}
	c17MinVersionFold(c, m, gen)
	// appends to Stacks / Counters
	nApp := 0
	var listSites []ssa.Instruction
	for _, cs := range callsIn(gen, "builtin:append") {
		cl := cs.(*ssa.Call)
		base, el, ok := appendedElems(cl)
		if !ok || len(el) != 1 {
			continue
		}
		_, fld, isF := fieldLoad(base)
		if !isF || (fld != "Stacks" && fld != "Counters") {
			continue
		}
		nApp++
		listSites = append(listSites, cl)
		fb := newFormulaBuilder()
		fb.namer = func(v ssa.Value) (string, bool) {
			if _, f, ok := fieldLoad(v); ok && f == "Depth" {
				return "depth", true
			}
			return "", false
		}
		got := fb.reach(cl.Block())
		want := mkOrd("depth", ">", "0")
		if fld == "Counters" {
			want = mkOrd("depth", "<=", "0")
		}
		okT, why := projectedEquivalent(got, want, func(v string) bool { return strings.Contains(v, "depth") })
		r.Check("C17.generate-shape", "generate/"+fld+" iff depth "+map[string]string{"Stacks": "> 0", "Counters": "≤ 0"}[fld], m.Pos(cl.Pos()), okT, why)
		// the element's Name is the record's Counter, Depth its Depth
		if lit, ok := structLit(el[0]); ok {
			_, nf, ok1 := fieldLoad(lit["Name"])
			_, df, ok2 := fieldLoad(lit["Depth"])
			r.Check("C17.generate-shape", "generate/"+fld+" entry carries the record's counter expression and depth", m.Pos(cl.Pos()), ok1 && nf == "Counter" && ok2 && df == "Depth", "Name: "+describe(lit["Name"])+" Depth: "+describe(lit["Depth"]))
		}
		// appended to the program of the same record
		bd := describe(base)
		r.Check("C17.generate-shape", "generate/"+fld+" entry goes to the record's program", m.Pos(cl.Pos()), strings.Contains(bd, ".Program]") || strings.Contains(bd, "phi:"), "got "+shortDesc(bd))
	}
	r.Check("C17.generate-shape", "generate/fold sites", m.Pos(gen.Pos()), nApp == 2, fmt.Sprintf("%d", nApp))
	// every program of the records is listed: no path from one program to the next avoids the append
	// to ucfg.Programs (other than an error return) — a program without eligible versions is listed
	// with an empty version list, not dropped with its counters
	for _, cs := range callsIn(gen, "builtin:append") {
		cl := cs.(*ssa.Call)
		base, _, ok := appendedElems(cl)
		if !ok {
			continue
		}
		if _, fld, isF := fieldLoad(base); !isF || fld != "Programs" {
			continue
		}
		var inner *loopInfo
		for _, l := range naturalLoops(gen) {
			if l.blocks[cl.Block()] && (inner == nil || len(l.blocks) < len(inner.blocks)) {
				inner = l
			}
		}
		okAll := inner != nil
		if inner != nil {
			var start []walkState
			for _, sc := range inner.header.Succs {
				if inner.blocks[sc] {
					start = append(start, walkState{inner.header, sc, 0})
				}
			}
			okAll = walkWithout(start, func(in ssa.Instruction) bool { return in == inner.header.Instrs[0] }, func(in ssa.Instruction) bool { return in == ssa.Instruction(cl) }) == nil
		}
		r.Check("C17.generate-shape", "generate/every program is listed", m.Pos(cl.Pos()), okAll, "no path to the next program may skip the append to ucfg.Programs")
	}
	// every record is listed: no path from one record to the next avoids both appends
	if len(listSites) > 0 {
		var inner *loopInfo
		for _, l := range naturalLoops(gen) {
			if l.blocks[listSites[0].Block()] && (inner == nil || len(l.blocks) < len(inner.blocks)) {
				inner = l
			}
		}
		okAll := inner != nil
		if inner != nil {
			var start []walkState
			for _, sc := range inner.header.Succs {
				if inner.blocks[sc] {
					start = append(start, walkState{inner.header, sc, 0})
				}
			}
			isList := func(in ssa.Instruction) bool {
				for _, f := range listSites {
					if in == f {
						return true
					}
				}
				return false
			}
			okAll = walkWithout(start, func(in ssa.Instruction) bool { return in == inner.header.Instrs[0] }, isList) == nil
		}
		r.Check("C17.generate-shape", "generate/every record is listed", m.Pos(listSites[0].Pos()), okAll, "no path to the next record may skip both the Counters and the Stacks append")
	}

	// comparator family
	isTool := "internal/telemetry.IsToolchainProgram"
	n := 0
	for _, fname2 := range []string{"generate", "minVersion", "ValidateChartConfig"} {
		fn := m.Func("internal/configgen", fname2)
		for _, cs := range callsIn(fn) {
			cn := calleeName(cs.Common())
			fam := ""
			switch {
			case strings.HasPrefix(cn, "golang.org/x/mod/semver.") && (strings.HasSuffix(cn, ".Compare") || strings.HasSuffix(cn, ".IsValid")):
				fam = "semver"
			case strings.HasPrefix(cn, "go/version.") && (strings.HasSuffix(cn, ".Compare") || strings.HasSuffix(cn, ".IsValid")):
				fam = "go"
			case cn == "dyn":
				// comparator chosen into a variable: phi of function values
				if phi, ok := cs.Common().Value.(*ssa.Phi); ok {
					n++
					okPhi := true
					detail := ""
					for i, e := range phi.Edges {
						f := funcValue(e)
						if f == nil {
							okPhi = false
							continue
						}
						pred := phi.Block().Preds[i]
						facts := append(blockFacts(pred), lastBranchFact(pred, phi.Block())...)
						tool := hasFact(facts, callResultIs(isTool, true, nil))
						nontool := hasFact(facts, callResultIs(isTool, false, nil))
						isGo := strings.HasPrefix(fname(f), "go/version.")
						detail += fmt.Sprintf("[%s under toolchain=%v/%v] ", fname(f), tool, nontool)
						if isGo && !tool {
							okPhi = false
						}
						if !isGo && tool {
							okPhi = false
						}
						if !isGo && !nontool && !tool {
							// default edge (initial value): acceptable only if the other edge is the toolchain one
						}
					}
					// some edge must be the go/version one, under the toolchain fact
					r.Check("C17.comparator-family", "internal/configgen."+fname2, m.Pos(cs.Pos()), okPhi && strings.Contains(detail, "go/version."),
						"the comparator must be go/version's for toolchain programs and semver's otherwise: "+detail)
				}
				continue
			default:
				continue
			}
			n++
			facts := factsAt(cs)
			tool := hasFact(facts, callResultIs(isTool, true, nil))
			nontool := hasFact(facts, callResultIs(isTool, false, nil))
			ok := (fam == "go" && tool) || (fam == "semver" && nontool)
			r.Check("C17.comparator-family", "internal/configgen."+fname2, m.Pos(cs.Pos()), ok,
				fmt.Sprintf("%s compares %s versions: it must lie under IsToolchainProgram == %v (Go versions are invalid semver and all compare equal)", cn, fam, fam == "go"))
		}
	}
	r.Check("C17.comparator-family", "comparison sites enumerated", "-", n >= 4, fmt.Sprintf("%d", n))
	// ownership of the proxy listing: generate filters the listed versions IN PLACE, so every
	// listing it receives must be a fresh slice no other program's listing can alias.
	c17FreshListing(c, m)

	// padVersions (semver only) is called only for non-toolchain programs
	pad := m.Func("internal/configgen", "padVersions")
	for _, cs := range m.callersOf(pad) {
		r.Check("C17.comparator-family", "padVersions called for module programs only", m.Pos(cs.Pos()), hasFact(factsAt(cs), callResultIs(isTool, false, nil)), "padding works on semantic versions")
	}
}

func errCond(call *ssa.Call) ssa.Value {
	for _, u := range referrers(call) {
		if b, ok := u.(*ssa.BinOp); ok && isNilConst(b.Y) && b.Op == token.NEQ {
			return b
		}
	}
	return call
}

func c17Pad(c *Ctx, m *Module) {
	r := c.R
	pad := m.Func("internal/configgen", "padVersions")
	// every return: result sorted last
	for _, b := range pad.Blocks {
		ret, ok := b.Instrs[len(b.Instrs)-1].(*ssa.Return)
		if !ok {
			continue
		}
		sorted := false
		for _, cs := range callsIn(pad, "golang.org/x/mod/semver.Sort") {
			if precedes(cs, ret) && argsOf(cs)[0] == ret.Results[0] {
				// no append to it after the sort
				if reachesWithout(cs, func(in ssa.Instruction) bool { return isCallTo(in, "builtin:append") }, nil) == nil {
					sorted = true
				}
			}
		}
		r.Check("C17.pad-postcondition", "padVersions/result is sorted", m.Pos(ret.Pos()), sorted, "semver.Sort(result) must be the last thing done to the returned slice")
		// derives from slices.Clone(param) through append
		okDerive := false
		for v := range backwardSlice(ret.Results[0], 200) {
			if cl, ok := v.(*ssa.Call); ok && strings.HasPrefix(calleeName(&cl.Call), "slices.Clone") && argsOf(cl)[0] == ssa.Value(pad.Params[0]) {
				okDerive = true
			}
		}
		for v := range backwardSlice(ret.Results[0], 200) {
			if sl, ok := v.(*ssa.Slice); ok && isStringSlice(sl.Type()) && (sl.High != nil || sl.Low != nil) {
				okDerive = false // resliced: elements may be dropped
			}
		}
		r.Check("C17.pad-postcondition", "padVersions/result contains every input version", m.Pos(ret.Pos()), okDerive, "result must derive from slices.Clone(versions) by append only")
	}
	// appends: release candidate under ¬all[v]
	nApp := 0
	for _, cs := range callsIn(pad, "builtin:append") {
		cl := cs.(*ssa.Call)
		_, el, ok := appendedElems(cl)
		if !ok || len(el) != 1 {
			continue
		}
		d := describe(el[0])
		if !strings.HasPrefix(d, "fmt.Sprintf(") {
			continue
		}
		nApp++
		if strings.HasPrefix(d, `fmt.Sprintf("v%d.%d.%d"`) {
			okSeen := hasFact(factsAt(cl), func(f Fact) bool {
				l := membershipTest(f.Cond)
				return l != nil && !f.Pol && l.Index == el[0]
			})
			r.Check("C17.pad-postcondition", "padVersions/release candidate appended only if unseen", m.Pos(cl.Pos()), okSeen, "append(v) under ¬all[v]")
		}
	}
	// the scan for existing prereleases must cover ALL patterns (no early exit)
	var scan *loopInfo
	for _, l := range naturalLoops(pad) {
		for b := range l.blocks {
			for _, in := range b.Instrs {
				if lk, ok := in.(*ssa.Lookup); ok && isPrereleaseKey(describe(lk.Index)) {
					if scan == nil || len(l.blocks) < len(scan.blocks) {
						scan = l
					}
				}
			}
		}
	}
	r.Check("C17.pad-postcondition", "padVersions/has the existing-prerelease scan", m.Pos(pad.Pos()), scan != nil, "a loop testing all[v-pattern] for each pattern")
	for _, l := range []*loopInfo{scan} {
		if l == nil {
			continue
		}
		// exits: only the loop header (range end)
		nExit := 0
		for b := range l.blocks {
			for _, s := range b.Succs {
				if !l.blocks[s] && b != l.header {
					nExit++
				}
			}
		}
		cl := classifyLoop(l)
		r.Check("C17.pad-postcondition", "padVersions/existing-prerelease scan covers every pattern", m.Pos(loopPos(l)), nExit == 0 && (cl.Kind == "counted" || cl.Kind == "range"),
			"the index after the LAST existing prerelease is needed: leaving the scan at the first missing pattern lets a later existing prerelease be appended again (duplicate)")
	}
	_ = nApp
}

func isStringSlice(t types.Type) bool {
	s, ok := t.Underlying().(*types.Slice)
	if !ok {
		return false
	}
	b, ok := s.Elem().Underlying().(*types.Basic)
	return ok && b.Info()&types.IsString != 0
}

func c17Determinism(c *Ctx, m *Module) {
	r := c.R
	n := 0
	for _, name := range []string{"generate", "goos", "goarch", "goVersions"} {
		fn := m.Func("internal/configgen", name)
		for _, l := range naturalLoops(fn) {
			var rg *ssa.Range
			for _, in := range l.header.Instrs {
				if nx, ok := in.(*ssa.Next); ok {
					rg, _ = nx.Iter.(*ssa.Range)
				}
			}
			if rg == nil {
				continue
			}
			if _, isMap := rg.X.Type().Underlying().(*types.Map); !isMap {
				continue
			}
			n++
			bad := ""
			for b := range l.blocks {
				for _, in := range b.Instrs {
					if cl, ok := in.(*ssa.Call); ok && calleeName(&cl.Call) == "builtin:append" {
						// only appends whose target variable is iteration-order dependent matter: the outermost slice
						// accumulated across iterations (a phi in the loop header or a field of an outer object)
						acc := false
						if phi, ok := argsOf(cl)[0].(*ssa.Phi); ok && phi.Block() == l.header {
							acc = true
						}
						if _, _, ok := fieldLoad(argsOf(cl)[0]); ok {
							if base, _, _ := fieldLoad(argsOf(cl)[0]); base != nil {
								if in2, ok := base.(ssa.Instruction); ok && !l.blocks[in2.Block()] {
									acc = true
								}
							}
						}
						if !acc {
							continue
						}
						if !appendSortedBeforeReturn(fn, cl) {
							bad = "append to " + shortDesc(describeArg(cl, 0)) + " is not followed by a sort"
						}
					}
					if _, ok := in.(*ssa.Return); ok {
						// error returns inside a map range are fine only if they abort with an error
					}
				}
			}
			r.Check("C17.determinism", fname(fn)+"/range over "+shortDesc(describe(rg.X)), m.Pos(rg.Pos()), bad == "", "a slice filled from a map range must be sorted before it is returned: "+bad)
		}
	}
	r.Check("C17.determinism", "map ranges enumerated", "-", n >= 4, fmt.Sprintf("%d", n))
}

// appendSortedBeforeReturn: some sort call on the accumulated slice happens after the loop.
func appendSortedBeforeReturn(fn *ssa.Function, app *ssa.Call) bool {
	for _, cs := range callsIn(fn, "sort.Strings", "sort.Slice", "sort.SliceStable", "sort.Sort", "slices.Sort", "slices.SortFunc", "golang.org/x/mod/semver.Sort") {
		arg := argsOf(cs)[0]
		for v := range backwardSlice(arg, 60) {
			if v == ssa.Value(app) {
				return true
			}
		}
		// field of the same object
		if _, f1, ok1 := fieldLoad(arg); ok1 {
			for _, u := range referrers(app) {
				if st, ok := u.(*ssa.Store); ok {
					if fa, ok := st.Addr.(*ssa.FieldAddr); ok {
						if _, f2, _ := fieldAddrName(fa); f2 == f1 {
							return true
						}
					}
				}
			}
		}
	}
	return false
}

// c17FreshListing: when generate writes into the slice returned by listProxyVersions, each
// non-test return of listProxyVersions must be freshly allocated and must not be retained.
func c17FreshListing(c *Ctx, m *Module) {
	r := c.R
	gen := m.Func("internal/configgen", "generate")
	lpv := m.Func("internal/configgen", "listProxyVersions")
	mutates := false
	for _, in := range instrsOf(gen) {
		st, ok := in.(*ssa.Store)
		if !ok {
			continue
		}
		if ia, ok := st.Addr.(*ssa.IndexAddr); ok && strings.Contains(describe(ia.X), "internal/configgen.listProxyVersions(") {
			mutates = true
		}
	}
	r.Check("C17.generate-shape", "generate/in-place filtering of the proxy listing recognised", m.Pos(gen.Pos()), true, fmt.Sprintf("generate writes into the listed slice: %v", mutates))
	if !mutates {
		return
	}
	fresh := func(v ssa.Value) (bool, string) {
		d := describe(v)
		switch {
		case isNilConst(v):
			return true, "nil"
		case strings.HasPrefix(d, "slices.Clone(") || strings.HasPrefix(d, "slices.Clone[") || strings.HasPrefix(d, "builtin:append(nil"):
			return true, "copied"
		case strings.Contains(d, "global:internal/configgen.versionsForTesting"):
			return true, "test hook versionsForTesting (tabled: set only by tests, never in the generator binary)"
		case strings.Contains(d, "global:"):
			return false, "derives from a package-level variable: " + shortDesc(d)
		case strings.Contains(d, "strings.Fields(") || strings.Contains(d, "strings.Split(") || strings.Contains(d, "slices.Clone(") || strings.Contains(d, "builtin:append(nil"):
			return true, "freshly allocated"
		}
		return false, "not recognisably fresh: " + shortDesc(d)
	}
	n := 0
	returned := map[string]bool{}
	for _, b := range lpv.Blocks {
		ret, ok := b.Instrs[len(b.Instrs)-1].(*ssa.Return)
		if !ok || len(ret.Results) == 0 {
			continue
		}
		vals := []ssa.Value{ret.Results[0]}
		if phi, ok := ret.Results[0].(*ssa.Phi); ok {
			vals = phi.Edges
		}
		for _, v := range vals {
			n++
			returned[describe(v)] = true
			ok, why := fresh(v)
			r.Check("C17.generate-shape", fmt.Sprintf("listProxyVersions/return #%d is a fresh slice", n), m.Pos(ret.Pos()), ok,
				"generate filters the listing in place, so a shared or cached slice would be truncated for the next program: "+why)
		}
	}
	// ... and is not retained in package state
	for _, in := range instrsOf(lpv) {
		var stored, where ssa.Value
		switch x := in.(type) {
		case *ssa.MapUpdate:
			stored, where = x.Value, x.Map
		case *ssa.Store:
			stored, where = x.Val, x.Addr
		default:
			continue
		}
		if _, isSlice := stored.Type().Underlying().(*types.Slice); !isSlice {
			continue
		}
		if strings.Contains(describe(where), "global:") && returned[describe(stored)] {
			r.Check("C17.generate-shape", "listProxyVersions/listing retained in "+shortDesc(describe(where)), m.Pos(in.Pos()), false,
				"a listing that generate filters in place must not be kept in package state")
		}
	}
}

// c17MinVersionFold: the per-program minimum is the fold of minVersion over ALL records of the
// program. Every store to the minimum-version table in the records loop is either the fold step
// minVersions[p] = minVersion(p, minVersions[p], record.Version), executed for every record, or
// the initialisation with the record's version when the PROGRAM is first seen (its entry in the
// program table is nil) — never a decision taken on the stored minimum itself ("" means "all
// versions", not "unset").
func c17MinVersionFold(c *Ctx, m *Module, gen *ssa.Function) {
	r := c.R
	var folds, inits []ssa.Instruction
	nStores := 0
	for _, in := range instrsOf(gen) {
		mu, ok := in.(*ssa.MapUpdate)
		if !ok {
			continue
		}
		mp, isMake := strip(mu.Map).(*ssa.MakeMap)
		if !isMake {
			continue
		}
		// the minimum-version table: a map[string]string some update of which stores minVersion(...)
		isMinTable := false
		for _, u := range referrers(mp) {
			if mu2, ok := u.(*ssa.MapUpdate); ok {
				if cl, ok := strip(mu2.Value).(*ssa.Call); ok && calleeName(&cl.Call) == "internal/configgen.minVersion" {
					isMinTable = true
				}
			}
		}
		if !isMinTable {
			continue
		}
		nStores++
		if cl, ok := strip(mu.Value).(*ssa.Call); ok && calleeName(&cl.Call) == "internal/configgen.minVersion" {
			a := argsOf(cl)
			lk, isLk := strip(a[1]).(*ssa.Lookup)
			if ex, isEx := strip(a[1]).(*ssa.Extract); isEx && ex.Index == 0 {
				lk, isLk = ex.Tuple.(*ssa.Lookup) // cur, ok := minVersions[p]
			}
			_, vf, isVer := fieldLoad(a[2])
			okFold := describe(a[0]) == describe(mu.Key) && isLk && strip(lk.X) == ssa.Value(mp) && describe(lk.Index) == describe(mu.Key) && isVer && vf == "Version"
			r.Check("C17.generate-shape", "generate/minimum version folds minVersion over the records", m.Pos(mu.Pos()), okFold,
				"minVersions[p] = minVersion(p, minVersions[p], record.Version); got "+shortDesc(describe(mu.Value)))
			folds = append(folds, mu)
			continue
		}
		// initialisation: the record's own version, when the program is first seen
		_, vf, isVer := fieldLoad(mu.Value)
		firstSeen := hasFact(factsAt(mu), func(f Fact) bool {
			// `_, seen := programs[p]` held false
			if lk := membershipTest(f.Cond); lk != nil && lk.CommaOk && !f.Pol {
				// (absent from the programs table, or absent from the minimum table itself: the
				// two are filled together; what is NOT a first-seen test is a comparison of the
				// stored minimum with "")
				return describe(lk.Index) == describe(mu.Key)
			}
			bo, ok := f.Cond.(*ssa.BinOp)
			if !ok || !isNilConst(bo.Y) || !assertsEq(bo, f.Pol) {
				return false
			}
			lk, ok := strip(bo.X).(*ssa.Lookup)
			return ok && strip(lk.X) != ssa.Value(mp) && describe(lk.Index) == describe(mu.Key)
		})
		if isVer && vf == "Version" && firstSeen {
			inits = append(inits, mu)
		}
		r.Check("C17.generate-shape", "generate/minimum version initialised only when the program is first seen", m.Pos(mu.Pos()), isVer && vf == "Version" && firstSeen,
			"a store of the record's version outside the fold is allowed only under programs[p] == nil; a test of the stored minimum (\"\" means all versions) is not \"first seen\"")
	}
	r.Check("C17.generate-shape", "generate/minimum-version stores enumerated", m.Pos(gen.Pos()), len(folds) >= 1, fmt.Sprintf("%d stores, %d fold steps", nStores, len(folds)))
	if len(folds) == 0 {
		return
	}
	var inner *loopInfo
	for _, l := range naturalLoops(gen) {
		if l.blocks[folds[0].Block()] && (inner == nil || len(l.blocks) < len(inner.blocks)) {
			inner = l
		}
	}
	okAll := inner != nil
	if inner != nil {
		var start []walkState
		for _, sc := range inner.header.Succs {
			if inner.blocks[sc] {
				start = append(start, walkState{inner.header, sc, 0})
			}
		}
		isFold := func(in ssa.Instruction) bool {
			for _, f := range folds {
				if in == f {
					return true
				}
			}
			// the first record of a program may store its own version instead: min(v, v) = v
			for _, f := range inits {
				if in == f {
					return true
				}
			}
			return false
		}
		okAll = walkWithout(start, func(in ssa.Instruction) bool { return in == inner.header.Instrs[0] }, isFold) == nil
	}
	r.Check("C17.generate-shape", "generate/every record takes part in the minimum", m.Pos(folds[0].Pos()), okAll, "no path to the next record may skip the fold step")
}

// isPrereleaseKey: the rendering of "<version>-<prerelease pattern>", built with Sprintf or by
// concatenation.
func isPrereleaseKey(d string) bool {
	return strings.HasPrefix(d, `fmt.Sprintf("%s-%s"`) || (strings.HasPrefix(d, "((") && strings.Contains(d, ` + "-") + `))
}

// c17ReflectRange: the reflect calls of the parser that panic on a range error. Parse must
// never panic; reflect.Value.Index/Slice/SetLen/SetCap panic when the index or length is out of
// range, and nothing here can bound a reflect length. Each such call is therefore tabled with
// the reason it is in range; a new one (growing a slice with SetLen, say, which panics beyond
// the capacity) is reported.
var c17ReflectTable = map[string]string{
	"parseSlice$1|(reflect.Value).Index": "index Len()-1 of the value that reflect.Append has just made one longer (set in the statement before)",
}

func c17ReflectRange(c *Ctx, m *Module) {
	r := c.R
	n := 0
	for _, fn := range m.PkgFuncs("internal/chartconfig") {
		for _, cs := range callsIn(fn) {
			cn := calleeName(cs.Common())
			switch cn {
			case "(reflect.Value).Index", "(reflect.Value).Slice", "(reflect.Value).Slice3", "(reflect.Value).SetLen", "(reflect.Value).SetCap", "(reflect.Value).Field", "(reflect.Value).MapIndex":
			default:
				continue
			}
			n++
			key := short(refName(fn)) + "|" + cn
			reason, tabled := c17ReflectTable[key]
			ok := tabled
			if ok && cn == "(reflect.Value).Index" {
				// Index(v.Len() - 1) right after v.Set(reflect.Append(v, …))
				d := describeArg(cs, 1)
				ok = strings.Contains(d, ".Len(") && strings.HasSuffix(d, " - 1)")
				okAppend := false
				for _, c2 := range callsIn(fn, "reflect.Append") {
					if precedes(c2, cs) {
						okAppend = true
					}
				}
				ok = ok && okAppend
			}
			r.Check("C17.parse-total", fmt.Sprintf("%s/%s stays in range", short(refName(fn)), cn), m.Pos(cs.Pos()), ok,
				"a reflect call that panics when out of range needs a tabled reason: "+reason+" (got argument "+shortDesc(describeArg(cs, len(cs.Common().Args)-1))+")")
		}
	}
	r.Analysed["reflect_range_calls"] = n
}
