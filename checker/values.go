package main

// E4: describing SSA values as canonical terms; callee resolution.

import (
	"fmt"
	"go/constant"
	"go/token"
	"go/types"
	"os"
	"regexp"
	"strings"

	"golang.org/x/tools/go/ssa"
)

func constString(v constant.Value) string {
	if v == nil {
		return "nil"
	}
	switch v.Kind() {
	case constant.String:
		return constant.StringVal(v)
	case constant.Bool:
		if constant.BoolVal(v) {
			return "true"
		}
		return "false"
	default:
		return v.ExactString()
	}
}

// calleeName gives a canonical name for the target of a call:
//
//	static function/method: fn.String() with the module prefix stripped
//	interface method:       "(iface pkg.T).M"
//	call through a package variable: "var:pkg.name"
//	builtin: "builtin:len"
//	anything else: "dyn"
func calleeName(c *ssa.CallCommon) string {
	if c.IsInvoke() {
		return short(fmt.Sprintf("(%s).%s", c.Value.Type().String(), c.Method.Name()))
	}
	switch v := c.Value.(type) {
	case *ssa.Function:
		return fname(v)
	case *ssa.Builtin:
		return "builtin:" + v.Name()
	case *ssa.MakeClosure:
		return fname(v.Fn.(*ssa.Function))
	case *ssa.UnOp:
		if g, ok := v.X.(*ssa.Global); ok && v.Op == token.MUL {
			return "var:" + short(g.Pkg.Pkg.Path()+"."+g.Name())
		}
	}
	return "dyn"
}

// staticCallee returns the statically known callee function, also seeing through
// closures bound at the call.
func staticCallee(c *ssa.CallCommon) *ssa.Function {
	if f := c.StaticCallee(); f != nil {
		return f
	}
	return nil
}

// callOf returns the CallCommon if instr is a call/go/defer.
func callOf(instr ssa.Instruction) *ssa.CallCommon {
	if ci, ok := instr.(ssa.CallInstruction); ok {
		return ci.Common()
	}
	return nil
}

// isCallTo reports whether instr calls one of the named callees.
func isCallTo(instr ssa.Instruction, names ...string) bool {
	c := callOf(instr)
	if c == nil {
		return false
	}
	n := calleeName(c)
	for _, want := range names {
		if n == want {
			return true
		}
	}
	return false
}

// callsIn lists, in block/instruction order, the call instructions in fn (not its
// closures) whose callee is one of names. With no names, all calls.
func callsIn(fn *ssa.Function, names ...string) []ssa.CallInstruction {
	var out []ssa.CallInstruction
	for _, b := range fn.Blocks {
		for _, in := range b.Instrs {
			ci, ok := in.(ssa.CallInstruction)
			if !ok {
				continue
			}
			if len(names) == 0 || isCallTo(in, names...) {
				out = append(out, ci)
			}
		}
	}
	return out
}

// callsInAll is callsIn over fn and its closures.
func callsInAll(fn *ssa.Function, names ...string) []ssa.CallInstruction {
	var out []ssa.CallInstruction
	for _, f := range WithClosures(fn) {
		out = append(out, callsIn(f, names...)...)
	}
	return out
}

// callArgs returns the arguments excluding the receiver for method calls.
func callArgs(c *ssa.CallCommon) []ssa.Value {
	if c.IsInvoke() {
		return c.Args
	}
	if f := c.StaticCallee(); f != nil && f.Signature.Recv() != nil && len(c.Args) > 0 {
		return c.Args[1:]
	}
	return c.Args
}

// recvOf returns the receiver argument of a method call (nil otherwise).
func recvOf(c *ssa.CallCommon) ssa.Value {
	if c.IsInvoke() {
		return c.Value
	}
	if f := c.StaticCallee(); f != nil && f.Signature.Recv() != nil && len(c.Args) > 0 {
		return c.Args[0]
	}
	return nil
}

// strip removes value-preserving wrappers (ChangeType, MakeInterface, Convert between
// string-ish/integer types is NOT stripped).
func strip(v ssa.Value) ssa.Value {
	for {
		switch x := v.(type) {
		case *ssa.ChangeType:
			v = x.X
		case *ssa.MakeInterface:
			v = x.X
		case *ssa.ChangeInterface:
			v = x.X
		default:
			return v
		}
	}
}

// constOf returns the constant value of v if v is a constant.
func constOf(v ssa.Value) (string, bool) {
	v = strip(v)
	if c, ok := v.(*ssa.Const); ok {
		if c.Value == nil {
			return "nil", true
		}
		return constString(c.Value), true
	}
	return "", false
}

func isNilConst(v ssa.Value) bool {
	c, ok := strip(v).(*ssa.Const)
	return ok && c.Value == nil
}

// intConst returns v's integer constant value.
func intConst(v ssa.Value) (int64, bool) {
	v = strip(v)
	if cv, ok := v.(*ssa.Convert); ok {
		v = cv.X
	}
	c, ok := v.(*ssa.Const)
	if !ok || c.Value == nil {
		return 0, false
	}
	if c.Value.Kind() != constant.Int {
		if f := constant.ToInt(c.Value); f.Kind() == constant.Int {
			n, ok := constant.Int64Val(f)
			return n, ok
		}
		return 0, false
	}
	if n, ok := constant.Int64Val(c.Value); ok {
		return n, true
	}
	if u, ok := constant.Uint64Val(c.Value); ok {
		return int64(u), true
	}
	return 0, false
}

// describer renders SSA values as canonical terms. Two values with the same term
// (and no "?" marker) denote the same run-time value at their respective points,
// under the versioning caveats documented in DESIGN.md §2.4.
// describeAt renders v as it is at instruction `at`: merges (phis) anywhere inside the
// expression are resolved to the one incoming value the facts holding at `at` leave possible.
func describeAt(v ssa.Value, at ssa.Instruction) string {
	fs := factsAt(at)
	if fs == nil {
		fs = []Fact{}
	}
	return (&describer{facts: fs}).d(v, 0)
}

// describeArg renders operand i of a call as it is at the call.
func describeArg(ci ssa.CallInstruction, i int) string {
	return describeAt(ci.Common().Args[i], ci)
}

type describer struct {
	depth int
	facts []Fact // when set (describeAt): merges are resolved by these facts
	// ctx: the block of the instruction whose operands are being rendered. A merge (phi) read by
	// an instruction of block B has, at that read, the one incoming value the facts that hold on
	// entry to B leave possible (result variables and fields-turned-locals of expanded helpers
	// are merged together with the flag that says which way the helper returned).
	ctx *ssa.BasicBlock
}

func describe(v ssa.Value) string { return (&describer{}).d(v, 0) }

func (ds *describer) d(v ssa.Value, depth int) string {
	if v == nil {
		return "<nil>"
	}
	if depth > 12 {
		return "…"
	}
	if in, ok := v.(ssa.Instruction); ok && in.Block() != nil {
		if _, isPhi := v.(*ssa.Phi); !isPhi {
			saved := ds.ctx
			ds.ctx = in.Block()
			defer func() { ds.ctx = saved }()
		}
	}
	switch x := v.(type) {
	case *ssa.Const:
		if x.Value == nil {
			return "nil"
		}
		if x.Value.Kind() == constant.String {
			return fmt.Sprintf("%q", constant.StringVal(x.Value))
		}
		return x.Value.ExactString()
	case *ssa.Parameter:
		return "param:" + paramRefName(x)
	case *ssa.FreeVar:
		if b := freeVarBinding(x); b != nil {
			return ds.d(b, depth+1)
		}
		return "free:" + x.Name()
	case *ssa.Global:
		return "global:" + short(x.Pkg.Pkg.Path()+"."+refGlobalName(x))
	case *ssa.Function:
		return "func:" + fname(x)
	case *ssa.Builtin:
		return "builtin:" + x.Name()
	case *ssa.Alloc:
		return "alloc:" + allocName(x)
	case *ssa.FieldAddr:
		return "&" + ds.fieldOf(x.X, x.Field, depth)
	case *ssa.Field:
		return ds.d(x.X, depth+1) + "." + refFieldName(x.X.Type(), x.Field)
	case *ssa.IndexAddr:
		return "&" + ds.d(x.X, depth+1) + "[" + ds.d(x.Index, depth+1) + "]"
	case *ssa.Index:
		return ds.d(x.X, depth+1) + "[" + ds.d(x.Index, depth+1) + "]"
	case *ssa.Lookup:
		// m[k] with k the key of a range over the same m is the ranged value: one canonical form
		if ex, ok := x.Index.(*ssa.Extract); ok && ex.Index == 1 && !x.CommaOk {
			if nx, ok := ex.Tuple.(*ssa.Next); ok {
				if rg, ok := nx.Iter.(*ssa.Range); ok && (rg.X == x.X || ds.d(rg.X, depth+1) == ds.d(x.X, depth+1)) {
					if _, isMap := rg.X.Type().Underlying().(*types.Map); isMap {
						return "rangeval(" + ds.d(rg.X, depth+1) + ")"
					}
				}
			}
		}
		return ds.d(x.X, depth+1) + "[" + ds.d(x.Index, depth+1) + "]"
	case *ssa.UnOp:
		switch x.Op {
		case token.MUL:
			// a package-level variable that is set once, by a constant initialiser, reads as that
			// constant (dateFormat = telemetry.DateOnly)
			if g, ok := x.X.(*ssa.Global); ok {
				if iv, isC := globalSingleInit(g).(*ssa.Const); isC {
					return ds.d(iv, depth+1)
				}
			}
			// a field that is only ever set when its object is built, read from the object this
			// function built: the value it was built with
			if fa, ok := x.X.(*ssa.FieldAddr); ok {
				if a, ok := deref(fa.X).(*ssa.Alloc); ok {
					if bv := builtFieldValue(a, fa.Field); bv != nil && depth < 10 {
						return ds.d(bv, depth+1)
					}
				}
			}
			inner := ds.d(x.X, depth+1)
			if strings.HasPrefix(inner, "&") {
				return inner[1:]
			}
			base := x.X
			for n := 0; n < 4; n++ {
				fv, ok := base.(*ssa.FreeVar)
				if !ok {
					break
				}
				b := freeVarBinding(fv)
				if b == nil {
					break
				}
				base = b // a captured variable: the enclosing function's cell
			}
			if a, ok := base.(*ssa.Alloc); ok {
				if sv := singleStore(a); sv != nil {
					return ds.d(sv, depth+1)
				}
			}
			return "*" + inner
		case token.NOT:
			return "!" + ds.d(x.X, depth+1)
		case token.ARROW:
			return "<-" + ds.d(x.X, depth+1)
		default:
			return x.Op.String() + ds.d(x.X, depth+1)
		}
	case *ssa.BinOp:
		return "(" + ds.d(x.X, depth+1) + " " + x.Op.String() + " " + ds.d(x.Y, depth+1) + ")"
	case *ssa.Call:
		// string building has one canonical rendering, the left-nested concatenation, whether it
		// is written with +, with Sprintf and a format of %s / %g verbs only, or with
		// strconv.FormatFloat(x, 'g', -1, 64) (which is what %g prints for a float64)
		if parts, ok := stringParts(x); ok && depth < 10 {
			out := ""
			for i, p := range parts {
				var d string
				switch {
				case p.lit != nil:
					d = fmt.Sprintf("%q", *p.lit)
				case p.g:
					d = "fmtg(" + ds.d(p.v, depth+1) + ")"
				default:
					d = ds.d(p.v, depth+1)
				}
				if i == 0 {
					out = d
				} else {
					out = "(" + out + " + " + d + ")"
				}
			}
			return out
		}
		args := make([]string, 0, len(x.Call.Args)+1)
		if x.Call.IsInvoke() {
			args = append(args, ds.d(x.Call.Value, depth+1))
		}
		for _, a := range x.Call.Args {
			args = append(args, ds.d(a, depth+1))
		}
		return calleeName(&x.Call) + "(" + strings.Join(args, ", ") + ")"
	case *ssa.Extract:
		if nx, ok := x.Tuple.(*ssa.Next); ok {
			if rg, ok := nx.Iter.(*ssa.Range); ok {
				switch x.Index {
				case 1:
					return "rangekey(" + ds.d(rg.X, depth+1) + ")"
				case 2:
					return "rangeval(" + ds.d(rg.X, depth+1) + ")"
				}
			}
		}
		return ds.d(x.Tuple, depth+1) + fmt.Sprintf("#%d", x.Index)
	case *ssa.ChangeType:
		return ds.d(x.X, depth+1)
	case *ssa.MakeInterface:
		return ds.d(x.X, depth+1)
	case *ssa.ChangeInterface:
		return ds.d(x.X, depth+1)
	case *ssa.Convert:
		return "conv<" + short(x.Type().String()) + ">(" + ds.d(x.X, depth+1) + ")"
	case *ssa.Slice:
		if elems, ok := varargElems(x); ok {
			var parts []string
			for _, e := range elems {
				parts = append(parts, ds.d(e, depth+1))
			}
			return "[" + strings.Join(parts, ", ") + "]"
		}
		s := "slice(" + ds.d(x.X, depth+1)
		for _, b := range []ssa.Value{x.Low, x.High, x.Max} {
			if b == nil {
				s += ",_"
			} else {
				s += "," + ds.d(b, depth+1)
			}
		}
		return s + ")"
	case *ssa.MakeClosure:
		return "closure:" + fname(x.Fn.(*ssa.Function))
	case *ssa.Phi:
		if ds.facts != nil {
			if rv := refine(x, ds.facts); rv != ssa.Value(x) {
				return ds.d(rv, depth+1)
			}
		} else if ds.ctx != nil && ds.ctx != x.Block() {
			if rv := refine(x, blockFacts(ds.ctx)); rv != ssa.Value(x) {
				return ds.d(rv, depth+1)
			}
		}
		return "phi:" + x.Name() + "@" + fname(x.Parent())
	case *ssa.TypeAssert:
		return "assert<" + short(x.AssertedType.String()) + ">(" + ds.d(x.X, depth+1) + ")"
	case *ssa.MakeMap:
		return "makemap:" + x.Name()
	case *ssa.MakeSlice:
		return "makeslice:" + x.Name()
	case *ssa.Next:
		return "next(" + ds.d(x.Iter, depth+1) + ")"
	case *ssa.Range:
		return "range(" + ds.d(x.X, depth+1) + ")"
	}
	return fmt.Sprintf("?%T:%s", v, v.Name())
}

func (ds *describer) fieldOf(base ssa.Value, idx int, depth int) string {
	t := base.Type()
	if p, ok := t.Underlying().(*types.Pointer); ok {
		t = p.Elem()
	}
	_, ok := t.Underlying().(*types.Struct)
	name := fmt.Sprintf("f%d", idx)
	if ok {
		name = refFieldName(t, idx)
	}
	// a field of a value of a NEW struct type (one that does not exist in the reference tree: a
	// closure turned into a small struct with a method) that is set exactly once, in the
	// literal that constructs it, is the value it was constructed with
	if ok && depth < 10 {
		if v := helperFieldValue(base, t, idx); v != nil {
			return ds.d(v, depth+1)
		}
	}
	b := ds.d(base, depth+1)
	// (&x).f and (*p).f both render as x.f / p.f
	b = strings.TrimPrefix(b, "&")
	return b + "." + name
}

// helperFieldValue: see fieldOf. base is the struct (or pointer to it) whose field idx is read.
func helperFieldValue(base ssa.Value, t types.Type, idx int) ssa.Value {
	nt, ok := t.(*types.Named)
	if !ok || nt.Obj().Pkg() == nil || baselineFuncs["type:"+nt.Obj().Pkg().Path()+"."+refTypeNameOf(nt)] {
		return nil
	}
	st := nt.Underlying().(*types.Struct)
	fieldName := st.Field(idx).Name()
	// (a) the struct literal itself is at hand (possibly through a captured variable)
	if a, ok := deref(base).(*ssa.Alloc); ok {
		if lit, ok := structLit(a); ok {
			if v := lit[fieldName]; v != nil {
				return v
			}
		}
	}
	// (b) base is the receiver of a method: the one place in the package that constructs a T
	p, ok := strip(base).(*ssa.Parameter)
	if !ok {
		if ld, isLd := strip(base).(*ssa.UnOp); isLd && ld.Op == token.MUL {
			p, ok = ld.X.(*ssa.Parameter)
		}
	}
	if !ok || p.Parent() == nil || p.Parent().Signature.Recv() == nil || len(p.Parent().Params) == 0 || p.Parent().Params[0] != p || p.Parent().Pkg == nil {
		return nil
	}
	var found ssa.Value
	n := 0
	for _, mem := range p.Parent().Pkg.Members {
		fn, ok := mem.(*ssa.Function)
		if !ok {
			continue
		}
		for _, f := range WithClosures(fn) {
			for _, in := range instrsOf(f) {
				a, ok := in.(*ssa.Alloc)
				if !ok {
					continue
				}
				pt, ok := a.Type().Underlying().(*types.Pointer)
				if !ok || !types.Identical(pt.Elem(), nt) {
					continue
				}
				if lit, ok := structLit(a); ok {
					if v := lit[fieldName]; v != nil {
						found = v
						n++
					}
				}
			}
		}
	}
	// methods of other types in the package may construct it too
	for _, tm := range p.Parent().Pkg.Members {
		tp, ok := tm.(*ssa.Type)
		if !ok {
			continue
		}
		for _, recvT := range []types.Type{tp.Type(), types.NewPointer(tp.Type())} {
			ms := p.Parent().Prog.MethodSets.MethodSet(recvT)
			for i := 0; i < ms.Len(); i++ {
				mf := p.Parent().Prog.MethodValue(ms.At(i))
				if mf == nil || mf.Pkg != p.Parent().Pkg || mf.Synthetic != "" {
					continue
				}
				if _, isPtr := recvT.(*types.Pointer); !isPtr {
					if _, declaredOnPtr := mf.Signature.Recv().Type().(*types.Pointer); declaredOnPtr {
						continue
					}
				}
				for _, f := range WithClosures(mf) {
					for _, in := range instrsOf(f) {
						a, ok := in.(*ssa.Alloc)
						if !ok {
							continue
						}
						pt, ok := a.Type().Underlying().(*types.Pointer)
						if !ok || !types.Identical(pt.Elem(), nt) {
							continue
						}
						if lit, ok := structLit(a); ok {
							if v := lit[fieldName]; v != nil && v != found {
								found = v
								n++
							}
						}
					}
				}
			}
		}
	}
	if n == 1 {
		return found
	}
	return nil
}

func allocName(a *ssa.Alloc) string {
	if a.Comment != "" {
		return a.Comment + "#" + a.Name()
	}
	return a.Name()
}

// singleStore returns the only value ever stored into a (if a has exactly one Store
// in its function and its address does not escape into calls or closures), else nil.
func singleStore(a *ssa.Alloc) ssa.Value {
	var val ssa.Value
	n := 0
	for _, r := range *a.Referrers() {
		switch u := r.(type) {
		case *ssa.Store:
			if u.Addr == a {
				n++
				val = u.Val
			} else {
				return nil // address stored somewhere
			}
		case *ssa.UnOp:
			// load
		case *ssa.DebugRef:
		case *ssa.MakeClosure:
			// captured by a closure: fine as long as the closure (and those it creates) only reads it
			for i, b := range u.Bindings {
				if b == ssa.Value(a) && !onlyRead(u.Fn.(*ssa.Function).FreeVars[i], 0) {
					return nil
				}
			}
		case *ssa.FieldAddr, *ssa.IndexAddr:
			// a field or element of the variable is read (never written, never escaping)
			for _, r2 := range *u.(ssa.Value).Referrers() {
				switch l := r2.(type) {
				case *ssa.UnOp:
					if l.Op != token.MUL {
						return nil
					}
				case *ssa.DebugRef:
				default:
					return nil
				}
			}
		default:
			return nil
		}
	}
	if n == 1 {
		return val
	}
	return nil
}

// onlyRead: the captured cell fv is only loaded (or captured again by closures that only load it).
func onlyRead(fv *ssa.FreeVar, depth int) bool {
	if depth > 4 {
		return false
	}
	for _, r := range *fv.Referrers() {
		switch u := r.(type) {
		case *ssa.UnOp, *ssa.DebugRef:
		case *ssa.MakeClosure:
			for i, b := range u.Bindings {
				if b == ssa.Value(fv) && !onlyRead(u.Fn.(*ssa.Function).FreeVars[i], depth+1) {
					return false
				}
			}
		default:
			return false
		}
	}
	return true
}

// freeVarBinding resolves a free variable to the value bound at the (unique)
// MakeClosure site of its function.
func freeVarBinding(fv *ssa.FreeVar) ssa.Value {
	fn := fv.Parent()
	parent := fn.Parent()
	if parent == nil {
		return nil
	}
	idx := -1
	for i, f := range fn.FreeVars {
		if f == fv {
			idx = i
		}
	}
	if idx < 0 {
		return nil
	}
	var found ssa.Value
	n := 0
	for _, b := range parent.Blocks {
		for _, in := range b.Instrs {
			if mc, ok := in.(*ssa.MakeClosure); ok && mc.Fn == fn {
				n++
				found = mc.Bindings[idx]
			}
		}
	}
	if n == 1 {
		return found
	}
	return nil
}

// fieldLoad decomposes v as a load of field `name` of some base value:
// *(&base.f) or base.f. Returns the base and field name.
func fieldLoad(v ssa.Value) (base ssa.Value, field string, ok bool) {
	v = strip(v)
	switch x := v.(type) {
	case *ssa.UnOp:
		if x.Op != token.MUL {
			return nil, "", false
		}
		if fa, ok := x.X.(*ssa.FieldAddr); ok {
			return fa.X, refFieldName(fa.X.Type(), fa.Field), true
		}
	case *ssa.Field:
		return x.X, refFieldName(x.X.Type(), x.Field), true
	}
	return nil, "", false
}

// mapLookup decomposes v as m[k] (value only or comma-ok extract #0).
func mapLookup(v ssa.Value) (m, k ssa.Value, ok bool) {
	v = strip(v)
	if e, isE := v.(*ssa.Extract); isE && e.Index == 0 {
		v = e.Tuple
	}
	if l, isL := v.(*ssa.Lookup); isL {
		if _, isMap := l.X.Type().Underlying().(*types.Map); isMap {
			return l.X, l.Index, true
		}
	}
	return nil, nil, false
}

// instrsOf flattens a function's instructions in block order.
func instrsOf(fn *ssa.Function) []ssa.Instruction {
	var out []ssa.Instruction
	for _, b := range fn.Blocks {
		out = append(out, b.Instrs...)
	}
	return out
}

// referrers returns the instructions using v (nil-safe).
func referrers(v ssa.Value) []ssa.Instruction {
	r := v.Referrers()
	if r == nil {
		return nil
	}
	return *r
}

// varargElems: for a slice t[:] of a freshly allocated array whose slots are each
// stored exactly once at constant indexes (the shape of a variadic argument list
// or a small composite literal), returns the stored values in index order.
func varargElems(sl *ssa.Slice) ([]ssa.Value, bool) {
	al, ok := sl.X.(*ssa.Alloc)
	if !ok || sl.Low != nil || sl.High != nil {
		return nil, false
	}
	pt, ok := al.Type().Underlying().(*types.Pointer)
	if !ok {
		return nil, false
	}
	arr, ok := pt.Elem().Underlying().(*types.Array)
	if !ok {
		return nil, false
	}
	elems := make([]ssa.Value, arr.Len())
	for _, r := range referrers(al) {
		switch u := r.(type) {
		case *ssa.IndexAddr:
			idx, isC := intConst(u.Index)
			if !isC || idx < 0 || idx >= arr.Len() {
				return nil, false
			}
			for _, r2 := range referrers(u) {
				st, ok := r2.(*ssa.Store)
				if !ok || st.Addr != u || elems[idx] != nil {
					return nil, false
				}
				elems[idx] = st.Val
			}
		case *ssa.Slice:
		default:
			return nil, false
		}
	}
	for _, e := range elems {
		if e == nil {
			return nil, false
		}
	}
	return elems, true
}

// structLit: for v = *alloc (or alloc itself) where alloc is a local struct whose
// fields are each stored at most once via FieldAddr, returns field -> stored value.
func structLit(v ssa.Value) (map[string]ssa.Value, bool) {
	v = strip(v)
	if u, ok := v.(*ssa.UnOp); ok && u.Op == token.MUL {
		v = u.X
	}
	al, ok := v.(*ssa.Alloc)
	if !ok {
		return nil, false
	}
	pt, ok := al.Type().Underlying().(*types.Pointer)
	if !ok {
		return nil, false
	}
	_, ok = pt.Elem().Underlying().(*types.Struct)
	if !ok {
		return nil, false
	}
	out := map[string]ssa.Value{}
	for _, r := range referrers(al) {
		fa, ok := r.(*ssa.FieldAddr)
		if !ok {
			continue
		}
		for _, r2 := range referrers(fa) {
			if s, ok := r2.(*ssa.Store); ok && s.Addr == fa {
				name := refFieldName(al.Type(), fa.Field)
				if _, dup := out[name]; dup {
					return nil, false
				}
				out[name] = s.Val
			}
		}
	}
	return out, true
}

// backwardSlice returns the data-dependence closure of v within its function:
// operands, and for loads from a local allocation (or a field/element of one) the
// values stored into that allocation.
func backwardSlice(v ssa.Value, limit int) map[ssa.Value]bool {
	seen := map[ssa.Value]bool{}
	var walk func(x ssa.Value)
	walk = func(x ssa.Value) {
		if x == nil || seen[x] || len(seen) > limit {
			return
		}
		seen[x] = true
		if fv, ok := x.(*ssa.FreeVar); ok {
			if b := freeVarBinding(fv); b != nil {
				walk(b)
			}
			return
		}
		if al, ok := x.(*ssa.Alloc); ok {
			var storesTo func(addr ssa.Value)
			storesTo = func(addr ssa.Value) {
				for _, r := range referrers(addr) {
					switch u := r.(type) {
					case *ssa.Store:
						if u.Addr == addr {
							walk(u.Val)
						}
					case *ssa.FieldAddr:
						storesTo(u)
					case *ssa.IndexAddr:
						storesTo(u)
					}
				}
			}
			storesTo(al)
			return
		}
		in, ok := x.(ssa.Instruction)
		if !ok {
			return
		}
		for _, op := range in.Operands(nil) {
			if *op != nil {
				walk(*op)
			}
		}
	}
	walk(v)
	return seen
}

// indexedFields lists the names of struct fields whose (slice/array/map) value is
// indexed or ranged somewhere in the backward slice of v: the "lists" v is drawn from.
func indexedFields(v ssa.Value) map[string]bool {
	out := map[string]bool{}
	for x := range backwardSlice(v, 4000) {
		var coll ssa.Value
		switch u := x.(type) {
		case *ssa.IndexAddr:
			coll = u.X
		case *ssa.Index:
			coll = u.X
		case *ssa.Range:
			coll = u.X
		case *ssa.Lookup:
			coll = u.X
		}
		if coll == nil {
			continue
		}
		if _, f, ok := fieldLoad(coll); ok {
			out[f] = true
		} else if c, ok := strip(coll).(*ssa.Call); ok {
			out["call:"+calleeName(&c.Call)] = true
		}
	}
	return out
}

// paramRefName: the name of a parameter in the reference tree when the function exists there
// with the same parameter types (a renamed parameter keeps its reference name in every
// description, so that the rules do not depend on the spelling), else its own name.
func paramRefName(p *ssa.Parameter) string {
	fn := p.Parent()
	if fn == nil || fn.Pkg == nil {
		return p.Name()
	}
	if names, ok := paramRefMemo[fn]; ok {
		for i, q := range fn.Params {
			if q == p && i < len(names) && names[i] != "" {
				return names[i]
			}
		}
		return p.Name()
	}
	// outermost declared function, then the $n suffixes of the literal
	top := fn
	for top.Parent() != nil {
		top = top.Parent()
	}
	key := fn.Pkg.Pkg.Path() + "."
	if recv := top.Signature.Recv(); recv != nil {
		t := recv.Type()
		if pt, ok := t.(*types.Pointer); ok {
			t = pt.Elem()
		}
		if nt, ok := t.(*types.Named); ok {
			key += nt.Obj().Name() + "."
		}
	}
	key += fn.Name() // go/ssa names literals parent$n
	var names []string
	ref := baselineParams[key]
	if len(ref) == len(fn.Params) {
		okTypes := true
		qual := func(pk *types.Package) string {
			if pk == fn.Pkg.Pkg {
				return ""
			}
			return pk.Name()
		}
		for i, q := range fn.Params {
			nm, ty, _ := strings.Cut(ref[i], " ")
			if unqualify(types.TypeString(q.Type(), qual)) != unqualify(ty) {
				okTypes = false
			}
			if nm == "_" {
				nm = ""
			}
			names = append(names, nm)
		}
		if !okTypes {
			names = nil
		}
	}
	paramRefMemo[fn] = names
	for i, q := range fn.Params {
		if q == p && i < len(names) && names[i] != "" {
			return names[i]
		}
	}
	return p.Name()
}

var paramRefMemo = map[*ssa.Function][]string{}

var qualifierRe = regexp.MustCompile(`[A-Za-z_][A-Za-z0-9_]*\.`)

// unqualify drops package qualifiers from a type string (import aliases differ between the
// source text and the type checker's rendering); "interface{}" and "any" are one type.
func unqualify(t string) string {
	t = qualifierRe.ReplaceAllString(t, "")
	t = strings.ReplaceAll(t, "interface{}", "any")
	return strings.ReplaceAll(t, " ", "")
}

// argsOf: the operands of a call as they are at the call: an operand that is a merge (phi) of
// several values is resolved to the one value the facts holding at the call leave possible
// (a result variable of an expanded helper under `if err == nil`, say). Sound: refine only
// resolves when every other incoming value is ruled out.
func argsOf(ci ssa.CallInstruction) []ssa.Value {
	args := ci.Common().Args
	var facts []Fact
	var out []ssa.Value
	for i, a := range args {
		if phi, isPhi := strip(a).(*ssa.Phi); isPhi {
			if facts == nil {
				facts = factsAt(ci)
			}
			if rv := refine(phi, facts); rv != ssa.Value(phi) {
				if out == nil {
					out = append([]ssa.Value{}, args...)
				}
				out[i] = rv // (an interface or type conversion around the merge is dropped, as describe does)
			}
		}
	}
	if out != nil {
		return out
	}
	return args
}

// deref: v with conversions stripped and, when v loads a local that is stored exactly once
// (a variable captured by a closure is such a cell), the value stored.
func deref(v ssa.Value) ssa.Value {
	for n := 0; n < 4; n++ {
		v = strip(v)
		ld, ok := v.(*ssa.UnOp)
		if !ok || ld.Op != token.MUL {
			return v
		}
		base := ld.X
		for k := 0; k < 4; k++ {
			fv, ok := base.(*ssa.FreeVar)
			if !ok {
				break
			}
			b := freeVarBinding(fv)
			if b == nil {
				break
			}
			base = b
		}
		a, ok := base.(*ssa.Alloc)
		if !ok {
			return v
		}
		sv := singleStore(a)
		if sv == nil {
			return v
		}
		v = sv
	}
	return v
}

// fieldName is the name of the field addressed by fa.
func fieldName(fa *ssa.FieldAddr) string {
	return refFieldName(fa.X.Type(), fa.Field)
}

// ---- fields that are only ever set when their object is built ------------------------------

type fieldKey struct {
	t   types.Type // the struct type (named or not), as the FieldAddr's base element type
	idx int
}

var initOnlyMemo = map[string]bool{}
var allModuleFuncs []*ssa.Function
var allModuleFuncsProg *ssa.Program

func moduleFuncsOf(prog *ssa.Program) []*ssa.Function {
	if allModuleFuncsProg == prog {
		return allModuleFuncs
	}
	allModuleFuncsProg, allModuleFuncs = prog, nil
	for _, p := range prog.AllPackages() {
		if strings.HasPrefix(p.Pkg.Path(), modPath) {
			allModuleFuncs = append(allModuleFuncs, pkgAllFuncs(p)...)
		}
	}
	return allModuleFuncs
}

// initOnlyField: in the whole module, field idx of struct type t is stored only into objects
// the storing function has just allocated itself (composite literals, new(T) followed by
// assignments), and its address is never taken for anything but loads and stores. An object's
// field of that kind keeps the value its builder gave it.
func initOnlyField(prog *ssa.Program, t types.Type, idx int) bool {
	key := t.String() + "#" + fmt.Sprint(idx)
	if v, ok := initOnlyMemo[key]; ok {
		return v
	}
	res := true
	for _, f := range moduleFuncsOf(prog) {
		for _, b := range f.Blocks {
			for _, in := range b.Instrs {
				fa, ok := in.(*ssa.FieldAddr)
				if !ok || fa.Field != idx {
					continue
				}
				pt, ok := fa.X.Type().Underlying().(*types.Pointer)
				if !ok || !types.Identical(pt.Elem(), t) {
					continue
				}
				for _, r := range referrers(fa) {
					switch u := r.(type) {
					case *ssa.UnOp:
						if u.Op != token.MUL {
							res = false
						}
					case *ssa.DebugRef:
					case *ssa.Store:
						if u.Addr != ssa.Value(fa) {
							res = false // the field's address is stored somewhere
						} else if _, fresh := fa.X.(*ssa.Alloc); !fresh {
							res = false // an existing object is modified
						}
					default:
						res = false
					}
				}
			}
		}
	}
	initOnlyMemo[key] = res
	return res
}

// builtFieldValue: the value field idx of the object allocated by a was built with, when the
// field is init-only (see above), a stores it exactly once, and a is not handed to a decoder
// that could fill it by reflection.
func builtFieldValue(a *ssa.Alloc, idx int) ssa.Value {
	pt, ok := a.Type().Underlying().(*types.Pointer)
	if !ok {
		return nil
	}
	if _, isStruct := pt.Elem().Underlying().(*types.Struct); !isStruct {
		return nil
	}
	if a.Parent() == nil || a.Parent().Prog == nil || !initOnlyField(a.Parent().Prog, pt.Elem(), idx) {
		return nil
	}
	var val ssa.Value
	n := 0
	for _, r := range referrers(a) {
		switch u := r.(type) {
		case *ssa.FieldAddr:
			if u.Field != idx {
				continue
			}
			for _, r2 := range referrers(u) {
				if s, ok := r2.(*ssa.Store); ok && s.Addr == ssa.Value(u) {
					n++
					val = s.Val
				}
			}
		case ssa.CallInstruction:
			cn := calleeName(u.Common())
			if strings.Contains(cn, "Unmarshal") || strings.Contains(cn, "Decode") {
				return nil
			}
		case *ssa.MakeInterface:
			for _, r2 := range referrers(u) {
				if ci, ok := r2.(ssa.CallInstruction); ok {
					cn := calleeName(ci.Common())
					if strings.Contains(cn, "Unmarshal") || strings.Contains(cn, "Decode") {
						return nil
					}
				}
			}
		}
	}
	if n != 1 {
		return nil
	}
	return val
}

// sepConstOf: a separator given as a constant string, or as a constant byte/rune (the operand
// of IndexByte, ContainsRune, WriteByte …): the one-character string.
func sepConstOf(v ssa.Value) (string, bool) {
	c, ok := strip(v).(*ssa.Const)
	if !ok || c.Value == nil {
		return "", false
	}
	if c.Value.Kind() == constant.String {
		return constant.StringVal(c.Value), true
	}
	if b, isB := c.Type().Underlying().(*types.Basic); isB && b.Info()&types.IsInteger != 0 {
		if n, ok := constant.Int64Val(c.Value); ok && n >= 0 && n < 0x110000 {
			return string(rune(n)), true
		}
	}
	return "", false
}

// strPart: one piece of a built string: a literal, a string value, or a float64 printed with %g.
type strPart struct {
	lit *string
	v   ssa.Value
	g   bool
}

// stringParts splits a string-building call into its pieces: fmt.Sprintf with a constant format
// whose verbs are all %s (string operand) or %g (float64 operand), or strconv.FormatFloat(x, 'g', -1, 64).
func stringParts(cl *ssa.Call) ([]strPart, bool) {
	switch calleeName(&cl.Call) {
	case "strconv.FormatFloat":
		a := cl.Call.Args
		if len(a) == 4 {
			f, ok1 := intConst(a[1])
			pr, ok2 := intConst(a[2])
			bs, ok3 := intConst(a[3])
			if ok1 && ok2 && ok3 && f == 'g' && pr == -1 && bs == 64 {
				return []strPart{{v: a[0], g: true}}, true
			}
		}
		return nil, false
	case "fmt.Sprintf":
	default:
		return nil, false
	}
	a := cl.Call.Args
	if len(a) != 2 {
		return nil, false
	}
	format, ok := constOf(a[0])
	if !ok {
		return nil, false
	}
	var elems []ssa.Value
	if sl, isSl := a[1].(*ssa.Slice); isSl {
		if elems, ok = varargElems(sl); !ok {
			return nil, false
		}
	} else if !isNilConst(a[1]) {
		return nil, false
	}
	var parts []strPart
	lit := ""
	flush := func() {
		if lit != "" {
			l := lit
			parts = append(parts, strPart{lit: &l})
			lit = ""
		}
	}
	k := 0
	for i := 0; i < len(format); i++ {
		if format[i] != '%' {
			lit += string(format[i])
			continue
		}
		if i+1 >= len(format) {
			return nil, false
		}
		i++
		switch format[i] {
		case '%':
			lit += "%"
		case 's', 'g':
			if k >= len(elems) {
				return nil, false
			}
			e := elems[k]
			k++
			// the operand as it was before it was boxed into the ...any slice
			if mi, isMI := e.(*ssa.MakeInterface); isMI {
				e = mi.X
			}
			b, isBasic := e.Type().Underlying().(*types.Basic)
			if !isBasic {
				return nil, false
			}
			if format[i] == 's' && b.Info()&types.IsString != 0 {
				flush()
				parts = append(parts, strPart{v: e})
			} else if format[i] == 'g' && b.Kind() == types.Float64 {
				flush()
				parts = append(parts, strPart{v: e, g: true})
			} else {
				return nil, false
			}
		default:
			return nil, false
		}
	}
	flush()
	if k != len(elems) || len(parts) == 0 {
		return nil, false
	}
	return parts, true
}

// builtStrings: the string-building expressions of fn — Sprintf calls and outermost string
// concatenations — each rendered canonically by describe (see stringParts).
func builtStrings(fn *ssa.Function) []ssa.Value {
	var out []ssa.Value
	for _, in := range instrsOf(fn) {
		switch x := in.(type) {
		case *ssa.Call:
			if calleeName(&x.Call) == "fmt.Sprintf" {
				out = append(out, x)
			}
		case *ssa.BinOp:
			if x.Op != token.ADD || !isStringy(x.Type()) {
				continue
			}
			root := true
			for _, u := range referrers(x) {
				if b, ok := u.(*ssa.BinOp); ok && b.Op == token.ADD && b.X == ssa.Value(x) {
					root = false
				}
			}
			if root {
				out = append(out, x)
			}
		}
	}
	return out
}

// refGlobalName: the reference name of a package-level variable (declrename.go).
func refGlobalName(g *ssa.Global) string {
	if g.Pkg != nil {
		if old, ok := refVar[g.Pkg.Pkg.Path()+"."+g.Name()]; ok {
			return old
		}
	}
	return g.Name()
}

var fieldNeverReadMemo = map[string]bool{}

// fieldNeverRead: in the whole module the field addressed by fa is only ever stored to — never
// loaded, never has its address passed on, and its struct is never copied as a value, compared
// or handed to anything that could read it by reflection (the struct type is unexported).
func fieldNeverRead(prog *ssa.Program, fa *ssa.FieldAddr) bool {
	return fieldNeverReadOpt(prog, fa, false)
}

// fieldNeverReadOpt: with exportedTypeOK the struct type may be exported as long as the field itself
// is not (code outside the module cannot name the field; it could still print the struct).
func fieldNeverReadOpt(prog *ssa.Program, fa *ssa.FieldAddr, exportedTypeOK bool) bool {
	pt, ok := fa.X.Type().Underlying().(*types.Pointer)
	if !ok {
		return false
	}
	nt, ok := pt.Elem().(*types.Named)
	if !ok {
		return false
	}
	if nt.Obj().Exported() {
		st, isSt := nt.Underlying().(*types.Struct)
		if !exportedTypeOK || !isSt || fa.Field >= st.NumFields() || st.Field(fa.Field).Exported() {
			return false
		}
	}
	key := nt.String() + "#" + fmt.Sprint(fa.Field) + fmt.Sprint(exportedTypeOK)
	if v, ok := fieldNeverReadMemo[key]; ok {
		return v
	}
	res := true
	for _, f := range moduleFuncsOf(prog) {
		for _, b := range f.Blocks {
			for _, in := range b.Instrs {
				switch x := in.(type) {
				case *ssa.FieldAddr:
					if x.Field != fa.Field || !types.Identical(x.X.Type(), fa.X.Type()) {
						continue
					}
					for _, r := range referrers(x) {
						switch u := r.(type) {
						case *ssa.Store:
							if u.Addr != ssa.Value(x) {
								res = false
							}
						case *ssa.DebugRef:
						default:
							res = false
						}
					}
				case *ssa.Field:
					if x.Field == fa.Field && types.Identical(x.X.Type(), pt.Elem()) {
						res = false
					}
				case *ssa.MakeInterface:
					// (relaxed mode: an unexported field that no code loads is visible to reflection-based
					// printing only; JSON and templates skip it)
					if !exportedTypeOK && (types.Identical(x.X.Type(), pt.Elem()) || types.Identical(x.X.Type(), fa.X.Type())) {
						res = false // the struct (or a pointer to it) goes into an interface: it could be printed
						if os.Getenv("VERIF_DEBUG_NEVERREAD") != "" {
							fmt.Fprintln(os.Stderr, "NEVERREAD iface", key, f, prog.Fset.Position(x.Pos()))
						}
					}
				}
			}
		}
	}
	fieldNeverReadMemo[key] = res
	return res
}
