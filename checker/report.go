package main

// Obligations, evidence files, known findings, exit codes.

import (
	"bufio"
	"encoding/json"
	"fmt"
	"os"
	"path/filepath"
	"regexp"
	"sort"
	"strings"
	"time"
)

type Obligation struct {
	Rule   string `json:"rule"` // e.g. C01.gate
	Key    string `json:"key"`  // rule/function/construct descriptor (never a line number)
	Pos    string `json:"pos"`  // file:line, human readable only
	OK     bool   `json:"ok"`
	Detail string `json:"detail"` // facts required / found, path, …
	Config string `json:"config,omitempty"`
}

type Report struct {
	Prop        string
	Tier        string
	Seed        int64
	Start       time.Time
	Obls        []Obligation
	Notes       []string
	Assumptions []string
	Decided     []string // clauses decided
	NotDecided  []string
	Floors      map[string]int
	Analysed    map[string]any
	Selftest    map[string]any
	curConfig   string
	alias       map[string]string // while set: rules are reported under these names, other rules are dropped (As)
}

func newReport(prop, tier string, seed int64) *Report {
	return &Report{Prop: prop, Tier: tier, Seed: seed, Start: time.Now(), Floors: map[string]int{}, Analysed: map[string]any{}}
}

// Check records an obligation. key must identify the construct without line numbers.
func (r *Report) Check(rule, key, pos string, ok bool, detail string) bool {
	if r.alias != nil {
		to, shared := r.alias[rule]
		if !shared {
			return ok
		}
		rule = to
	}
	r.Obls = append(r.Obls, Obligation{Rule: rule, Key: rule + "/" + key, Pos: pos, OK: ok, Detail: detail, Config: r.curConfig})
	return ok
}

// As runs fn (the rules of another property) and files the obligations of the rules named in alias
// under this property's rule names; obligations of other rules raised by fn are not recorded here
// (they belong to the property that owns fn).
func (r *Report) As(alias map[string]string, fn func()) {
	old := r.alias
	r.alias = alias
	defer func() { r.alias = old }()
	fn()
}

// Floor demands at least n obligations (instances) for rule; fewer is an
// infrastructure failure (a rule that matches nothing passes vacuously forever).
func (r *Report) Floor(rule string, n int) { r.Floors[rule] = n }

func (r *Report) Assume(s string) {
	for _, a := range r.Assumptions {
		if a == s {
			return
		}
	}
	r.Assumptions = append(r.Assumptions, s)
}

type knownFinding struct {
	Property string `json:"property"`
	Key      string `json:"key"`
	Status   string `json:"status"`
	Commit   string `json:"commit,omitempty"`
	What     string `json:"what"`
}

func loadKnown(path string) []knownFinding {
	f, err := os.Open(path)
	if err != nil {
		return nil
	}
	defer f.Close()
	var out []knownFinding
	sc := bufio.NewScanner(f)
	sc.Buffer(make([]byte, 1<<20), 1<<20)
	for sc.Scan() {
		line := strings.TrimSpace(sc.Text())
		if line == "" || strings.HasPrefix(line, "#") {
			continue
		}
		var k knownFinding
		if err := json.Unmarshal([]byte(line), &k); err != nil {
			infra("KNOWN_FINDINGS.jsonl: %v", err)
		}
		out = append(out, k)
	}
	return out
}

var unsafeName = regexp.MustCompile(`[^A-Za-z0-9_.-]+`)

// Finish writes evidence and replay files, prints the verdict lines and returns the exit code.
func (r *Report) Finish(verifDir, evidencePath string) int {
	known := loadKnown(filepath.Join(verifDir, "KNOWN_FINDINGS.jsonl"))
	knownKeys := map[string]knownFinding{}
	for _, k := range known {
		if k.Property == r.Prop && k.Status == "known" {
			knownKeys[k.Key] = k
		}
	}

	// floors
	perRule := map[string]int{}
	distinct := map[string]bool{}
	for _, o := range r.Obls {
		if !distinct[o.Key+"|"+o.Config] {
			distinct[o.Key+"|"+o.Config] = true
		}
		perRule[o.Rule]++
	}
	keysSeen := map[string]bool{}
	for _, o := range r.Obls {
		keysSeen[o.Key] = true
	}
	var floorFail []string
	for rule, n := range r.Floors {
		// distinct keys of that rule
		c := 0
		seen := map[string]bool{}
		for _, o := range r.Obls {
			if o.Rule == rule && !seen[o.Key] {
				seen[o.Key] = true
				c++
			}
		}
		if c < n {
			floorFail = append(floorFail, fmt.Sprintf("%s: %d instances < floor %d", rule, c, n))
		}
	}
	sort.Strings(floorFail)
	// a rule that matches fewer sites than were confirmed by hand on the reference tree has lost
	// its subject on this tree: that is a verdict about the tree (undecided never passes), not a
	// failure of the tool
	for _, f := range floorFail {
		rule, _, _ := strings.Cut(f, ":")
		r.Obls = append(r.Obls, Obligation{Rule: rule, Key: rule + "/instances found on this tree", Pos: "-", OK: false,
			Detail: "the rule found fewer instances than its floor (" + f + "): code it is about has disappeared or changed shape, so the rule decides nothing here"})
	}

	// violations, deduplicated by key
	type viol struct {
		o     Obligation
		count int
	}
	vmap := map[string]*viol{}
	var vkeys []string
	discharged := 0
	for _, o := range r.Obls {
		if o.OK {
			discharged++
			continue
		}
		if v, ok := vmap[o.Key]; ok {
			v.count++
			continue
		}
		vmap[o.Key] = &viol{o, 1}
		vkeys = append(vkeys, o.Key)
	}
	sort.Strings(vkeys)

	violDir := strings.TrimSuffix(evidencePath, ".json") + ".violations"
	os.RemoveAll(violDir)
	newViol := 0
	knownHit := 0
	var lines []string
	for _, k := range vkeys {
		v := vmap[k]
		if kf, ok := knownKeys[k]; ok {
			knownHit++
			lines = append(lines, fmt.Sprintf("KNOWN-FINDING: property=%s %s [%s at %s]", r.Prop, kf.What, k, v.o.Pos))
			continue
		}
		newViol++
		os.MkdirAll(violDir, 0o755)
		rp := filepath.Join(violDir, unsafeName.ReplaceAllString(k, "_")+".json")
		data, _ := json.MarshalIndent(map[string]any{
			"property": r.Prop, "rule": v.o.Rule, "key": k, "pos": v.o.Pos, "detail": v.o.Detail, "config": v.o.Config,
			"rerun": fmt.Sprintf("/verif/run.sh %s %s", r.Prop, r.Tier),
		}, "", " ")
		os.WriteFile(rp, data, 0o644)
		lines = append(lines, fmt.Sprintf("  violated: %s at %s: %s", k, v.o.Pos, v.o.Detail))
		lines = append(lines, fmt.Sprintf("VIOLATION property=%s replay=%s", r.Prop, rp))
	}

	// evidence
	var samples []any
	// take a spread of obligations as samples: first of each rule, up to 40
	seenRule := map[string]int{}
	for _, o := range r.Obls {
		if seenRule[o.Rule] < 3 && len(samples) < 60 {
			seenRule[o.Rule]++
			samples = append(samples, o)
		}
	}
	rules := make([]string, 0, len(perRule))
	for k := range perRule {
		rules = append(rules, k)
	}
	sort.Strings(rules)
	ruleCounts := map[string]int{}
	for _, k := range rules {
		ruleCounts[k] = perRule[k]
	}
	expl := fmt.Sprintf("Static analysis of /repo's current source (type-checked AST + go/ssa + call graph); nothing from /repo is executed. "+
		"Decided clauses: %s. NOT decided (needs run-time values): %s.",
		strings.Join(r.Decided, "; "), strings.Join(r.NotDecided, "; "))
	cov := map[string]any{
		"explanation":         expl,
		"obligations":         len(r.Obls),
		"discharged":          discharged,
		"evaluations":         len(r.Obls),
		"distinct_nontrivial": len(keysSeen),
		"rule":                "one obligation per rule instance (rule id / function / construct), enumerated from the loaded program; distinct = distinct instance keys; every instance has a real proof obligation (facts, ordering, agreement) evaluated on the SSA/AST",
		"samples":             samples,
		"per_rule":            ruleCounts,
		"rules":               rules,
		"analysed":            r.Analysed,
		"floors":              r.Floors,
		"known_findings_hit":  knownHit,
		"exhaustive":          true,
		"checker_cmd":         fmt.Sprintf("/verif/run.sh %s %s", r.Prop, r.Tier),
		"trusted_base":        []string{"go/types", "go/ssa + go/packages + callgraph/vta (x/tools v0.29.0)", "go list", "library contract table (DESIGN.md App. B)"},
	}
	if r.Selftest != nil {
		cov["selftest"] = r.Selftest
	}
	if len(r.Notes) > 0 {
		cov["notes"] = r.Notes
	}
	ev := map[string]any{
		"property_id": r.Prop,
		"tier":        r.Tier,
		"seed":        r.Seed,
		"level":       "other",
		"coverage":    cov,
		"assumptions": append([]string{"library contracts of DESIGN.md Appendix B", "go/ssa faithfully represents the compiled program"}, r.Assumptions...),
		"wall_s":      time.Since(r.Start).Seconds(),
		"violations":  newViol,
	}
	data, _ := json.MarshalIndent(ev, "", " ")
	os.MkdirAll(filepath.Dir(evidencePath), 0o755)
	if err := os.WriteFile(evidencePath, data, 0o644); err != nil {
		infra("write evidence: %v", err)
	}

	fmt.Printf("%s %s: %d obligations over %d rules, %d discharged, %d known finding(s), %d new violation(s)\n",
		r.Prop, r.Tier, len(r.Obls), len(rules), discharged, knownHit, newViol)
	for _, k := range rules {
		fmt.Printf("  rule %-34s %3d instance(s)\n", k, perRule[k])
	}
	if os.Getenv("VERIF_VERBOSE") != "" {
		for _, o := range r.Obls {
			st := "ok  "
			if !o.OK {
				st = "FAIL"
			}
			d := o.Detail
			if len(d) > 220 {
				d = d[:220] + "…"
			}
			fmt.Printf("    %s %s @%s :: %s\n", st, o.Key, o.Pos, d)
		}
	}
	for _, l := range lines {
		fmt.Println(l)
	}
	if newViol > 0 {
		return 1
	}
	return 0
}
