package main

import (
	"flag"
	"fmt"
	"os"
	"path/filepath"
	"runtime/debug"
	"sort"
	"strconv"
	"strings"
)

// Ctx is what a property's rule set sees.
type Ctx struct {
	Repo  string
	Tier  string
	R     *Report
	root  *Module
	godev *Module
	goos  string
	arch  string
}

// Root loads (once) the root module for the current build configuration.
func (c *Ctx) Root() *Module {
	if c.root == nil {
		c.root = loadModule("root", c.Repo, c.goos, c.arch, 23)
		c.R.Analysed["root_packages"] = len(c.root.Pkgs)
		c.R.Analysed["root_functions"] = len(c.root.srcFns)
		if c.root.Inline.Sites > 0 || c.root.Inline.Note != "" {
			c.R.Analysed["root_new_helpers_inlined"] = c.root.Inline
		}
	}
	return c.root
}

// Godev loads (once) the godev module.
func (c *Ctx) Godev() *Module {
	if c.godev == nil {
		c.godev = loadModule("godev", filepath.Join(c.Repo, "godev"), c.goos, c.arch, 9)
		c.R.Analysed["godev_packages"] = len(c.godev.Pkgs)
		c.R.Analysed["godev_functions"] = len(c.godev.srcFns)
		if c.godev.Inline.Sites > 0 || c.godev.Inline.Note != "" {
			c.R.Analysed["godev_new_helpers_inlined"] = c.godev.Inline
		}
	}
	return c.godev
}

type propDef struct {
	run        func(c *Ctx)
	decided    []string
	notDecided []string
	// matrix: also evaluate under other build configurations in the thorough tier
	matrix bool
}

var props = map[string]*propDef{}

func register(id string, p *propDef) { props[id] = p }

var thoroughConfigs = [][2]string{
	{"linux", "386"}, {"linux", "arm64"}, {"darwin", "amd64"}, {"darwin", "arm64"},
	{"windows", "amd64"}, {"windows", "386"}, {"windows", "arm64"},
}

func main() {
	repo := flag.String("repo", "/repo", "repository to analyse")
	prop := flag.String("prop", "", "property id")
	tier := flag.String("tier", "quick", "quick|thorough")
	evidence := flag.String("evidence", "", "evidence file to write")
	verif := flag.String("verif", "/verif", "verif dir (KNOWN_FINDINGS.jsonl)")
	list := flag.Bool("list", false, "list implemented properties")
	dump := flag.Bool("dump-funcs", false, "print the function list of -repo (reference for baseline_funcs.txt)")
	dumpInv := flag.Bool("dump-inventory", false, "print the effect / cross-package call / state inventory of -repo (reference for baseline_inventory.txt)")
	flag.Parse()
	if *dump {
		dumpFuncs(*repo)
		return
	}
	if *dumpInv {
		dumpInventory(*repo)
		return
	}
	if *list {
		var ids []string
		for id := range props {
			ids = append(ids, id)
		}
		sort.Strings(ids)
		for _, id := range ids {
			fmt.Println(id)
		}
		return
	}
	p := props[*prop]
	if p == nil {
		fmt.Fprintf(os.Stderr, "INFRA: unknown property %q\n", *prop)
		os.Exit(2)
	}
	if *evidence == "" {
		*evidence = filepath.Join(*verif, "evidence", *prop+".json")
	}
	seed, _ := strconv.ParseInt(os.Getenv("VERIF_SEED"), 10, 64)
	code := func() (code int) {
		defer func() {
			if e := recover(); e != nil {
				if ie, ok := e.(infraError); ok {
					fmt.Fprintf(os.Stderr, "INFRA: %s\n", ie.msg)
				} else {
					fmt.Fprintf(os.Stderr, "INFRA: analyser panic: %v\n%s\n", e, debug.Stack())
				}
				code = 2
			}
		}()
		r := newReport(*prop, *tier, seed)
		r.Decided, r.NotDecided = p.decided, p.notDecided
		c := &Ctx{Repo: *repo, Tier: *tier, R: r}
		r.curConfig = "linux/amd64"
		c.goos, c.arch = "linux", "amd64"
		runGuarded(p, c, *prop)
		runGuarded(&propDef{run: func(cc *Ctx) { checkInventory(cc, *prop) }}, c, *prop)
		configs := []string{"linux/amd64"}
		if *tier == "thorough" && p.matrix {
			for _, cf := range thoroughConfigs {
				c2 := &Ctx{Repo: *repo, Tier: *tier, R: r, goos: cf[0], arch: cf[1]}
				r.curConfig = cf[0] + "/" + cf[1]
				runGuarded(p, c2, *prop)
				configs = append(configs, r.curConfig)
			}
		}
		r.Analysed["configurations"] = configs
		if *tier == "thorough" {
			runSelftest(c, *verif)
		}
		return r.Finish(*verif, *evidence)
	}()
	os.Exit(code)
}

// runGuarded runs a property's rules. An analyser panic that is not an
// infrastructure error means a rule met a code shape it cannot interpret:
// policy "undecided never passes silently" - it is reported as a failed
// obligation naming the panic, not as a pass and not as a crash.
func runGuarded(p *propDef, c *Ctx, prop string) {
	defer func() {
		if e := recover(); e != nil {
			if ie, ok := e.(infraError); ok {
				if strings.HasPrefix(ie.msg, "UNRESOLVED anchor") {
					// the code a rule is anchored in is gone (removed, renamed or merged into its
					// callers): the property cannot be decided on this tree, which is a failure of
					// the check for this tree, reported as such rather than as a tool error
					c.R.Check(prop+".undecided", "anchor resolved: "+strings.TrimPrefix(ie.msg, "UNRESOLVED anchor"), "-", false,
						"a function, variable or package the rules of this property are anchored in no longer exists ("+ie.msg+"); the rules after it were not evaluated")
					return
				}
				if !strings.HasPrefix(ie.msg, "load ") && !strings.HasPrefix(ie.msg, "no SSA package") && !strings.HasPrefix(ie.msg, "instance floor") {
					// a rule met a shape it cannot decide (too many cases for the comparison
					// evaluator, an ambiguous construction): undecided never passes silently, and it
					// is the tree's verdict, not a tool failure
					c.R.Check(prop+".undecided", "rule could not be decided: "+shortDesc(ie.msg), "-", false,
						"a rule of this property could not be evaluated on this code ("+ie.msg+"); the rules after it were not evaluated")
					return
				}
				panic(ie)
			}
			st := string(debug.Stack())
			where := ""
			for _, line := range strings.Split(st, "\n") {
				if strings.Contains(line, "/verif/checker/c") && strings.Contains(line, ".go:") {
					where = strings.TrimSpace(line)
					break
				}
			}
			c.R.Check(prop+".undecided", "rule could not be evaluated on this code shape", "-", false,
				fmt.Sprintf("the analyser could not interpret the code it is anchored in (%v at %s); a rule that cannot be decided fails", e, where))
		}
	}()
	p.run(c)
}
