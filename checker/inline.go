package main

// E14: normalisation before analysis — NEW helper functions are inlined into their callers.
//
// The rules of this checker are anchored in the functions of the reference tree (the list in
// baseline_funcs.txt). A maintainer who extracts a condition or a block of such a function
// into a new helper leaves the behaviour unchanged but moves the constructs a rule looks
// for out of the anchor. To keep the verdict independent of that choice, every call to a
// function that does NOT exist in the reference tree (same package, has a body, no defer /
// recover / labels / generics / variadics) is expanded in place, at source level, into an
// overlay that is type-checked again by go/packages; /repo itself is never written. The
// expansion is the textbook one and is semantics-preserving by construction:
//
//	var r0 T                      // results
//	{
//	    var a0 P0 = recv; var a1 P1 = arg1 …        // operands, evaluated left to right
//	    L: switch { default: {                      // only if the body has early returns
//	        p0, p1 := a0, a1                        // callee's own names, in their own scope
//	        …body, with  return e  →  { r0 = e; break L } …
//	    }}
//	}
//	S[call := r0]                 // the statement that contained the call
//
// A call is expanded only when it is the first call evaluated by its statement (so the order of
// calls is preserved) and when no identifier the body uses is shadowed at the call site.
// Anything else is left as a call. On the unchanged tree there is no new function, so nothing
// is expanded and the analysed program is exactly the one on disk.

import (
	"crypto/sha1"
	_ "embed"
	"fmt"
	"go/ast"
	"go/parser"
	"go/printer"
	"go/scanner"
	"go/token"
	"go/types"
	"os"
	"path/filepath"
	"regexp"
	"sort"
	"strings"

	"golang.org/x/tools/go/packages"
)

//go:embed baseline_funcs.txt
var baselineFuncsTxt string

// baselineFuncs: the functions of the reference tree; baselineParams: their receiver and
// parameter names with types ("name type"), in order. The names are those the rules and their
// messages use ("param:data"); a parameter that was merely renamed is still described by its
// reference name as long as the signature's types are unchanged (values.go, describe).
var baselineFuncs, baselineParams, baselineBodies = func() (map[string]bool, map[string][]string, map[string]string) {
	m := map[string]bool{}
	ps := map[string][]string{}
	fps := map[string]string{}
	for _, l := range strings.Split(baselineFuncsTxt, "\n") {
		if l = strings.TrimRight(l, " \r"); strings.TrimSpace(l) != "" && !strings.HasPrefix(l, "#") {
			key, rest, _ := strings.Cut(l, "\t")
			params, fp, _ := strings.Cut(rest, "\t")
			m[key] = true
			if params != "" {
				ps[key] = strings.Split(params, "|")
			}
			if fp != "" {
				// one key can have several bodies (per-platform files): any of them
				if fps[key] != "" {
					fps[key] += ","
				}
				fps[key] += fp
			}
		}
	}
	return m, ps, fps
}()

// bodyPrint: a fingerprint of a function body: its tokens, comments and layout left out. A
// function that was merely renamed (or re-commented, or re-formatted) keeps it.
func bodyPrint(fset *token.FileSet, body *ast.BlockStmt) string { return bodyPrintR(fset, body, nil) }

// bodyPrintR: bodyPrint with the identifiers in ren read under their reference names (functions
// already recognised as renamed: their callers' bodies changed only in that name).
func bodyPrintR(fset *token.FileSet, body *ast.BlockStmt, ren map[string]string) string {
	if body == nil {
		return ""
	}
	tf := fset.File(body.Pos())
	if tf == nil {
		return ""
	}
	src, err := os.ReadFile(tf.Name())
	if err != nil || tf.Offset(body.End()) > len(src) {
		return ""
	}
	text := src[tf.Offset(body.Pos()):tf.Offset(body.End())]
	var sc scanner.Scanner
	fs := token.NewFileSet()
	sc.Init(fs.AddFile("", fs.Base(), len(text)), text, nil, 0)
	h := sha1.New()
	for {
		_, tok, lit := sc.Scan()
		if tok == token.EOF {
			break
		}
		if tok == token.SEMICOLON && lit == "\n" {
			continue
		}
		if lit == "" {
			lit = tok.String()
		}
		if tok == token.IDENT {
			if old, ok := ren[lit]; ok {
				lit = old
			}
		}
		h.Write([]byte(lit))
		h.Write([]byte{0})
	}
	return fmt.Sprintf("%x", h.Sum(nil)[:6])
}

// Renamed anchors. A function of the reference tree that no longer exists, while a function that
// does not exist in the reference tree has the same receiver, the same parameter types and the
// same body, was renamed. The new name is then treated as the old one: it is not expanded into
// its callers, anchors resolve to it, and it is reported under the reference name.
var renameNewToOld = map[string]string{} // key of the new function → reference simple name
var renameOldToNew = map[string]string{} // reference key → new simple name

func detectRenames(pkgs []*packages.Package, dir string) []string {
	var notes []string
	for _, p := range pkgs {
		if len(p.Syntax) == 0 || p.Types == nil || len(p.CompiledGoFiles) != len(p.Syntax) {
			continue
		}
		present := map[string]bool{}
		var fresh []*ast.FuncDecl
		inModule := false
		for i, f := range p.Syntax {
			if !strings.HasPrefix(p.CompiledGoFiles[i], dir+string(filepath.Separator)) {
				continue
			}
			inModule = true
			for _, d := range f.Decls {
				if fd, ok := d.(*ast.FuncDecl); ok {
					k := funcKey(p.PkgPath, fd)
					present[k] = true
					if !baselineFuncs[k] && fd.Body != nil {
						fresh = append(fresh, fd)
					}
				}
			}
		}
		if !inModule || len(fresh) == 0 {
			continue
		}
		typesOf := func(fd *ast.FuncDecl) []string {
			var got []string
			add := func(fl *ast.FieldList) {
				if fl == nil {
					return
				}
				for _, fld := range fl.List {
					var tb strings.Builder
					printer.Fprint(&tb, p.Fset, fld.Type)
					nn := len(fld.Names)
					if nn == 0 {
						nn = 1
					}
					for j := 0; j < nn; j++ {
						got = append(got, tb.String())
					}
				}
			}
			add(fd.Recv)
			add(fd.Type.Params)
			return got
		}
		prefix := p.PkgPath + "."
		var keys []string
		for key := range baselineBodies {
			keys = append(keys, key)
		}
		sort.Strings(keys)
		identRen := map[string]string{} // new simple name → reference simple name, within this package
		for pass := 0; pass < 3; pass++ {
			before := len(notes)
			for _, key := range keys {
				if _, done := renameOldToNew[key]; done {
					continue
				}
				fp := baselineBodies[key]
				// reference functions of this package that are gone
				if !strings.HasPrefix(key, prefix) || strings.Contains(key, "$") || present[key] {
					continue
				}
				rest := strings.TrimPrefix(key, prefix)
				if strings.Contains(rest, "/") {
					continue // a sub-package's function
				}
				recvPart := ""
				if i := strings.LastIndex(rest, "."); i >= 0 {
					recvPart = rest[:i+1]
				}
				var match *ast.FuncDecl
				n := 0
				for _, fd := range fresh {
					nk := strings.TrimPrefix(funcKey(p.PkgPath, fd), prefix)
					nRecv := ""
					if i := strings.LastIndex(nk, "."); i >= 0 {
						nRecv = nk[:i+1]
					}
					if _, taken := renameNewToOld[funcKey(p.PkgPath, fd)]; taken {
						continue
					}
					if nRecv != recvPart || !strings.Contains(","+fp+",", ","+bodyPrintR(p.Fset, fd.Body, identRen)+",") {
						continue
					}
					match = fd
					n++
				}
				if os.Getenv("VERIF_INLINE_DEBUG") != "" {
					var fs []string
					for _, fd := range fresh {
						fs = append(fs, fd.Name.Name+"="+bodyPrintR(p.Fset, fd.Body, identRen))
					}
					fmt.Printf("rename? missing %s fp=%s candidates %v matches=%d\n", key, fp, fs, n)
				}
				if n != 1 {
					continue
				}
				want, got := baselineParams[key], typesOf(match)
				same := len(got) == len(want)
				for i := range got {
					if same {
						_, t, _ := strings.Cut(want[i], " ")
						same = t == got[i]
					}
				}
				if !same {
					continue
				}
				newKey := funcKey(p.PkgPath, match)
				oldName := rest[strings.LastIndex(rest, ".")+1:]
				renameNewToOld[newKey] = oldName
				renameOldToNew[key] = match.Name.Name
				baselineFuncs[newKey] = true
				baselineParams[newKey] = baselineParams[key]
				for k, v := range baselineParams {
					if strings.HasPrefix(k, key+"$") {
						baselineParams[newKey+strings.TrimPrefix(k, key)] = v
						baselineFuncs[newKey+strings.TrimPrefix(k, key)] = true
					}
				}
				notes = append(notes, strings.TrimPrefix(key, modPath+"/")+" is now "+match.Name.Name)
				identRen[match.Name.Name] = oldName
			}
			if len(notes) == before {
				break
			}
		}
	}
	sort.Strings(notes)
	return notes
}

func recvTypeName(e ast.Expr) string {
	for {
		switch t := e.(type) {
		case *ast.StarExpr:
			e = t.X
		case *ast.ParenExpr:
			e = t.X
		case *ast.IndexExpr:
			e = t.X
		case *ast.IndexListExpr:
			e = t.X
		case *ast.Ident:
			return t.Name
		default:
			return "?"
		}
	}
}

func funcKey(pkgPath string, fd *ast.FuncDecl) string {
	if fd.Recv != nil && len(fd.Recv.List) > 0 {
		tn := recvTypeName(fd.Recv.List[0].Type)
		if old, ok := refType[pkgPath+"."+tn]; ok {
			tn = old // a renamed type: its methods keep their reference keys
		}
		return pkgPath + "." + tn + "." + fd.Name.Name
	}
	return pkgPath + "." + fd.Name.Name
}

type inlineStats struct {
	Helpers []string `json:"helpers_inlined,omitempty"`
	Sites   int      `json:"call_sites_expanded"`
	Left    []string `json:"calls_left_as_calls,omitempty"`
	Rounds  int      `json:"rounds"`
	// new struct types turned back into local variables (sroa.go)
	Scalarised []string `json:"structs_scalarised,omitempty"`
	// reference functions recognised under a new name
	Renamed []string `json:"renamed,omitempty"`
	Note    string   `json:"note,omitempty"`
}

type edit struct {
	start, end int
	text       string
}

type candidate struct {
	fd   *ast.FuncDecl
	obj  *types.Func
	file *ast.File
	src  []byte
	tf   *token.File
	free []freeRef
	// single-expression helpers: func f(p…) T { return expr } — expr without function literals
	exprBody ast.Expr
	// hoistable: the body can be expanded in place (no defer / recover / goto / own labels, not
	// variadic); any new function can still be turned into a function literal where it is used
	// as a value or in a go/defer statement
	hoistable bool
}

type freeRef struct {
	name string
	obj  types.Object
}

type inliner struct {
	pkg     *packages.Package
	fset    *token.FileSet
	cands   map[*types.Func]*candidate
	round   int
	n       int
	sites   int
	helpers map[string]bool
	left    map[string]bool
	// per file
	src   []byte
	tf    *token.File
	edits []edit
	encl  *types.Func
	// anyCandidate: calleeOf also resolves helpers that cannot be hoisted (for go/defer wrapping)
	anyCandidate bool
	// needImports: imports (name → path) the expansions made in the current file rely on
	needImports map[string]string
}

func (il *inliner) off(p token.Pos) int { return il.tf.Offset(p) }
func (il *inliner) text(n ast.Node) string {
	return string(il.src[il.off(n.Pos()):il.off(n.End())])
}

// inlinable reports whether fd's body can be expanded in place.
func literalisable(fd *ast.FuncDecl) bool {
	if fd.Body == nil || fd.Type.TypeParams != nil || fd.Name.Name == "init" || fd.Name.Name == "main" {
		return false
	}
	if fd.Recv != nil {
		for _, f := range fd.Recv.List {
			t := f.Type
			if s, ok := t.(*ast.StarExpr); ok {
				t = s.X
			}
			if _, ok := t.(*ast.Ident); !ok {
				return false // generic receiver
			}
		}
	}
	return true
}

func inlinable(fd *ast.FuncDecl) bool {
	if !literalisable(fd) {
		return false
	}
	if ps := fd.Type.Params.List; len(ps) > 0 {
		if _, ok := ps[len(ps)-1].Type.(*ast.Ellipsis); ok {
			return false
		}
	}
	ok := true
	top := map[*ast.DeferStmt]bool{}
	for _, s := range fd.Body.List {
		if d, isD := s.(*ast.DeferStmt); isD {
			top[d] = true
		}
	}
	ast.Inspect(fd.Body, func(n ast.Node) bool {
		switch x := n.(type) {
		case *ast.DeferStmt:
			// a plain call deferred by a top-level statement of the body can be run at the returns
			// that follow it (see expansion); anything else keeps the helper a call
			if _, isLit := x.Call.Fun.(*ast.FuncLit); isLit || !top[x] || x.Call.Ellipsis.IsValid() {
				ok = false
			}
		case *ast.LabeledStmt:
			// labels generated by an earlier round's expansion are renamed on every copy
			if !strings.HasPrefix(x.Label.Name, "_inl") {
				ok = false
			}
		case *ast.BranchStmt:
			if x.Tok == token.GOTO {
				ok = false
			}
		case *ast.CallExpr:
			if id, isId := x.Fun.(*ast.Ident); isId && id.Name == "recover" {
				ok = false
			}
		}
		return ok
	})
	return ok
}

// collectFree lists the identifiers of fd that refer to objects declared outside fd.
func collectFree(info *types.Info, fd *ast.FuncDecl) []freeRef {
	var out []freeRef
	seen := map[types.Object]bool{}
	var visit func(n ast.Node) bool
	visit = func(n ast.Node) bool {
		switch x := n.(type) {
		case *ast.SelectorExpr:
			ast.Inspect(x.X, visit)
			return false
		case *ast.KeyValueExpr:
			if id, ok := x.Key.(*ast.Ident); ok {
				if v, isVar := info.Uses[id].(*types.Var); isVar && v.IsField() {
					ast.Inspect(x.Value, visit)
					return false
				}
			}
		case *ast.Ident:
			obj := info.Uses[x]
			if obj == nil || seen[obj] {
				return true
			}
			if obj.Pos().IsValid() && obj.Pos() >= fd.Pos() && obj.Pos() <= fd.End() {
				return true
			}
			if v, isVar := obj.(*types.Var); isVar && v.IsField() {
				return true
			}
			seen[obj] = true
			out = append(out, freeRef{x.Name, obj})
		}
		return true
	}
	if fd.Recv != nil {
		ast.Inspect(fd.Recv, visit)
	}
	ast.Inspect(fd.Type, visit)
	ast.Inspect(fd.Body, visit)
	return out
}

// visibleAt: every free identifier of the candidate resolves to the same object at pos.
func (il *inliner) visibleAt(c *candidate, pos token.Pos) bool {
	sc := il.pkg.Types.Scope().Innermost(pos)
	if sc == nil {
		return false
	}
	for _, fr := range c.free {
		_, o := sc.LookupParent(fr.name, pos)
		if o == fr.obj {
			continue
		}
		// a package the helper's file imports and this file does not (the extraction moved the
		// only use of "unsafe" away, say): the expansion brings the import along
		if pn, isPkg := fr.obj.(*types.PkgName); isPkg && o == nil {
			if il.needImports == nil {
				il.needImports = map[string]string{}
			}
			il.needImports[fr.name] = pn.Imported().Path()
			continue
		}
		p1, ok1 := o.(*types.PkgName)
		p2, ok2 := fr.obj.(*types.PkgName)
		if ok1 && ok2 && p1.Imported().Path() == p2.Imported().Path() {
			continue
		}
		return false
	}
	return true
}

// isPureBuiltin: builtins whose evaluation has no effect and cannot be observed by a call.
var pureBuiltins = map[string]bool{"len": true, "cap": true, "min": true, "max": true, "real": true, "imag": true, "complex": true}

// firstCall walks e in evaluation order and returns the first call evaluated (nil if the
// first event is not a plain call, or if there is none).
func (il *inliner) firstCall(e ast.Expr) (call *ast.CallExpr, stop bool) {
	info := il.pkg.TypesInfo
	switch x := e.(type) {
	case nil:
		return nil, false
	case *ast.Ident, *ast.BasicLit, *ast.FuncLit:
		return nil, false
	case *ast.ParenExpr:
		return il.firstCall(x.X)
	case *ast.StarExpr:
		return il.firstCall(x.X)
	case *ast.SelectorExpr:
		return il.firstCall(x.X)
	case *ast.TypeAssertExpr:
		return il.firstCall(x.X)
	case *ast.UnaryExpr:
		if x.Op == token.ARROW {
			c, _ := il.firstCall(x.X)
			return c, true // a receive is an ordered event
		}
		return il.firstCall(x.X)
	case *ast.BinaryExpr:
		c, stop := il.firstCall(x.X)
		if c != nil || stop {
			return c, stop
		}
		if x.Op == token.LAND || x.Op == token.LOR {
			return nil, true // right operand is evaluated conditionally
		}
		return il.firstCall(x.Y)
	case *ast.IndexExpr:
		if c, stop := il.firstCall(x.X); c != nil || stop {
			return c, stop
		}
		return il.firstCall(x.Index)
	case *ast.SliceExpr:
		for _, s := range []ast.Expr{x.X, x.Low, x.High, x.Max} {
			if c, stop := il.firstCall(s); c != nil || stop {
				return c, stop
			}
		}
		return nil, false
	case *ast.KeyValueExpr:
		if c, stop := il.firstCall(x.Key); c != nil || stop {
			return c, stop
		}
		return il.firstCall(x.Value)
	case *ast.CompositeLit:
		for _, el := range x.Elts {
			if kv, ok := el.(*ast.KeyValueExpr); ok {
				if _, isId := kv.Key.(*ast.Ident); isId {
					el = kv.Value
				}
			}
			if c, stop := il.firstCall(el); c != nil || stop {
				return c, stop
			}
		}
		return nil, false
	case *ast.CallExpr:
		if tv, ok := info.Types[x.Fun]; ok && tv.IsType() {
			if len(x.Args) == 1 {
				return il.firstCall(x.Args[0]) // conversion
			}
			return nil, true
		}
		if id, ok := x.Fun.(*ast.Ident); ok {
			if _, isB := info.Uses[id].(*types.Builtin); isB {
				// the operands of a builtin are evaluated before it takes effect
				for _, a := range x.Args {
					if tv, ok := info.Types[a]; ok && tv.IsType() {
						continue // make([]T, n), new(T)
					}
					if c, stop := il.firstCall(a); c != nil || stop {
						return c, stop
					}
				}
				return nil, !pureBuiltins[id.Name]
			}
		}
		if _, _, isCand := il.calleeOf(x); isCand {
			return x, false // its operands are evaluated, in order, by the expansion itself
		}
		if c, stop := il.firstCall(x.Fun); c != nil || stop {
			return c, stop
		}
		for _, a := range x.Args {
			if c, stop := il.firstCall(a); c != nil || stop {
				return c, stop
			}
		}
		return x, false
	}
	return nil, true
}

// calleeOf resolves a call to a candidate, with the receiver expression text (if any).
func (il *inliner) calleeOf(call *ast.CallExpr) (*candidate, string, bool) {
	info := il.pkg.TypesInfo
	switch f := call.Fun.(type) {
	case *ast.Ident:
		fn, _ := info.Uses[f].(*types.Func)
		c := il.cands[fn]
		if c == nil || c.fd.Recv != nil || (!c.hoistable && !il.anyCandidate) {
			return nil, "", false
		}
		return c, "", true
	case *ast.SelectorExpr:
		sel := info.Selections[f]
		if sel == nil || sel.Kind() != types.MethodVal || len(sel.Index()) != 1 {
			return nil, "", false
		}
		fn, _ := sel.Obj().(*types.Func)
		c := il.cands[fn]
		if c == nil || c.fd.Recv == nil || (!c.hoistable && !il.anyCandidate) {
			return nil, "", false
		}
		want := fn.Type().(*types.Signature).Recv().Type()
		have := sel.Recv()
		x := il.text(f.X)
		switch {
		case types.Identical(have, want):
			return c, x, true
		case isPtrTo(want, have):
			return c, "&(" + x + ")", true
		case isPtrTo(have, want):
			return c, "*(" + x + ")", true
		}
	}
	return nil, "", false
}

func isPtrTo(p, t types.Type) bool {
	pt, ok := p.(*types.Pointer)
	return ok && types.Identical(pt.Elem(), t)
}

var inlNameRe = regexp.MustCompile(`\b_inl[0-9]+_[0-9]+(_[0-9]+x[0-9]+)*(_[ar][0-9]+)?`)

type inlField struct{ name, typ string }

func (c *candidate) text(n ast.Node) string {
	return string(c.src[c.tf.Offset(n.Pos()):c.tf.Offset(n.End())])
}

func (c *candidate) fields(fl *ast.FieldList) []inlField {
	var out []inlField
	if fl == nil {
		return nil
	}
	for _, f := range fl.List {
		t := c.text(f.Type)
		if len(f.Names) == 0 {
			out = append(out, inlField{"", t})
		}
		for _, n := range f.Names {
			out = append(out, inlField{n.Name, t})
		}
	}
	return out
}

// expansion builds the hoisted text for one call; results are the names holding the results.
func (il *inliner) expansion(call *ast.CallExpr, c *candidate, recv string) (string, []string, bool) {
	params := c.fields(c.fd.Type.Params)
	results := c.fields(c.fd.Type.Results)
	if len(call.Args) != len(params) || call.Ellipsis.IsValid() {
		return "", nil, false
	}
	il.n++
	p := fmt.Sprintf("_inl%d_%d", il.round, il.n)
	var b strings.Builder
	var rnames []string
	for i, r := range results {
		rn := fmt.Sprintf("%s_r%d", p, i)
		rnames = append(rnames, rn)
		fmt.Fprintf(&b, "var %s %s\n_ = %s\n", rn, r.typ, rn)
	}
	b.WriteString("{\n")
	type bind struct{ tmp, name string }
	var binds []bind
	k := 0
	if c.fd.Recv != nil {
		rf := c.fd.Recv.List[0]
		name := ""
		if len(rf.Names) > 0 {
			name = rf.Names[0].Name
		}
		tmp := fmt.Sprintf("%s_a%d", p, k)
		k++
		fmt.Fprintf(&b, "%s := %s\n_ = %s\n", tmp, recv, tmp) // the receiver expression has the receiver's type already (no type name: a local may shadow it)
		binds = append(binds, bind{tmp, name})
	}
	for i, pr := range params {
		tmp := fmt.Sprintf("%s_a%d", p, k)
		k++
		fmt.Fprintf(&b, "var %s %s = %s\n_ = %s\n", tmp, pr.typ, il.text(call.Args[i]), tmp)
		binds = append(binds, bind{tmp, pr.name})
	}
	// body with returns rewritten
	body := c.fd.Body
	var rets []*ast.ReturnStmt
	var find func(n ast.Node) bool
	find = func(n ast.Node) bool {
		switch x := n.(type) {
		case *ast.FuncLit:
			return false
		case *ast.ReturnStmt:
			rets = append(rets, x)
		}
		return true
	}
	ast.Inspect(body, find)
	var last ast.Stmt
	if len(body.List) > 0 {
		last = body.List[len(body.List)-1]
	}
	useLabel := false
	base := c.tf.Offset(body.Lbrace) + 1
	txt := string(c.src[base:c.tf.Offset(body.Rbrace)])
	// deferred plain calls (top-level statements of the body): run, last first, at every return
	// that follows them. Their operands must be names that are not assigned afterwards, so that
	// evaluating them at the return gives what the defer statement saw. (The one difference —
	// a panic inside the helper no longer runs them — concerns no rule: helpers that recover
	// are not expanded.)
	var defers []*ast.DeferStmt
	for _, st := range body.List {
		if d, isD := st.(*ast.DeferStmt); isD {
			defers = append(defers, d)
		}
	}
	if len(defers) > 0 {
		info := il.pkg.TypesInfo
		for _, d := range defers {
			stable := true
			used := map[types.Object]bool{}
			ast.Inspect(d.Call, func(n ast.Node) bool {
				switch x := n.(type) {
				case *ast.Ident:
					if o := info.Uses[x]; o != nil {
						if v, isVar := o.(*types.Var); isVar && !v.IsField() && v.Pkg() != nil && v.Parent() != v.Pkg().Scope() {
							used[o] = true
						}
					}
				case *ast.CallExpr:
					if x != d.Call {
						stable = false // an operand that is itself a call is evaluated at the defer statement
					}
				case *ast.FuncLit, *ast.UnaryExpr, *ast.IndexExpr, *ast.StarExpr:
					stable = false
				}
				return stable
			})
			ast.Inspect(body, func(n ast.Node) bool {
				if n == nil || n.End() <= d.End() {
					return true
				}
				switch x := n.(type) {
				case *ast.AssignStmt:
					for _, l := range x.Lhs {
						if id, isId := l.(*ast.Ident); isId && (used[info.Uses[id]] || used[info.Defs[id]]) && id.Pos() > d.End() {
							stable = false
						}
					}
				case *ast.IncDecStmt:
					if id, isId := x.X.(*ast.Ident); isId && used[info.Uses[id]] && id.Pos() > d.End() {
						stable = false
					}
				case *ast.UnaryExpr:
					if id, isId := x.X.(*ast.Ident); isId && x.Op == token.AND && used[info.Uses[id]] {
						stable = false
					}
				}
				return true
			})
			if !stable {
				return "", nil, false
			}
		}
	}
	deferredAt := func(pos token.Pos) string {
		var b strings.Builder
		for i := len(defers) - 1; i >= 0; i-- {
			if defers[i].End() <= pos {
				b.WriteString("; " + c.text(defers[i].Call))
			}
		}
		return b.String()
	}
	type bodyEdit struct {
		s, e int
		t    string
	}
	var bes []bodyEdit
	for _, d := range defers {
		bes = append(bes, bodyEdit{c.tf.Offset(d.Pos()) - base, c.tf.Offset(d.End()) - base, "_ = 0"})
	}
	sort.Slice(rets, func(i, j int) bool { return rets[i].Pos() > rets[j].Pos() })
	for _, rt := range rets {
		var rb strings.Builder
		rb.WriteString("{ ")
		if len(results) > 0 {
			var vals []string
			if len(rt.Results) == 0 {
				for _, r := range results {
					vals = append(vals, r.name)
				}
			} else {
				for _, e := range rt.Results {
					vals = append(vals, c.text(e))
				}
			}
			if len(vals) == len(rnames) && len(vals) > 1 {
				// one assignment per result (the result variables occur in no operand, so this is the
				// parallel assignment; single statements are what the second stage reads)
				for k := range vals {
					if k > 0 {
						rb.WriteString("; ")
					}
					fmt.Fprintf(&rb, "%s = %s", rnames[k], vals[k])
				}
			} else {
				fmt.Fprintf(&rb, "%s = %s", strings.Join(rnames, ", "), strings.Join(vals, ", "))
			}
		}
		if dc := deferredAt(rt.Pos()); dc != "" {
			if len(results) == 0 {
				dc = strings.TrimPrefix(dc, "; ")
			}
			rb.WriteString(dc)
		}
		if ast.Stmt(rt) != last {
			if len(results) > 0 || len(defers) > 0 {
				rb.WriteString("; ")
			}
			rb.WriteString("break " + p)
			useLabel = true
		}
		rb.WriteString(" }")
		bes = append(bes, bodyEdit{c.tf.Offset(rt.Pos()) - base, c.tf.Offset(rt.End()) - base, rb.String()})
	}
	sort.Slice(bes, func(i, j int) bool { return bes[i].s > bes[j].s })
	for _, be := range bes {
		txt = txt[:be.s] + be.t + txt[be.e:]
	}
	if _, endsInReturn := last.(*ast.ReturnStmt); !endsInReturn && len(defers) > 0 {
		// the body can run off its end (only possible without results): the deferred calls run there
		txt += "\n" + strings.TrimPrefix(deferredAt(body.Rbrace), "; ") + "\n"
	}
	// names generated by earlier expansions inside the copied body stay unique per copy
	txt = inlNameRe.ReplaceAllStringFunc(txt, func(name string) string {
		if name == p || strings.HasPrefix(name, p+"_r") || strings.HasPrefix(name, p+"_a") {
			return name // this expansion's own names
		}
		return name + "_" + fmt.Sprint(il.round) + "x" + fmt.Sprint(il.n)
	})
	if useLabel {
		fmt.Fprintf(&b, "%s:\nswitch {\ndefault:\n", p)
	}
	b.WriteString("{\n")
	var ln, rn []string
	for _, bd := range binds {
		if bd.name != "" && bd.name != "_" {
			ln = append(ln, bd.name)
			rn = append(rn, bd.tmp)
		}
	}
	if len(ln) > 0 {
		fmt.Fprintf(&b, "%s := %s\n%s = %s\n", strings.Join(ln, ", "), strings.Join(rn, ", "), strings.Repeat("_, ", len(ln)-1)+"_", strings.Join(ln, ", "))
	}
	for _, r := range results {
		if r.name != "" && r.name != "_" {
			fmt.Fprintf(&b, "var %s %s\n_ = %s\n", r.name, r.typ, r.name)
		}
	}
	b.WriteString(txt)
	b.WriteString("\n}\n")
	if useLabel {
		b.WriteString("}\n")
	}
	b.WriteString("}\n")
	return b.String(), rnames, true
}

// pure reports whether evaluating e has no effect and involves no call (conversions and the
// pure builtins are allowed), so that it may be evaluated later, earlier, twice or not at all.
func (il *inliner) pure(e ast.Expr) bool {
	info := il.pkg.TypesInfo
	ok := true
	ast.Inspect(e, func(n ast.Node) bool {
		switch x := n.(type) {
		case *ast.FuncLit:
			ok = false
		case *ast.UnaryExpr:
			if x.Op == token.ARROW {
				ok = false
			}
		case *ast.CallExpr:
			if tv, has := info.Types[x.Fun]; has && tv.IsType() {
				return true
			}
			if id, isId := x.Fun.(*ast.Ident); isId {
				if _, isB := info.Uses[id].(*types.Builtin); isB && pureBuiltins[id.Name] {
					return true
				}
			}
			ok = false
		}
		return ok
	})
	return ok
}

// substitute returns the text of a single-expression helper's result with the parameters
// replaced by the (pure) operands of call, each converted to the parameter's declared type.
func (il *inliner) substitute(call *ast.CallExpr, c *candidate, recv string) (string, bool) {
	if c.exprBody == nil || call.Ellipsis.IsValid() {
		return "", false
	}
	for _, a := range call.Args {
		if !il.pure(a) {
			return "", false
		}
	}
	if sel, ok := call.Fun.(*ast.SelectorExpr); ok && !il.pure(sel.X) {
		return "", false
	}
	info := il.pkg.TypesInfo
	repl := map[types.Object]string{}
	if c.fd.Recv != nil {
		rf := c.fd.Recv.List[0]
		if len(rf.Names) > 0 {
			repl[info.Defs[rf.Names[0]]] = "(" + c.text(rf.Type) + ")(" + recv + ")"
		}
	}
	i := 0
	for _, f := range c.fd.Type.Params.List {
		names := f.Names
		if len(names) == 0 {
			i++
			continue
		}
		for _, n := range names {
			if i >= len(call.Args) {
				return "", false
			}
			repl[info.Defs[n]] = "(" + c.text(f.Type) + ")(" + il.text(call.Args[i]) + ")"
			i++
		}
	}
	if i != len(call.Args) {
		return "", false
	}
	type sp struct {
		s, e int
		t    string
	}
	var sps []sp
	base := c.tf.Offset(c.exprBody.Pos())
	ast.Inspect(c.exprBody, func(n ast.Node) bool {
		if id, ok := n.(*ast.Ident); ok {
			if o := info.Uses[id]; o != nil {
				if t, has := repl[o]; has {
					sps = append(sps, sp{c.tf.Offset(id.Pos()) - base, c.tf.Offset(id.End()) - base, t})
				}
			}
		}
		return true
	})
	txt := c.text(c.exprBody)
	sort.Slice(sps, func(i, j int) bool { return sps[i].s > sps[j].s })
	for _, x := range sps {
		txt = txt[:x.s] + x.t + txt[x.e:]
	}
	return "(" + txt + ")", true
}

// substituteAll replaces, anywhere in body, the calls to single-expression helpers whose
// operands are pure. It reports whether it made an edit.
func (il *inliner) substituteAll(body *ast.BlockStmt) bool {
	did := false
	var visit func(n ast.Node) bool
	visit = func(n ast.Node) bool {
		call, ok := n.(*ast.CallExpr)
		if !ok {
			return true
		}
		c, recv, ok := il.calleeOf(call)
		if !ok || c.obj == il.encl || !il.visibleAt(c, call.Pos()) {
			return true
		}
		txt, ok := il.substitute(call, c, recv)
		if !ok {
			return true
		}
		il.edits = append(il.edits, edit{il.off(call.Pos()), il.off(call.End()), txt})
		il.sites++
		il.helpers[c.obj.FullName()] = true
		did = true
		return false
	}
	ast.Inspect(body, visit)
	return did
}

// tailSplice: a function (or function literal) whose whole body is `return h(args)` or `h(args)`
// for a new helper h is h with its parameters bound: h's body — defers, recovers and all — can
// take the place of the call, because everything in it still runs, and ends, with the
// enclosing function. (This is the one place a helper containing defer can be expanded.)
func (il *inliner) tailSplice(body *ast.BlockStmt) bool {
	if body == nil || len(body.List) != 1 {
		return false
	}
	var call *ast.CallExpr
	switch x := body.List[0].(type) {
	case *ast.ReturnStmt:
		if len(x.Results) == 1 {
			call, _ = x.Results[0].(*ast.CallExpr)
		}
	case *ast.ExprStmt:
		call, _ = x.X.(*ast.CallExpr)
	}
	if call == nil || call.Ellipsis.IsValid() {
		return false
	}
	il.anyCandidate = true
	c, recv, ok := il.calleeOf(call)
	il.anyCandidate = false
	if !ok || c.hoistable || c.obj == il.encl || !il.visibleAt(c, call.Pos()) {
		return false // (hoistable helpers go the ordinary way)
	}
	for _, r := range c.fields(c.fd.Type.Results) {
		if r.name != "" {
			return false
		}
	}
	params := c.fields(c.fd.Type.Params)
	if len(params) != len(call.Args) {
		return false
	}
	if ps := c.fd.Type.Params.List; len(ps) > 0 {
		if _, variadic := ps[len(ps)-1].Type.(*ast.Ellipsis); variadic {
			return false
		}
	}
	il.n++
	p := fmt.Sprintf("_inl%d_%d", il.round, il.n)
	var b strings.Builder
	b.WriteString("{\n")
	var ln, rn []string
	k := 0
	if c.fd.Recv != nil {
		rf := c.fd.Recv.List[0]
		tmp := fmt.Sprintf("%s_a%d", p, k)
		k++
		fmt.Fprintf(&b, "%s := %s\n_ = %s\n", tmp, recv, tmp) // the receiver expression has the receiver's type already (no type name: a local may shadow it)
		if len(rf.Names) > 0 && rf.Names[0].Name != "_" {
			ln, rn = append(ln, rf.Names[0].Name), append(rn, tmp)
		}
	}
	for i, pr := range params {
		tmp := fmt.Sprintf("%s_a%d", p, k)
		k++
		fmt.Fprintf(&b, "var %s %s = %s\n_ = %s\n", tmp, pr.typ, il.text(call.Args[i]), tmp)
		if pr.name != "" && pr.name != "_" {
			ln, rn = append(ln, pr.name), append(rn, tmp)
		}
	}
	b.WriteString("{\n")
	if len(ln) > 0 {
		fmt.Fprintf(&b, "%s := %s\n%s = %s\n", strings.Join(ln, ", "), strings.Join(rn, ", "), strings.Repeat("_, ", len(ln)-1)+"_", strings.Join(ln, ", "))
	}
	b.WriteString(string(c.src[c.tf.Offset(c.fd.Body.Lbrace)+1 : c.tf.Offset(c.fd.Body.Rbrace)]))
	b.WriteString("\n}\n}")
	st := body.List[0]
	il.edits = append(il.edits, edit{il.off(st.Pos()), il.off(st.End()), b.String()})
	il.sites++
	il.helpers[c.obj.FullName()] = true
	return true
}

// litText renders candidate c as a function literal: its own parameter list, results and body,
// with the receiver (if any) as an additional first parameter when asParam is set, or bound to
// recvExpr inside the body otherwise.
func (il *inliner) litText(c *candidate, recvAsParam bool, recvExpr string) string {
	var ps []string
	if c.fd.Recv != nil && recvAsParam {
		rf := c.fd.Recv.List[0]
		name := "_"
		if len(rf.Names) > 0 {
			name = rf.Names[0].Name
		}
		ps = append(ps, name+" "+c.text(rf.Type))
	}
	for _, f := range c.fd.Type.Params.List {
		var names []string
		for _, n := range f.Names {
			names = append(names, n.Name)
		}
		if len(names) == 0 {
			names = []string{"_"}
		}
		ps = append(ps, strings.Join(names, ", ")+" "+c.text(f.Type))
	}
	res := ""
	if c.fd.Type.Results != nil {
		res = " " + c.text(c.fd.Type.Results)
	}
	body := string(c.src[c.tf.Offset(c.fd.Body.Lbrace)+1 : c.tf.Offset(c.fd.Body.Rbrace)])
	pre := ""
	if c.fd.Recv != nil && !recvAsParam {
		rf := c.fd.Recv.List[0]
		if len(rf.Names) > 0 && rf.Names[0].Name != "_" {
			pre = "\nvar " + rf.Names[0].Name + " " + c.text(rf.Type) + " = " + recvExpr + "\n_ = " + rf.Names[0].Name + "\n"
		}
	}
	return "func(" + strings.Join(ps, ", ") + ")" + res + " {" + pre + body + "}"
}

// wrapCall rewrites `go h(args)` / `defer h(args)` for a new helper h into the call of a function
// literal with h's parameters and body (operands are still evaluated at the go/defer statement).
func (il *inliner) wrapCall(call *ast.CallExpr) bool {
	il.anyCandidate = true
	c, recv, ok := il.calleeOf(call)
	il.anyCandidate = false
	if !ok || c.obj == il.encl || !il.visibleAt(c, call.Pos()) || call.Ellipsis.IsValid() {
		return false
	}
	var args []string
	if c.fd.Recv != nil {
		args = append(args, recv)
	}
	for _, a := range call.Args {
		args = append(args, il.text(a))
	}
	il.edits = append(il.edits, edit{il.off(call.Pos()), il.off(call.End()), il.litText(c, true, "") + "(" + strings.Join(args, ", ") + ")"})
	il.sites++
	il.helpers[c.obj.FullName()] = true
	return true
}

// wrapDefer rewrites `defer h(args)` / `defer x.h(args)` for a new helper h into
//
//	a0 := x; var a1 T1 = arg1; …          (operands evaluated at the defer statement, as before)
//	defer func() { (func(recv, params) { body })(a0, a1, …) }()
//
// so that the receiver is bound to the parameter of a literal that is called on the spot (the
// form the second stage can turn back into local variables) instead of being passed through the
// deferred call itself.
func (il *inliner) wrapDefer(x *ast.DeferStmt, anchor, wrapEnd token.Pos) bool {
	if wrapEnd.IsValid() || !anchor.IsValid() {
		return false
	}
	call := x.Call
	il.anyCandidate = true
	c, recv, ok := il.calleeOf(call)
	il.anyCandidate = false
	if !ok || c.obj == il.encl || !il.visibleAt(c, call.Pos()) || call.Ellipsis.IsValid() {
		return false
	}
	params := c.fields(c.fd.Type.Params)
	if len(params) != len(call.Args) {
		return false
	}
	il.n++
	p := fmt.Sprintf("_inl%d_%d", il.round, il.n)
	var pre strings.Builder
	var args []string
	k := 0
	if c.fd.Recv != nil {
		tmp := fmt.Sprintf("%s_a%d", p, k)
		k++
		fmt.Fprintf(&pre, "%s := %s\n_ = %s\n", tmp, recv, tmp)
		args = append(args, tmp)
	}
	for i, pr := range params {
		tmp := fmt.Sprintf("%s_a%d", p, k)
		k++
		fmt.Fprintf(&pre, "var %s %s = %s\n_ = %s\n", tmp, pr.typ, il.text(call.Args[i]), tmp)
		args = append(args, tmp)
	}
	il.edits = append(il.edits, edit{il.off(anchor), il.off(anchor), pre.String()})
	il.edits = append(il.edits, edit{il.off(call.Pos()), il.off(call.End()), "func() { (" + il.litText(c, true, "") + ")(" + strings.Join(args, ", ") + ") }()"})
	il.sites++
	il.helpers[c.obj.FullName()] = true
	return true
}

// valueRefs replaces references to a new helper used as a VALUE (passed, stored, returned — not
// called) by a function literal with the helper's signature and body; for a method value the
// receiver operand must be a pure expression and is bound inside the literal.
func (il *inliner) valueRefs(body *ast.BlockStmt) bool {
	info := il.pkg.TypesInfo
	did := false
	callFuns := map[ast.Expr]bool{}
	ast.Inspect(body, func(n ast.Node) bool {
		if call, ok := n.(*ast.CallExpr); ok {
			f := call.Fun
			for {
				p, isParen := f.(*ast.ParenExpr)
				if !isParen {
					break
				}
				f = p.X
			}
			callFuns[f] = true
		}
		return true
	})
	ast.Inspect(body, func(n ast.Node) bool {
		switch x := n.(type) {
		case *ast.SelectorExpr:
			if callFuns[x] {
				return true
			}
			sel := info.Selections[x]
			if sel == nil || sel.Kind() != types.MethodVal || len(sel.Index()) != 1 {
				return true
			}
			fn, _ := sel.Obj().(*types.Func)
			c := il.cands[fn]
			if c == nil || c.fd.Recv == nil || c.obj == il.encl || !il.pure(x.X) || !il.visibleAt(c, x.Pos()) {
				return true
			}
			want := fn.Type().(*types.Signature).Recv().Type()
			have := sel.Recv()
			rx := il.text(x.X)
			switch {
			case types.Identical(have, want):
			case isPtrTo(want, have):
				rx = "&(" + rx + ")"
			case isPtrTo(have, want):
				rx = "*(" + rx + ")"
			default:
				return true
			}
			il.edits = append(il.edits, edit{il.off(x.Pos()), il.off(x.End()), "(" + il.litText(c, false, rx) + ")"})
			il.sites++
			il.helpers[fn.FullName()] = true
			did = true
			return false
		case *ast.Ident:
			if callFuns[x] {
				return true
			}
			fn, _ := info.Uses[x].(*types.Func)
			c := il.cands[fn]
			if c == nil || c.fd.Recv != nil || c.obj == il.encl || !il.visibleAt(c, x.Pos()) {
				return true
			}
			il.edits = append(il.edits, edit{il.off(x.Pos()), il.off(x.End()), "(" + il.litText(c, false, "") + ")"})
			il.sites++
			il.helpers[fn.FullName()] = true
			did = true
		}
		return true
	})
	return did
}

// tryHoist expands the first-evaluated candidate call among exprs (evaluated in that order)
// in front of statement s. It returns true if an edit was made.
func (il *inliner) tryHoist(s ast.Stmt, anchor token.Pos, wrapEnd token.Pos, exprs []ast.Expr, pre string) bool {
	var call *ast.CallExpr
	type bound struct {
		e   ast.Expr
		tmp string
	}
	var binds []bound
	// operands in evaluation order: a call of some other function (plain name or selector) stands
	// for its arguments followed by the call itself; only return values and right-hand sides are opened up
	whole := map[ast.Expr]bool{}
	if il.operandsOpen(s) {
		var flat []ast.Expr
		var open func(e ast.Expr, depth int)
		open = func(e ast.Expr, depth int) {
			if ce, isCall := unparen(e).(*ast.CallExpr); isCall && depth < 3 && !ce.Ellipsis.IsValid() {
				if _, _, isCand := il.calleeOf(ce); !isCand && il.plainFun(ce.Fun) && il.holdsCandidate(ce) {
					for _, a := range ce.Args {
						open(a, depth+1)
					}
					return
				}
			}
			whole[e] = true
			flat = append(flat, e)
		}
		for _, e := range exprs {
			if il.isRHS(s, e) {
				open(e, 0)
			} else {
				flat = append(flat, e)
			}
		}
		exprs = flat
	}
	for i, e := range exprs {
		c, stop := il.firstCall(e)
		if c != nil {
			if _, _, isCand := il.calleeOf(c); isCand || !whole[e] || !il.laterCandidate(exprs[i+1:]) {
				call = c
				break
			}
			stop = true // the first call evaluated is some other function's: as below
		}
		if stop {
			// an operand that has to be evaluated before the candidate call: when it is a whole result
			// of a return statement (or a whole right-hand side) and a later operand holds a candidate
			// call, it is evaluated into a temporary first — the order of evaluation stays as it was
			if !whole[e] || !il.laterCandidate(exprs[i+1:]) {
				return false
			}
			if tv, okT := il.pkg.TypesInfo.Types[e]; !okT || tv.Type == nil || tv.Value != nil {
				return false
			} else if _, isTuple := tv.Type.(*types.Tuple); isTuple {
				return false
			}
			il.n++
			binds = append(binds, bound{e, fmt.Sprintf("_inl%d_%d_a0", il.round, il.n)})
		}
	}
	if call == nil {
		return false
	}
	c, recv, ok := il.calleeOf(call)
	if !ok {
		return false
	}
	for _, b := range binds {
		pre += b.tmp + " := " + il.text(b.e) + "\n_ = " + b.tmp + "\n"
	}
	name := c.obj.FullName()
	if c.obj == il.encl || !il.visibleAt(c, call.Pos()) {
		il.left[name] = true
		return false
	}
	text, rnames, ok := il.expansion(call, c, recv)
	if !ok {
		il.left[name] = true
		return false
	}
	if es, isExpr := s.(*ast.ExprStmt); isExpr && es.X == ast.Expr(call) {
		// the whole statement is the call
		il.edits = append(il.edits, edit{il.off(s.Pos()), il.off(s.End()), pre + text})
	} else {
		if len(rnames) == 0 {
			il.left[name] = true
			return false
		}
		open, close := "", ""
		if wrapEnd.IsValid() {
			open, close = "{\n", "\n}"
		}
		il.edits = append(il.edits, edit{il.off(anchor), il.off(anchor), open + pre + text})
		il.edits = append(il.edits, edit{il.off(call.Pos()), il.off(call.End()), strings.Join(rnames, ", ")})
		if close != "" {
			il.edits = append(il.edits, edit{il.off(wrapEnd), il.off(wrapEnd), close})
		}
	}
	for _, b := range binds {
		il.edits = append(il.edits, edit{il.off(b.e.Pos()), il.off(b.e.End()), b.tmp})
	}
	il.sites++
	il.helpers[name] = true
	return true
}

// operandsOpen: s is a return statement, an assignment or an expression statement.
func (il *inliner) operandsOpen(s ast.Stmt) bool {
	switch s.(type) {
	case *ast.ReturnStmt, *ast.AssignStmt, *ast.ExprStmt:
		return true
	}
	return false
}

// isRHS: e is a result of return statement s, a right-hand side of assignment s, or the
// expression of expression statement s.
func (il *inliner) isRHS(s ast.Stmt, e ast.Expr) bool {
	switch x := s.(type) {
	case *ast.ReturnStmt:
		for _, r := range x.Results {
			if r == e {
				return true
			}
		}
	case *ast.AssignStmt:
		for _, r := range x.Rhs {
			if r == e {
				return true
			}
		}
	case *ast.ExprStmt:
		return x.X == e
	}
	return false
}

func unparen(e ast.Expr) ast.Expr {
	for {
		p, ok := e.(*ast.ParenExpr)
		if !ok {
			return e
		}
		e = p.X
	}
}

// plainFun: the function operand of a call is a name or a selector chain of names (nothing is
// evaluated to find the function), and it is not a type (a conversion).
func (il *inliner) plainFun(f ast.Expr) bool {
	if tv, ok := il.pkg.TypesInfo.Types[f]; ok && tv.IsType() {
		return false
	}
	switch x := f.(type) {
	case *ast.Ident:
		return true
	case *ast.SelectorExpr:
		for {
			switch y := x.X.(type) {
			case *ast.Ident:
				return true
			case *ast.SelectorExpr:
				x = y
				continue
			}
			return false
		}
	}
	return false
}

// holdsCandidate: some argument of ce (at any depth) is or contains a call of a new helper.
func (il *inliner) holdsCandidate(ce *ast.CallExpr) bool {
	found := false
	for _, a := range ce.Args {
		ast.Inspect(a, func(n ast.Node) bool {
			if c, ok := n.(*ast.CallExpr); ok {
				if _, _, isCand := il.calleeOf(c); isCand {
					found = true
				}
			}
			if _, isLit := n.(*ast.FuncLit); isLit {
				return false
			}
			return !found
		})
	}
	return found
}

// laterCandidate: one of exprs holds (as its first-evaluated call) a call of a new helper.
func (il *inliner) laterCandidate(exprs []ast.Expr) bool {
	for _, e := range exprs {
		if c, _ := il.firstCall(e); c != nil {
			if _, _, ok := il.calleeOf(c); ok {
				return true
			}
		}
	}
	return false
}

// stmts processes one statement list.
func (il *inliner) stmts(list []ast.Stmt) {
	for _, s := range list {
		il.stmt(s, s.Pos(), token.NoPos)
	}
}

// stmt handles s; anchor is where hoisted statements go (before the label of a labelled
// statement); wrapEnd is set when s is an else-if and must be wrapped in a block.
func (il *inliner) stmt(s ast.Stmt, anchor token.Pos, wrapEnd token.Pos) {
	hoisted := false
	switch x := s.(type) {
	case *ast.LabeledStmt:
		il.stmt(x.Stmt, anchor, wrapEnd)
		return
	case *ast.ExprStmt:
		hoisted = il.tryHoist(s, anchor, wrapEnd, []ast.Expr{x.X}, "")
	case *ast.AssignStmt:
		hoisted = il.tryHoist(s, anchor, wrapEnd, append(append([]ast.Expr{}, x.Lhs...), x.Rhs...), "")
	case *ast.ReturnStmt:
		hoisted = il.tryHoist(s, anchor, wrapEnd, x.Results, "")
	case *ast.IncDecStmt:
		hoisted = il.tryHoist(s, anchor, wrapEnd, []ast.Expr{x.X}, "")
	case *ast.SendStmt:
		hoisted = il.tryHoist(s, anchor, wrapEnd, []ast.Expr{x.Chan, x.Value}, "")
	case *ast.DeclStmt:
		if gd, ok := x.Decl.(*ast.GenDecl); ok && gd.Tok == token.VAR && len(gd.Specs) == 1 {
			if vs, ok := gd.Specs[0].(*ast.ValueSpec); ok {
				hoisted = il.tryHoist(s, anchor, wrapEnd, vs.Values, "")
			}
		}
	case *ast.IfStmt:
		hoisted = il.headed(s, anchor, wrapEnd, x.Init, x.Cond, x.If)
		il.stmts(x.Body.List)
		switch e := x.Else.(type) {
		case *ast.BlockStmt:
			il.stmts(e.List)
		case *ast.IfStmt:
			il.stmt(e, e.Pos(), e.End())
		}
		return
	case *ast.SwitchStmt:
		hoisted = il.headed(s, anchor, wrapEnd, x.Init, x.Tag, x.Switch)
		for _, cc := range x.Body.List {
			il.stmts(cc.(*ast.CaseClause).Body)
		}
		return
	case *ast.TypeSwitchStmt:
		for _, cc := range x.Body.List {
			il.stmts(cc.(*ast.CaseClause).Body)
		}
		return
	case *ast.SelectStmt:
		for _, cc := range x.Body.List {
			il.stmts(cc.(*ast.CommClause).Body)
		}
		return
	case *ast.RangeStmt:
		hoisted = il.tryHoist(s, anchor, wrapEnd, []ast.Expr{x.X}, "")
		il.stmts(x.Body.List)
		return
	case *ast.ForStmt:
		if x.Init == nil && x.Post == nil && x.Cond != nil {
			// for cond { … }  →  for { hoist; if !(cond') { break }; … }
			if c, _ := il.firstCall(x.Cond); c != nil {
				if cand, recv, ok := il.calleeOf(c); ok && cand.obj != il.encl && il.visibleAt(cand, c.Pos()) {
					if text, rn, ok := il.expansion(c, cand, recv); ok && len(rn) == 1 {
						cond := il.text(x.Cond)
						cs, ce := il.off(c.Pos())-il.off(x.Cond.Pos()), il.off(c.End())-il.off(x.Cond.Pos())
						cond = cond[:cs] + rn[0] + cond[ce:]
						il.edits = append(il.edits, edit{il.off(x.Cond.Pos()), il.off(x.Cond.End()), ""})
						il.edits = append(il.edits, edit{il.off(x.Body.Lbrace) + 1, il.off(x.Body.Lbrace) + 1, "\n" + text + "if !(" + cond + ") {\nbreak\n}\n"})
						il.sites++
						il.helpers[cand.obj.FullName()] = true
					}
				}
			}
		}
		il.stmts(x.Body.List)
		return
	case *ast.BlockStmt:
		il.stmts(x.List)
		return
	case *ast.GoStmt:
		if !il.wrapCall(x.Call) {
			il.funcLits(s)
		}
		return
	case *ast.DeferStmt:
		if !il.wrapDefer(x, anchor, wrapEnd) && !il.wrapCall(x.Call) {
			il.funcLits(s)
		}
		return
	}
	if !hoisted {
		il.funcLits(s)
	}
}

// headed handles if/switch headers: init; expr.
func (il *inliner) headed(s ast.Stmt, anchor, wrapEnd token.Pos, init ast.Stmt, expr ast.Expr, kw token.Pos) bool {
	if init != nil {
		// the call may only be hoisted out of the init statement itself
		var exprs []ast.Expr
		switch i := init.(type) {
		case *ast.AssignStmt:
			exprs = append(append(exprs, i.Lhs...), i.Rhs...)
		case *ast.ExprStmt:
			exprs = []ast.Expr{i.X}
		default:
			return false
		}
		// wrap in a block so that hoisted names stay local: { hoist; if init'; cond {…} }
		we := wrapEnd
		if !we.IsValid() {
			we = s.End()
		}
		if il.tryHoist(s, anchor, we, exprs, "") {
			return true
		}
		// call in the condition while an init exists: move the init in front
		if expr == nil {
			return false
		}
		if c, _ := il.firstCall(expr); c != nil {
			if _, _, ok := il.calleeOf(c); ok {
				initText := il.text(init)
				semi := il.off(init.End())
				for semi < len(il.src) && il.src[semi] != ';' {
					semi++
				}
				if il.tryHoist(s, anchor, we, []ast.Expr{expr}, initText+"\n") {
					il.edits = append(il.edits, edit{il.off(init.Pos()), semi + 1, ""})
					return true
				}
			}
		}
		return false
	}
	if expr == nil {
		return false
	}
	if il.tryHoist(s, anchor, wrapEnd, []ast.Expr{expr}, "") {
		return true
	}
	if _, isIf := s.(*ast.IfStmt); isIf {
		return il.shortCircuit(s, anchor, wrapEnd, expr)
	}
	return false
}

// shortCircuit handles `if L && R {…}` / `if L || R {…}` where the first call R evaluates is a
// new helper that cannot be substituted as an expression. The condition is lowered the way the
// language defines it:
//
//	c := L
//	if c  { hoist; c = R' }      // for &&   (if !c for ||)
//	if c  {…}
//
// so the helper is still evaluated only when L does not decide the condition.
func (il *inliner) shortCircuit(s ast.Stmt, anchor, wrapEnd token.Pos, cond ast.Expr) bool {
	e := cond
	for {
		p, ok := e.(*ast.ParenExpr)
		if !ok {
			break
		}
		e = p.X
	}
	be, ok := e.(*ast.BinaryExpr)
	if !ok || (be.Op != token.LAND && be.Op != token.LOR) {
		return false
	}
	call, _ := il.firstCall(be.Y)
	if call == nil {
		return false
	}
	c, recv, ok := il.calleeOf(call)
	if !ok || c.obj == il.encl || !il.visibleAt(c, call.Pos()) {
		return false
	}
	text, rnames, ok := il.expansion(call, c, recv)
	if !ok || len(rnames) == 0 {
		return false
	}
	cv := fmt.Sprintf("_inl%d_%d_c", il.round, il.n)
	rtxt := il.text(be.Y)
	cs, ce := il.off(call.Pos())-il.off(be.Y.Pos()), il.off(call.End())-il.off(be.Y.Pos())
	rtxt = rtxt[:cs] + strings.Join(rnames, ", ") + rtxt[ce:]
	guard := cv
	if be.Op == token.LOR {
		guard = "!" + cv
	}
	// an if statement at this point always gets its own block (the condition variable stays local)
	we := wrapEnd
	if !we.IsValid() {
		we = s.End()
	}
	pre := "{\n" + cv + " := " + il.text(be.X) + "\nif " + guard + " {\n" + text + cv + " = " + rtxt + "\n}\n"
	il.edits = append(il.edits, edit{il.off(anchor), il.off(anchor), pre})
	il.edits = append(il.edits, edit{il.off(cond.Pos()), il.off(cond.End()), cv})
	il.edits = append(il.edits, edit{il.off(we), il.off(we), "\n}"})
	il.sites++
	il.helpers[c.obj.FullName()] = true
	return true
}

// funcLits descends into the bodies of function literals in the header expressions of s.
func (il *inliner) funcLits(s ast.Node) {
	ast.Inspect(s, func(n ast.Node) bool {
		if fl, ok := n.(*ast.FuncLit); ok {
			if !il.tailSplice(fl.Body) {
				il.stmts(fl.Body.List)
			}
			return false
		}
		return true
	})
}

func applyEdits(src []byte, edits []edit) ([]byte, bool) {
	sort.SliceStable(edits, func(i, j int) bool {
		if edits[i].start != edits[j].start {
			return edits[i].start < edits[j].start
		}
		return edits[i].end < edits[j].end
	})
	var out []byte
	pos := 0
	for _, e := range edits {
		if e.start < pos {
			return nil, false // overlapping edits
		}
		out = append(out, src[pos:e.start]...)
		out = append(out, e.text...)
		pos = e.end
	}
	out = append(out, src[pos:]...)
	return out, true
}

// inlineRound computes one round of expansion for the loaded packages of the module in dir.
func inlineRound(pkgs []*packages.Package, dir string, round int, overlay map[string][]byte, st *inlineStats) (changed bool) {
	helpers, left := map[string]bool{}, map[string]bool{}
	for _, p := range pkgs {
		if len(p.Syntax) == 0 || p.Types == nil || len(p.CompiledGoFiles) != len(p.Syntax) {
			continue
		}
		srcOf := func(name string) []byte {
			if b, ok := overlay[name]; ok {
				return b
			}
			b, _ := os.ReadFile(name)
			return b
		}
		il := &inliner{pkg: p, fset: p.Fset, cands: map[*types.Func]*candidate{}, round: round, helpers: helpers, left: left}
		for i, f := range p.Syntax {
			name := p.CompiledGoFiles[i]
			if !strings.HasPrefix(name, dir+string(filepath.Separator)) || !strings.HasSuffix(name, ".go") {
				continue
			}
			for _, d := range f.Decls {
				fd, ok := d.(*ast.FuncDecl)
				if !ok || baselineFuncs[funcKey(p.PkgPath, fd)] || !literalisable(fd) {
					continue
				}
				obj, _ := p.TypesInfo.Defs[fd.Name].(*types.Func)
				if obj == nil {
					continue
				}
				c := &candidate{fd: fd, obj: obj, file: f, src: srcOf(name), tf: p.Fset.File(f.Pos()), hoistable: inlinable(fd)}
				c.free = collectFree(p.TypesInfo, fd)
				if len(fd.Body.List) == 1 && fd.Type.Results != nil && len(c.fields(fd.Type.Results)) == 1 {
					if rt, ok := fd.Body.List[0].(*ast.ReturnStmt); ok && len(rt.Results) == 1 {
						hasLit := false
						ast.Inspect(rt.Results[0], func(n ast.Node) bool {
							if _, ok := n.(*ast.FuncLit); ok {
								hasLit = true
							}
							return !hasLit
						})
						if !hasLit {
							c.exprBody = rt.Results[0]
						}
					}
				}
				il.cands[obj] = c
			}
		}
		if len(il.cands) == 0 {
			continue
		}
		refs := map[*types.Func]int{}
		for _, o := range p.TypesInfo.Uses {
			if fn, ok := o.(*types.Func); ok && il.cands[fn] != nil {
				refs[fn]++
			}
		}
		for i, f := range p.Syntax {
			name := p.CompiledGoFiles[i]
			if !strings.HasPrefix(name, dir+string(filepath.Separator)) {
				continue
			}
			il.src, il.tf, il.edits = srcOf(name), p.Fset.File(f.Pos()), nil
			for _, d := range f.Decls {
				fd, ok := d.(*ast.FuncDecl)
				if !ok || fd.Body == nil {
					continue
				}
				obj, _ := p.TypesInfo.Defs[fd.Name].(*types.Func)
				if os.Getenv("VERIF_INLINE_DEBUG") == "3" && il.cands[obj] != nil {
					fmt.Printf("round %d: candidate %s refs=%d\n", round, obj.FullName(), refs[obj])
				}
				if c := il.cands[obj]; c != nil && refs[obj] == 0 && !fd.Name.IsExported() {
					// a new helper nobody calls any more: drop it
					start := fd.Pos()
					if fd.Doc != nil {
						start = fd.Doc.Pos()
					}
					il.edits = append(il.edits, edit{il.off(start), il.off(fd.End()), ""})
					continue
				}
				il.encl = obj
				if !il.substituteAll(fd.Body) && !il.valueRefs(fd.Body) && !il.tailSplice(fd.Body) {
					il.stmts(fd.Body.List)
				}
			}
			if len(il.edits) == 0 {
				il.needImports = nil
				continue
			}
			if len(il.needImports) > 0 {
				var names []string
				for n := range il.needImports {
					names = append(names, n)
				}
				sort.Strings(names)
				imp := ""
				for _, n := range names {
					imp += fmt.Sprintf("; import %s %q", n, il.needImports[n])
				}
				// right after the package clause, on the same line (positions below stay as they are)
				il.edits = append(il.edits, edit{il.off(f.Name.End()), il.off(f.Name.End()), imp})
				il.needImports = nil
			}
			// keep the positions of the following declarations aligned with the file on disk
			for _, d := range f.Decls {
				drop := false
				for _, e := range il.edits {
					if e.start <= il.off(d.Pos()) && il.off(d.End()) <= e.end && e.text == "" {
						drop = true
					}
				}
				if drop {
					continue
				}
				pos := p.Fset.Position(d.Pos())
				if pos.Column == 1 {
					il.edits = append(il.edits, edit{il.off(d.Pos()), il.off(d.Pos()), fmt.Sprintf("//line %s:%d\n", pos.Filename, pos.Line)})
				}
			}
			out, ok := applyEdits(il.src, il.edits)
			if !ok {
				st.Note += "overlapping edits in " + filepath.Base(name) + "; "
				continue
			}
			overlay[name] = out
			changed = true
		}
		st.Sites += il.sites
	}
	for h := range helpers {
		st.Helpers = append(st.Helpers, h)
	}
	for h := range left {
		if !helpers[h] {
			st.Left = append(st.Left, h)
		}
	}
	sort.Strings(st.Helpers)
	sort.Strings(st.Left)
	return changed
}

// dumpFuncs prints the function keys of every non-test Go file under repo (all build tags):
// the reference list behind baseline_funcs.txt.
func dumpFuncs(repo string) {
	var keys []string
	filepath.Walk(repo, func(path string, fi os.FileInfo, err error) error {
		if err != nil {
			return nil
		}
		if fi.IsDir() {
			if n := fi.Name(); path != repo && (strings.HasPrefix(n, ".") || n == "testdata" || strings.HasPrefix(n, "_")) {
				return filepath.SkipDir
			}
			return nil
		}
		if !strings.HasSuffix(path, ".go") || strings.HasSuffix(path, "_test.go") {
			return nil
		}
		fset := token.NewFileSet()
		f, err := parser.ParseFile(fset, path, nil, parser.SkipObjectResolution)
		if err != nil {
			return nil
		}
		rel, _ := filepath.Rel(repo, filepath.Dir(path))
		pkg := modPath
		if rel != "." {
			pkg += "/" + filepath.ToSlash(rel)
		}
		keys = append(keys, declLines(fset, pkg, f)...)
		for _, d := range f.Decls {
			if gd, ok := d.(*ast.GenDecl); ok && gd.Tok == token.TYPE {
				for _, sp := range gd.Specs {
					if ts, ok := sp.(*ast.TypeSpec); ok {
						keys = append(keys, "type:"+pkg+"."+ts.Name.Name)
					}
				}
			}
			if fd, ok := d.(*ast.FuncDecl); ok {
				var ps []string
				add := func(fl *ast.FieldList) {
					if fl == nil {
						return
					}
					for _, fld := range fl.List {
						var tb strings.Builder
						printer.Fprint(&tb, fset, fld.Type)
						if len(fld.Names) == 0 {
							ps = append(ps, "_ "+tb.String())
						}
						for _, n := range fld.Names {
							ps = append(ps, n.Name+" "+tb.String())
						}
					}
				}
				add(fd.Recv)
				add(fd.Type.Params)
				keys = append(keys, funcKey(pkg, fd)+"\t"+strings.Join(ps, "|")+"\t"+bodyPrint(fset, fd.Body))
				// function literals, numbered like go/ssa's anonymous functions (f$1, f$1$2, …)
				var lits func(n ast.Node, prefix string)
				lits = func(n ast.Node, prefix string) {
					k := 0
					ast.Inspect(n, func(m ast.Node) bool {
						fl, ok := m.(*ast.FuncLit)
						if !ok || m == n {
							return true
						}
						k++
						name := fmt.Sprintf("%s$%d", prefix, k)
						ps = nil
						add(fl.Type.Params)
						keys = append(keys, name+"\t"+strings.Join(ps, "|"))
						lits(fl, name)
						return false
					})
				}
				if fd.Body != nil {
					lits(fd.Body, funcKey(pkg, fd))
				}
			}
		}
		return nil
	})
	sort.Strings(keys)
	prev := ""
	for _, k := range keys {
		if k != prev {
			fmt.Println(k)
		}
		prev = k
	}
}

// unshadowRound: a local variable (or parameter) that carries the name of a NEW package-level
// type of its package ("consent := u.readConsent()" next to "type consent struct{…}") hides the
// type name exactly where the expansion of that type's methods has to write it. Such locals are
// renamed (name + "_v", every occurrence) before the first round; renaming a local changes nothing.
func unshadowRound(pkgs []*packages.Package, dir string, overlay map[string][]byte) (changed bool, notes []string) {
	for _, p := range pkgs {
		if len(p.Syntax) == 0 || p.Types == nil || p.TypesInfo == nil || len(p.CompiledGoFiles) != len(p.Syntax) {
			continue
		}
		newTypes := map[string]bool{}
		for _, n := range p.Types.Scope().Names() {
			if tn, ok := p.Types.Scope().Lookup(n).(*types.TypeName); ok && !baselineFuncs["type:"+p.PkgPath+"."+n] {
				_ = tn
				newTypes[n] = true
			}
		}
		if len(newTypes) == 0 {
			continue
		}
		for i, f := range p.Syntax {
			name := p.CompiledGoFiles[i]
			if !strings.HasPrefix(name, dir+string(filepath.Separator)) || !strings.HasSuffix(name, ".go") {
				continue
			}
			tf := p.Fset.File(f.Pos())
			var edits []edit
			renamed := map[types.Object]bool{}
			ast.Inspect(f, func(n ast.Node) bool {
				id, ok := n.(*ast.Ident)
				if !ok || !newTypes[id.Name] {
					return true
				}
				obj := p.TypesInfo.Defs[id]
				if obj == nil {
					obj = p.TypesInfo.Uses[id]
				}
				v, isVar := obj.(*types.Var)
				if !isVar || v.IsField() || v.Parent() == nil || v.Parent() == p.Types.Scope() || v.Pkg() != p.Types {
					return true
				}
				// the new name must be free in the package and the universe (locals are checked by the type check that follows)
				if p.Types.Scope().Lookup(id.Name+"_v") != nil {
					return true
				}
				edits = append(edits, edit{tf.Offset(id.Pos()), tf.Offset(id.End()), id.Name + "_v"})
				renamed[obj] = true
				return true
			})
			if len(edits) == 0 {
				continue
			}
			src, ok := overlay[name]
			if !ok {
				src, _ = os.ReadFile(name)
			}
			out, ok := applyEdits(src, edits)
			if !ok {
				continue
			}
			overlay[name] = out
			changed = true
			for o := range renamed {
				notes = append(notes, o.Name()+" in "+filepath.Base(name))
			}
		}
	}
	sort.Strings(notes)
	return changed, notes
}
