package main

// Shared site extraction: the three places that decide approval (uploader,
// server, viewer) and helpers to canonicalise the approval predicates used there.

import (
	"go/token"
	"go/types"
	"sort"
	"strings"

	"golang.org/x/tools/go/ssa"
)

const cfgRecv = "(*internal/config.Config)."

// approvalMethods lists the exported bool predicates of config.Config ("Has*").
func approvalMethods(m *Module) []string {
	var pkg *types.Package
	if m.Name == "root" {
		pkg = m.Pkg("internal/config").Pkg
	} else {
		for _, p := range m.Prog.AllPackages() {
			if p.Pkg.Path() == modPath+"/internal/config" {
				pkg = p.Pkg
			}
		}
	}
	if pkg == nil {
		infra("UNRESOLVED anchor package internal/config")
	}
	tn, _ := pkg.Scope().Lookup("Config").(*types.TypeName)
	if tn == nil {
		infra("UNRESOLVED anchor type config.Config")
	}
	var out []string
	ms := types.NewMethodSet(types.NewPointer(tn.Type()))
	for i := 0; i < ms.Len(); i++ {
		f, ok := ms.At(i).Obj().(*types.Func)
		if !ok || f.Pkg() != pkg || !f.Exported() {
			continue
		}
		sig := f.Type().(*types.Signature)
		if sig.Results().Len() == 1 && types.Identical(sig.Results().At(0).Type(), types.Typ[types.Bool]) {
			out = append(out, f.Name())
		}
	}
	sort.Strings(out)
	return out
}

// An approvalCall is a call cfg.HasX(args) with canonical argument roles.
type approvalCall struct {
	Call   *ssa.Call
	Method string   // HasGOOS
	Roles  []string // e.g. ["Program","Version"]
	Bases  []ssa.Value
}

func (a approvalCall) Sig() string { return a.Method + "(" + strings.Join(a.Roles, ",") + ")" }

// argRole canonicalises an argument of an approval predicate:
//
//	x.F (field load)              -> "F"           base x
//	m["K"] (const-key map lookup) -> "K"           base m
//	range key of a map            -> "key"         base the ranged map
//	strings.Cut(key,"\n")#0       -> "cutnl(key)"
//	s[:strings.Index(s,"\n")]     -> "cutnl(key)"
func argRole(v ssa.Value) (role string, base ssa.Value) {
	v = strip(v)
	if b, f, ok := fieldLoad(v); ok {
		return f, b
	}
	if m, k, ok := mapLookup(v); ok {
		if ks, isC := constOf(k); isC {
			return ks, m
		}
	}
	if e, ok := v.(*ssa.Extract); ok {
		if nx, ok := e.Tuple.(*ssa.Next); ok && e.Index == 1 {
			if rg, ok := nx.Iter.(*ssa.Range); ok {
				return "key", rg.X
			}
		}
		if c, ok := e.Tuple.(*ssa.Call); ok && e.Index == 0 && calleeName(&c.Call) == "strings.Cut" {
			if sep, isC := constOf(argsOf(c)[1]); isC && sep == "\n" {
				r, b := argRole(argsOf(c)[0])
				return "cutnl(" + r + ")", b
			}
		}
	}
	if s, ok := v.(*ssa.Slice); ok && s.Low == nil && s.High != nil {
		if c, ok := strip(s.High).(*ssa.Call); ok && (calleeName(&c.Call) == "strings.Index" || calleeName(&c.Call) == "strings.IndexByte") {
			if sep, isC := constOf(argsOf(c)[1]); isC && (sep == "\n" || sep == "10") && argsOf(c)[0] == s.X {
				r, b := argRole(s.X)
				return "cutnl(" + r + ")", b
			}
		}
	}
	// prefix := s; if i := strings.IndexByte(s, '\n'); i >= 0 { prefix = s[:i] } — the merge of s
	// (no newline found) and s[:i] (found at i) is what strings.Cut(s, "\n") gives first
	if phi, ok := v.(*ssa.Phi); ok && len(phi.Edges) == 2 {
		for k := 0; k < 2; k++ {
			sl, isSl := strip(phi.Edges[k]).(*ssa.Slice)
			if !isSl || sl.Low != nil || sl.High == nil || strip(phi.Edges[1-k]) != strip(sl.X) {
				continue
			}
			idx, isCall := strip(sl.High).(*ssa.Call)
			if !isCall || (calleeName(&idx.Call) != "strings.Index" && calleeName(&idx.Call) != "strings.IndexByte") || strip(argsOf(idx)[0]) != strip(sl.X) {
				continue
			}
			if sep, isC := sepConstOf(argsOf(idx)[1]); !isC || sep != "\n" {
				continue
			}
			found := func(fs []Fact) (bool, bool) { // (decided, idx >= 0)
				for _, f := range fs {
					bo, ok := f.Cond.(*ssa.BinOp)
					if !ok || strip(bo.X) != ssa.Value(idx) {
						continue
					}
					kk, isC := intConst(bo.Y)
					if !isC {
						continue
					}
					switch {
					case bo.Op == token.GEQ && kk == 0, bo.Op == token.GTR && kk == -1, bo.Op == token.NEQ && kk == -1:
						return true, f.Pol
					case bo.Op == token.LSS && kk == 0, bo.Op == token.LEQ && kk == -1, bo.Op == token.EQL && kk == -1:
						return true, !f.Pol
					}
				}
				return false, false
			}
			d1, f1 := found(edgeFactsOf(phi, k))
			d2, f2 := found(edgeFactsOf(phi, 1-k))
			if d1 && f1 && (!d2 || !f2) {
				r, b := argRole(sl.X)
				return "cutnl(" + r + ")", b
			}
		}
	}
	return describe(v), nil
}

// approvalCallsIn lists cfg.Has*(…) calls in fn (and closures).
func approvalCallsIn(fn *ssa.Function) []approvalCall {
	var out []approvalCall
	for _, f := range WithClosures(fn) {
		for _, ci := range callsIn(f) {
			call, ok := ci.(*ssa.Call)
			if !ok {
				continue
			}
			n := calleeName(&call.Call)
			if !strings.HasPrefix(n, cfgRecv) {
				continue
			}
			meth := strings.TrimPrefix(n, cfgRecv)
			if !strings.HasPrefix(meth, "Has") {
				continue
			}
			ac := approvalCall{Call: call, Method: meth}
			for _, a := range callArgs(&call.Call) {
				r, b := argRole(a)
				ac.Roles = append(ac.Roles, r)
				ac.Bases = append(ac.Bases, b)
			}
			out = append(out, ac)
		}
	}
	return out
}

// approvalFacts extracts, from the facts at an instruction, the approval
// predicates known to be TRUE there.
func approvalFacts(in ssa.Instruction) []approvalCall {
	var out []approvalCall
	for _, f := range factsAt(in) {
		call, ok := strip(f.Cond).(*ssa.Call)
		if !ok || !f.Pol {
			continue
		}
		n := calleeName(&call.Call)
		if !strings.HasPrefix(n, cfgRecv+"Has") {
			continue
		}
		ac := approvalCall{Call: call, Method: strings.TrimPrefix(n, cfgRecv)}
		for _, a := range callArgs(&call.Call) {
			r, b := argRole(a)
			ac.Roles = append(ac.Roles, r)
			ac.Bases = append(ac.Bases, b)
		}
		out = append(out, ac)
	}
	return out
}

// programLevel is the reference set for a program build (derived from the
// identity fields of telemetry.ProgramReport; C07.identity checks that set).
var programLevel = []string{
	"HasGOARCH(GOARCH)", "HasGOOS(GOOS)", "HasGoVersion(GoVersion)", "HasProgram(Program)", "HasVersion(Program,Version)",
}

// ---- uploader site ---------------------------------------------------------

type uploadSite struct {
	fn        *ssa.Function
	upload    ssa.Value  // the upload report under construction: a composite literal here, or the result of a helper that builds one
	progStore *ssa.Store // upload.Programs = append(upload.Programs, x)
	x         ssa.Value  // the new ProgramReport appended
	ctrUpd    []*ssa.MapUpdate
	stackUpd  []*ssa.MapUpdate
	otherUpd  []ssa.Instruction // any other store into x or upload (besides header/identity fields)
}

func namedType(t types.Type) string {
	if p, ok := t.(*types.Pointer); ok {
		t = p.Elem()
	}
	if n, ok := t.(*types.Named); ok && n.Obj().Pkg() != nil {
		return short(n.Obj().Pkg().Path() + "." + refTypeNameOf(n))
	}
	return t.String()
}

// appendedElems returns the elements e of v = append(s, e...) when written with
// explicit elements.
func appendedElems(v ssa.Value) (base ssa.Value, elems []ssa.Value, ok bool) {
	c, isCall := strip(v).(*ssa.Call)
	if !isCall || calleeName(&c.Call) != "builtin:append" || len(argsOf(c)) != 2 {
		return nil, nil, false
	}
	base = argsOf(c)[0]
	sl, isSl := argsOf(c)[1].(*ssa.Slice)
	if !isSl {
		return base, nil, false
	}
	arr, isAlloc := sl.X.(*ssa.Alloc)
	if !isAlloc {
		return base, nil, false
	}
	for _, r := range referrers(arr) {
		if ia, ok := r.(*ssa.IndexAddr); ok {
			for _, r2 := range referrers(ia) {
				if st, ok := r2.(*ssa.Store); ok && st.Addr == ia {
					// an element merged from several exits is the one value the facts at the append leave
					elems = append(elems, refine(st.Val, factsAt(c)))
				}
			}
		}
	}
	return base, elems, true
}

func findUploadSite(m *Module) *uploadSite {
	fn := m.Func("internal/upload", "uploader.createReport")
	s := &uploadSite{fn: fn}
	for _, in := range instrsOf(fn) {
		st, ok := in.(*ssa.Store)
		if !ok {
			continue
		}
		fa, ok := st.Addr.(*ssa.FieldAddr)
		if !ok {
			continue
		}
		al := strip(fa.X)
		if namedType(al.Type()) != "internal/telemetry.Report" {
			continue
		}
		switch al.(type) {
		case *ssa.Alloc, *ssa.Call:
		default:
			continue
		}
		if _, f, _ := fieldAddrName(fa); f != "Programs" {
			continue
		}
		if s.progStore != nil {
			infra("createReport: more than one store to a Report's Programs field; upload report ambiguous")
		}
		s.progStore = st
		s.upload = al
		_, elems, ok := appendedElems(st.Val)
		if !ok || len(elems) != 1 {
			infra("createReport: upload.Programs store is not append(…, x)")
		}
		// the element appended: through a merge (a helper that returns (x, ok)) the facts at the
		// append select the value
		s.x = strip(refine(strip(elems[0]), factsAt(st)))
	}
	if s.progStore == nil {
		infra("UNRESOLVED anchor: no store to upload.Programs in createReport")
	}
	for _, in := range instrsOf(fn) {
		mu, ok := in.(*ssa.MapUpdate)
		if !ok {
			continue
		}
		b, f, ok := fieldLoad(mu.Map)
		if !ok || strip(b) != s.x {
			continue
		}
		switch f {
		case "Counters":
			s.ctrUpd = append(s.ctrUpd, mu)
		case "Stacks":
			s.stackUpd = append(s.stackUpd, mu)
		default:
			s.otherUpd = append(s.otherUpd, mu)
		}
	}
	return s
}

func fieldAddrName(fa *ssa.FieldAddr) (base ssa.Value, field string, ok bool) {
	t, isP := fa.X.Type().Underlying().(*types.Pointer)
	if !isP {
		return nil, "", false
	}
	st, isS := t.Elem().Underlying().(*types.Struct)
	if !isS {
		return nil, "", false
	}
	_ = st
	return fa.X, refFieldName(fa.X.Type(), fa.Field), true
}

// rejectBlock reports whether block b unconditionally (through jumps only)
// reaches a Return whose error result (last result) is not the nil constant.
func rejectBlock(b *ssa.BasicBlock) (*ssa.Return, bool) {
	seen := map[*ssa.BasicBlock]bool{}
	var prev *ssa.BasicBlock
	for b != nil && !seen[b] {
		seen[b] = true
		last := b.Instrs[len(b.Instrs)-1]
		switch t := last.(type) {
		case *ssa.Return:
			if len(t.Results) == 0 {
				return t, false
			}
			r := t.Results[len(t.Results)-1]
			if isErrorType(r.Type()) && !isNilConst(r) {
				return t, true
			}
			return t, false
		case *ssa.Jump:
			prev, b = b, b.Succs[0]
		case *ssa.If:
			// a merge block whose branch the arrival edge decides (jump threading)
			fs := feasibleSuccs(prev, b)
			if len(fs) != 1 {
				return nil, false
			}
			prev, b = b, fs[0]
		default:
			return nil, false
		}
	}
	return nil, false
}

// returnBlock reports whether block b unconditionally reaches a Return (any).
func returnBlock(b *ssa.BasicBlock) *ssa.Return {
	seen := map[*ssa.BasicBlock]bool{}
	var prev *ssa.BasicBlock
	for b != nil && !seen[b] {
		seen[b] = true
		last := b.Instrs[len(b.Instrs)-1]
		switch t := last.(type) {
		case *ssa.Return:
			return t
		case *ssa.Jump:
			prev, b = b, b.Succs[0]
		case *ssa.If:
			fs := feasibleSuccs(prev, b)
			if len(fs) != 1 {
				return nil
			}
			prev, b = b, fs[0]
		default:
			return nil
		}
	}
	return nil
}

// branchOn finds the If instructions whose condition is (a negation chain of) v
// and returns for each the successor taken when v is `val`.
func branchSucc(v ssa.Value, val bool) []*ssa.BasicBlock {
	var out []*ssa.BasicBlock
	seen := map[ssa.Value]bool{}
	var walk func(x ssa.Value, pol bool)
	walk = func(x ssa.Value, pol bool) {
		if seen[x] {
			return
		}
		seen[x] = true
		for _, r := range referrers(x) {
			switch u := r.(type) {
			case *ssa.If:
				if u.Cond == x {
					b := u.Block()
					s := b.Succs[1]
					if pol == val {
						s = b.Succs[0]
					}
					// merge blocks whose branch this arrival decides are passed through
					_, s = threadFrom(b, s)
					out = append(out, s)
				}
			case *ssa.UnOp:
				if u.Op == token.NOT {
					walk(u, !pol)
				}
			case *ssa.Phi:
				// the value is merged (last operand of && / ||, a result variable): where the
				// merged value decides, this value decides on its edge
				// (only when x is computed in the predecessor that jumps straight into the merge:
				// then evaluating x means arriving over x's edge)
				if xi, isInstr := x.(ssa.Instruction); isInstr && isBoolType(u.Type()) {
					for i, e := range u.Edges {
						p := u.Block().Preds[i]
						if e == x && xi.Block() == p {
							if _, isJump := p.Instrs[len(p.Instrs)-1].(*ssa.Jump); isJump {
								walk(u, pol)
							}
						}
					}
				}
			}
		}
	}
	walk(v, true)
	return out
}

// hdrField describes where one header field of a report value comes from.
type hdrField struct {
	Base  ssa.Value // the object whose field is copied (in the caller's terms), nil if not a field copy
	Field string
	Desc  string
}

// reportHeader returns, for a report value built by a composite literal in fn or by a
// helper call, the provenance of its header fields (parameters of the helper are replaced
// by the call's arguments).
func reportHeader(fn *ssa.Function, v ssa.Value) (map[string]hdrField, bool) {
	v = strip(v)
	out := map[string]hdrField{}
	mk := func(val ssa.Value, subst map[ssa.Value]ssa.Value) hdrField {
		if a, ok := subst[strip(val)]; ok {
			val = a
		}
		h := hdrField{Desc: describe(val)}
		if b, f, ok := fieldLoad(val); ok {
			if a, ok := subst[strip(b)]; ok {
				b = a
				h.Desc = describe(a) + "." + f
				h.Desc = strings.TrimPrefix(h.Desc, "&")
			}
			h.Base, h.Field = strip(b), f
		}
		return h
	}
	switch x := v.(type) {
	case *ssa.Alloc:
		for _, in := range instrsOf(fn) {
			st, ok := in.(*ssa.Store)
			if !ok {
				continue
			}
			fa, ok := st.Addr.(*ssa.FieldAddr)
			if !ok || strip(fa.X) != v {
				continue
			}
			_, f, _ := fieldAddrName(fa)
			out[f] = mk(st.Val, nil)
		}
		return out, true
	case *ssa.Call:
		callee := x.Call.StaticCallee()
		if callee == nil || callee.Blocks == nil {
			return nil, false
		}
		subst := map[ssa.Value]ssa.Value{}
		for i, p := range callee.Params {
			if i < len(argsOf(x)) {
				subst[p] = argsOf(x)[i]
			}
		}
		for _, b := range callee.Blocks {
			ret, ok := b.Instrs[len(b.Instrs)-1].(*ssa.Return)
			if !ok || len(ret.Results) == 0 {
				continue
			}
			al, ok := strip(ret.Results[0]).(*ssa.Alloc)
			if !ok {
				return nil, false
			}
			lit, ok := structLit(al)
			if !ok {
				return nil, false
			}
			for f, fv := range lit {
				out[f] = mk(fv, subst)
			}
		}
		return out, true
	}
	return nil, false
}
