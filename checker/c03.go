package main

// C03 — concurrent increments are counted exactly once and never crash (structural obligations
// of the state-word protocol; linearizability itself is NOT decided).

import (
	"fmt"
	"go/constant"
	"go/token"
	"go/types"
	"os"
	"sort"
	"strings"

	"golang.org/x/tools/go/ssa"
)

func init() {
	register("C03", &propDef{
		run: runC03,
		decided: []string{
			"the state word is touched only through Load and CompareAndSwap; Counter.ptr is written only in releaseLock and read only by the lock holders; the registration list only through atomic pointers",
			"pairing on all paths: reader lock → releaseReader, exclusive lock → releaseLock; releaseLock returns only after clearing the lock; releaseReader only after decrementing or delegating",
			"lock preconditions (per version of the local state copy): setLocked only with no foreign reader, incReader only when unlocked with a pointer, setHavePtr only when absent, clearExtra only with a non-nil pointer and followed by add of exactly the amount cleared",
			"negative cache: after marking the pointer valid releaseLock always looks the counter up; saturation tables of addExtra/add and consistency of the bit-field constants",
			"swap order: f.current is stored under f.mu; invalidation runs after the unlock and before the old mapping is closed; unmap of a published mapping requires quiescence (known finding F1 at two sites)",
		},
		notDecided: []string{"exactly-once accounting / absence of lost updates", "progress of the CAS loops under every schedule", "never exceeds the increments begun"},
	})
}

const csRecv = "(*internal/counter.counterState)."
const cbRecv = "(internal/counter.counterStateBits)."

// stateWriters: instructions that may change the local state copy `a`.
// update(&a, new) changes it only on its success edge.
func isUpdateOn(in ssa.Instruction, a ssa.Value) *ssa.Call {
	cl, ok := in.(*ssa.Call)
	if !ok || calleeName(&cl.Call) != csRecv+"update" {
		return nil
	}
	if stateAddrs(a)[argsOf(cl)[1]] {
		return cl
	}
	return nil
}

// stateAddrs: the addresses that denote the local state copy a — the alloc itself, or, for a
// variable declared in a for clause (one copy per iteration), the phi of its per-iteration allocs.
func stateAddrs(a ssa.Value) map[ssa.Value]bool {
	set := map[ssa.Value]bool{}
	var add func(v ssa.Value)
	add = func(v ssa.Value) {
		if set[v] {
			return
		}
		set[v] = true
		if phi, ok := v.(*ssa.Phi); ok {
			for _, e := range phi.Edges {
				add(e)
			}
		}
	}
	add(a)
	return set
}

// isStateAddr: v is an Alloc, or a phi of Allocs.
func isStateAddr(v ssa.Value) bool {
	for x := range stateAddrs(v) {
		switch x.(type) {
		case *ssa.Alloc, *ssa.Phi:
		default:
			return false
		}
	}
	return v != nil
}

// sameVersion: on every (phi-feasible) path from load l1 to instruction `at` that does not
// re-execute l1, the local copy `a` is not written (a successful update counts as a write; a
// failed one does not).
func sameVersion(a ssa.Value, l1 ssa.Instruction, at ssa.Instruction) bool {
	addrs := stateAddrs(a)
	type st struct {
		b     *ssa.BasicBlock
		i     int
		dirty bool
		pred  *ssa.BasicBlock
	}
	seen := map[st]bool{}
	work := []st{{l1.Block(), instrIndex(l1) + 1, false, nil}}
	for len(work) > 0 {
		s := work[len(work)-1]
		work = work[:len(work)-1]
		dirty := s.dirty
		var pendingUpdate *ssa.Call
		stop := false
		for i := s.i; i < len(s.b.Instrs); i++ {
			in := s.b.Instrs[i]
			if in == at {
				if dirty {
					return false
				}
				// keep going: `at` may execute again later (retry loops) without l1 in between
			}
			if in == l1 {
				stop = true
				break
			}
			if stt, ok := in.(*ssa.Store); ok && addrs[stt.Addr] {
				dirty = true
				continue
			}
			if u := isUpdateOn(in, a); u != nil {
				pendingUpdate = u
				continue
			}
			if cc := callOf(in); cc != nil {
				for _, arg := range cc.Args {
					if addrs[arg] {
						dirty = true
					}
				}
			}
		}
		if stop {
			continue
		}
		last := s.b.Instrs[len(s.b.Instrs)-1]
		for _, succ := range feasibleSuccs(s.pred, s.b) {
			d := dirty
			if pendingUpdate != nil {
				if ifi, ok := last.(*ssa.If); ok {
					f := normFact(ifi.Cond, succ == s.b.Succs[0])
					if f.Cond == ssa.Value(pendingUpdate) && f.Pol {
						d = true // success edge: *old = new
					}
				} else {
					d = true
				}
			}
			n := st{succ, 0, d, s.b}
			if !seen[n] {
				seen[n] = true
				work = append(work, n)
			}
		}
	}
	return true
}

func blockHas(b *ssa.BasicBlock, in ssa.Instruction) bool {
	for _, x := range b.Instrs {
		if x == in {
			return true
		}
	}
	return false
}

func containsAfter(b *ssa.BasicBlock, in ssa.Instruction) bool { return false }

// stateFormula: conjunction of the accessor facts at `at` that speak about the same
// version of local copy a as load `root`.
func stateFormula(a ssa.Value, root ssa.Instruction, at ssa.Instruction, extraNamer func(ssa.Value) (string, bool)) BExpr {
	fb := newFormulaBuilder()
	fb.namer = func(v ssa.Value) (string, bool) {
		if cl, ok := v.(*ssa.Call); ok && strings.HasPrefix(calleeName(&cl.Call), cbRecv) {
			acc := strings.TrimPrefix(calleeName(&cl.Call), cbRecv)
			if ld, ok := argsOf(cl)[0].(*ssa.UnOp); ok && ld.X == a {
				if ld == root || sameVersion(a, ld, root) || sameVersion(a, ld, at) {
					return acc, true
				}
				return acc + "@other-version", true
			}
			if p, ok := argsOf(cl)[0].(*ssa.Parameter); ok {
				_ = p
				return acc, true
			}
		}
		if extraNamer != nil {
			return extraNamer(v)
		}
		return "", false
	}
	var conj []BExpr
	for _, f := range factsAt(at) {
		e := fb.formula(f.Cond)
		s := e.String()
		if !(strings.Contains(s, "readers") || strings.Contains(s, "locked") || strings.Contains(s, "havePtr") || strings.Contains(s, "extra") || strings.Contains(s, "ptrcount")) {
			continue
		}
		if strings.Contains(s, "@other-version") {
			continue
		}
		if !f.Pol {
			e = bNot{e}
		}
		conj = append(conj, e)
	}
	return bAnd{conj}
}

// rootLoad: follows mutator chains (x.addExtra(n).setLocked()) back to the load of the local copy.
func rootLoad(v ssa.Value) (*ssa.UnOp, []string) {
	var muts []string
	for {
		v = strip(v)
		cl, ok := v.(*ssa.Call)
		if !ok {
			break
		}
		n := calleeName(&cl.Call)
		if !strings.HasPrefix(n, cbRecv) {
			break
		}
		muts = append([]string{strings.TrimPrefix(n, cbRecv)}, muts...)
		v = argsOf(cl)[0]
	}
	ld, _ := v.(*ssa.UnOp)
	return ld, muts
}

func runC03(c *Ctx) {
	m := c.Root()
	r := c.R
	c03Encoding(c, m)
	c03RetryReloads(c, m)
	c03LookupTotal(c, m, "C03.ptr-ownership")
	// Add returns: the reservation loop under f.mu ends because extend never succeeds with a short mapping
	c.R.As(map[string]string{"C10.page-tail": "C03.locking"}, func() { c10ExtendTail(c, m, "C10.page-tail") })
	// a failed rotation or open leaves no counter attached to a record that cannot be created
	c.R.As(map[string]string{"C05.fail-parks": "C03.ptr-ownership"}, func() { c05FailParks(c, m) })
	add := m.Func("internal/counter", "Counter.Add")
	relR := m.Func("internal/counter", "Counter.releaseReader")
	relL := m.Func("internal/counter", "Counter.releaseLock")
	inval := m.Func("internal/counter", "Counter.invalidate")
	refresh := m.Func("internal/counter", "Counter.refresh")
	addFn := m.Func("internal/counter", "Counter.add")

	// ---- 1. state word ------------------------------------------------------
	nBits := 0
	for _, fn := range m.PkgFuncs("internal/counter") {
		for _, in := range instrsOf(fn) {
			fa, ok := in.(*ssa.FieldAddr)
			if !ok {
				continue
			}
			if _, f, _ := fieldAddrName(fa); f != "bits" || namedType(fa.X.Type()) != "internal/counter.counterState" {
				continue
			}
			for _, u := range referrers(fa) {
				nBits++
				cn := ""
				if cc := callOf(u); cc != nil {
					cn = calleeName(cc)
				}
				ok := (cn == "(*sync/atomic.Uint64).Load" && fname(fn) == csRecv+"load") || (cn == "(*sync/atomic.Uint64).CompareAndSwap" && fname(fn) == csRecv+"update")
				r.Check("C03.state-word", fname(fn)+"/"+cn, m.Pos(u.Pos()), ok, "the packed state word may only be Loaded (in load) and CompareAndSwapped (in update); a blind store loses concurrent extra")
			}
		}
	}
	r.Check("C03.state-word", "accesses enumerated", "-", nBits == 2, fmt.Sprintf("%d accesses to counterState.bits", nBits))
	// update's contract: on success *old = new, on failure unchanged
	upd := m.Func("internal/counter", "counterState.update")
	okUpd := false
	for _, in := range instrsOf(upd) {
		if st, ok := in.(*ssa.Store); ok && st.Addr == ssa.Value(upd.Params[1]) && st.Val == ssa.Value(upd.Params[2]) {
			okUpd = hasFact(factsAt(st), func(f Fact) bool {
				cl, ok := f.Cond.(*ssa.Call)
				return ok && f.Pol && strings.HasSuffix(calleeName(&cl.Call), ".CompareAndSwap")
			})
		}
	}
	r.Check("C03.state-word", "update/writes *old only on success", m.Pos(upd.Pos()), okUpd, "the model used by the other rules: update(&old, new) sets *old = new iff the CAS succeeded")

	// ---- 2. ptr ownership ------------------------------------------------------
	for _, fn := range m.PkgFuncs("internal/counter") {
		for _, in := range instrsOf(fn) {
			fa, ok := in.(*ssa.FieldAddr)
			if !ok {
				continue
			}
			if _, f, _ := fieldAddrName(fa); f != "ptr" || namedType(fa.X.Type()) != "internal/counter.Counter" {
				continue
			}
			written := false
			for _, u := range referrers(fa) {
				if st, ok := u.(*ssa.Store); ok && st.Addr == ssa.Value(fa) {
					written = true
				}
			}
			if written {
				r.Check("C03.ptr-ownership", "write of Counter.ptr in "+fname(fn), m.Pos(fa.Pos()), fn == relL, "Counter.ptr may be written only by the exclusive-lock holder in releaseLock")
			} else {
				okReader := fn == add || fn == relL || fn == addFn
				r.Check("C03.ptr-ownership", "read of Counter.ptr in "+fname(fn), m.Pos(fa.Pos()), okReader, "Counter.ptr may be read only by lock holders (Add under the reader lock, releaseLock, add)")
			}
		}
	}
	for _, cs := range m.callersOf(addFn) {
		r.Check("C03.ptr-ownership", "caller of Counter.add: "+fname(cs.Parent()), m.Pos(cs.Pos()), cs.Parent() == add || cs.Parent() == relL, "add dereferences c.ptr.count: only Add (reader lock) and releaseLock (exclusive) may call it")
	}
	// in Add the read of c.ptr happens after a successful incReader
	for _, in := range instrsOf(add) {
		fa, ok := in.(*ssa.FieldAddr)
		if !ok {
			continue
		}
		if _, f, _ := fieldAddrName(fa); f == "ptr" {
			okLock := hasFact(factsAt(fa), func(f Fact) bool {
				cl, ok := f.Cond.(*ssa.Call)
				if !ok || !f.Pol || calleeName(&cl.Call) != csRecv+"update" {
					return false
				}
				_, muts := rootLoad(argsOf(cl)[2])
				return len(muts) == 1 && muts[0] == "incReader"
			})
			r.Check("C03.ptr-ownership", "Add/reads c.ptr under the reader lock", m.Pos(fa.Pos()), okLock, "c.ptr may be read in Add only after update(state.incReader()) succeeded")
		}
	}

	// ---- 3. pairing + 8. preconditions: walk every update site ------------------
	nSites := 0
	for _, fn := range []*ssa.Function{add, relR, relL, inval, refresh} {
		for _, cs := range callsIn(fn, csRecv+"update") {
			u := cs.(*ssa.Call)
			a := argsOf(u)[1]
			root, muts := rootLoad(argsOf(u)[2])
			if !isStateAddr(a) || root == nil || root.X != a {
				r.Check("C03.lock-preconditions", fname(fn)+"/update operand", m.Pos(u.Pos()), false, "update must install a mutation of the local state copy it compares against; got "+describeArg(u, 2))
				continue
			}
			nSites++
			mut := strings.Join(muts, ".")
			site := fname(fn) + "/" + mut
			got := stateFormula(a, root, u, func(v ssa.Value) (string, bool) {
				if _, f, ok := fieldLoad(v); ok && f == "count" {
					return "ptrcount", true
				}
				return "", false
			})
			axioms := bAnd{[]BExpr{mkOrd("readers", ">=", "0")}}
			prem := bAnd{[]BExpr{got, axioms}}
			var want BExpr
			switch {
			case strings.HasSuffix(mut, "setLocked"):
				if fn == relR {
					want = mkOrd("readers", "=", "1") // the caller is that reader
				} else {
					want = mkOrd("readers", "=", "0")
				}
			case mut == "incReader":
				want = bAnd{[]BExpr{bNot{bBool{"locked"}}, bBool{"havePtr"}}}
			case mut == "setHavePtr":
				want = bNot{bBool{"havePtr"}}
			case mut == "clearExtra":
				want = bAnd{[]BExpr{mkOrd("extra", "!=", "0"), bNot{bBool{"isnil(ptrcount)"}}}}
			case mut == "decReader":
				r.Check("C03.lock-preconditions", site+"/only in releaseReader", m.Pos(u.Pos()), fn == relR, "decReader is the release of a reader lock")
			case mut == "clearLocked":
				r.Check("C03.lock-preconditions", site+"/only in releaseLock", m.Pos(u.Pos()), fn == relL, "clearLocked is the release of the exclusive lock")
			case mut == "clearHavePtr":
				r.Check("C03.lock-preconditions", site+"/only in invalidate", m.Pos(u.Pos()), fn == inval, "only invalidate clears havePtr")
			case mut == "addExtra":
				// parking an increment in extra is safe only if somebody is bound to flush it: we
				// hold a reader lock ourselves (we flush on release), or the version of the state
				// the CAS compares against is exclusively locked (the holder flushes before
				// unlocking), or it has readers but no pointer (the last reader upgrades and flushes)
				readerHeld := hasFact(factsAt(u), func(f Fact) bool {
					cl, ok := f.Cond.(*ssa.Call)
					if !ok || !f.Pol || calleeName(&cl.Call) != csRecv+"update" {
						return false
					}
					_, ms := rootLoad(cl.Call.Args[2])
					return len(ms) == 1 && ms[0] == "incReader"
				})
				if !readerHeld {
					want = bOr{[]BExpr{bBool{"locked"}, bAnd{[]BExpr{bNot{bBool{"havePtr"}}, mkOrd("readers", ">", "0")}}}}
				}
			default:
				r.Check("C03.lock-preconditions", site+"/unknown mutation", m.Pos(u.Pos()), false, "unrecognised state mutation "+mut)
			}
			if want != nil {
				ok, why, _ := implies(prem, want)
				r.Check("C03.lock-preconditions", site, m.Pos(u.Pos()), ok,
					fmt.Sprintf("installing %s requires %s on the same version of the state copy (setLocked overwrites the reader count; a foreign reader's later release then underflows it); established: %s; %s", mut, want.String(), got.String(), why))
			}
			// pairing on the success edge
			succs := branchSucc(u, true)
			release := ""
			switch {
			case mut == "incReader":
				release = "(*internal/counter.Counter).releaseReader"
			case strings.HasSuffix(mut, "setLocked"):
				release = "(*internal/counter.Counter).releaseLock"
			}
			if release != "" {
				ok := len(succs) > 0
				for _, s := range succs {
					if len(s.Instrs) == 0 {
						continue
					}
					first := s.Instrs[0]
					if isCallTo(first, release) {
						continue
					}
					if w := reachesWithout(first, isReturn, func(in ssa.Instruction) bool { return isCallTo(in, release) }); w != nil {
						ok = false
					}
				}
				r.Check("C03.pairing", site+" is released", m.Pos(u.Pos()), ok, "after a successful "+mut+" every path to a return must pass "+release+" (a missing release leaves the counter locked for ever)")
			}
			// flush pairing
			if mut == "clearExtra" {
				ok := false
				for _, s := range succs {
					for _, in := range s.Instrs {
						if cl, isC := in.(*ssa.Call); isC && calleeName(&cl.Call) == "(*internal/counter.Counter).add" {
							// the amount: extra() of a load of the same version as root
							if ec, isE := strip(argsOf(cl)[1]).(*ssa.Call); isE && calleeName(&ec.Call) == cbRecv+"extra" {
								if ld, isL := argsOf(ec)[0].(*ssa.UnOp); isL && ld.X == a && (ld == root || sameVersion(a, ld, root)) {
									ok = true
								}
							}
						}
					}
				}
				r.Check("C03.flush-pairing", site+" is followed by add of the amount cleared", m.Pos(u.Pos()), ok,
					"the amount added to the file must be extra() of the very state version whose clearExtra was installed (a retry that re-loads the state clears a larger amount than it persists)")
			}
		}
	}
	r.Check("C03.lock-preconditions", "update sites enumerated", "-", nSites >= 12, fmt.Sprintf("%d update sites", nSites))
	// releaseLock returns only after clearLocked succeeded; releaseReader only after decReader or delegation
	for _, b := range relL.Blocks {
		if ret, ok := b.Instrs[len(b.Instrs)-1].(*ssa.Return); ok {
			okRet := hasFact(factsAt(ret), func(f Fact) bool {
				cl, ok := f.Cond.(*ssa.Call)
				if !ok || !f.Pol || calleeName(&cl.Call) != csRecv+"update" {
					return false
				}
				_, muts := rootLoad(argsOf(cl)[2])
				return len(muts) == 1 && muts[0] == "clearLocked"
			})
			r.Check("C03.pairing", "releaseLock returns only after clearing the lock", m.Pos(ret.Pos()), okRet, "return must be dominated by a successful update(state.clearLocked())")
		}
	}
	for _, b := range relR.Blocks {
		if ret, ok := b.Instrs[len(b.Instrs)-1].(*ssa.Return); ok {
			okDec := hasFact(factsAt(ret), func(f Fact) bool {
				cl, ok := f.Cond.(*ssa.Call)
				if !ok || !f.Pol || calleeName(&cl.Call) != csRecv+"update" {
					return false
				}
				_, muts := rootLoad(argsOf(cl)[2])
				return len(muts) == 1 && muts[0] == "decReader"
			})
			okDel := false
			for _, in := range b.Instrs {
				if isCallTo(in, "(*internal/counter.Counter).releaseLock") {
					okDel = true
				}
			}
			r.Check("C03.pairing", "releaseReader returns only after releasing", m.Pos(ret.Pos()), okDec || okDel, "return after a successful decReader or after delegating to releaseLock")
		}
	}

	// ---- 9. negative cache ---------------------------------------------------------
	for _, cs := range callsIn(relL, csRecv+"update") {
		u := cs.(*ssa.Call)
		_, muts := rootLoad(argsOf(u)[2])
		if len(muts) != 1 || muts[0] != "setHavePtr" {
			continue
		}
		ok := true
		for _, s := range branchSucc(u, true) {
			w := reachesWithout(s.Instrs[0], func(in ssa.Instruction) bool {
				return isReturn(in) || isCallTo(in, csRecv+"update")
			}, func(in ssa.Instruction) bool {
				st, isSt := in.(*ssa.Store)
				if !isSt {
					return false
				}
				fa, isFA := st.Addr.(*ssa.FieldAddr)
				if !isFA {
					return false
				}
				_, f, _ := fieldAddrName(fa)
				return f == "ptr" && strings.HasPrefix(describe(st.Val), "(*internal/counter.file).lookup(")
			})
			if w != nil || storesNilPtr(s) {
				ok = false
			}
		}
		r.Check("C03.negative-cache", "internal/counter.(*Counter).releaseLock", m.Pos(u.Pos()), ok,
			"after marking the pointer valid (setHavePtr) every path must store c.ptr = c.file.lookup(c.name): Add never retries the lookup, so a nil pointer cached with havePtr set strands later increments in extra while the file is open")
	}

	// ---- 4. saturation -----------------------------------------------------------------
	c03Saturation(c, m)

	// ---- 5/7. swap order and unmap -------------------------------------------------------
	c03Swap(c, m)

	// ---- 6b. register: every attempt to publish c at the list head first points c.next at that head
	{
		reg := m.Func("internal/counter", "file.register")
		var listCAS *ssa.Call
		for _, cs := range callsIn(reg) {
			cn := calleeName(cs.Common())
			if strings.Contains(cn, "Pointer[internal/counter.Counter]).CompareAndSwap") && strings.HasSuffix(describeArg(cs, 0), ".counters") {
				listCAS = cs.(*ssa.Call)
			}
		}
		r.Check("C03.register", "register/publishes with a CAS on the list head", m.Pos(reg.Pos()), listCAS != nil, "")
		if listCAS != nil {
			head := strip(argsOf(listCAS)[1])
			headIn, _ := head.(ssa.Instruction)
			setsNext := func(in ssa.Instruction) bool {
				cc := callOf(in)
				if cc == nil || !strings.HasSuffix(describe(cc.Args[0]), ".next") {
					return false
				}
				cn := calleeName(cc)
				if strings.Contains(cn, ").Store[") {
					return dependsOn(cc.Args[1], head, 6)
				}
				if strings.Contains(cn, ").CompareAndSwap[") {
					return len(cc.Args) == 3 && dependsOn(cc.Args[2], head, 6)
				}
				return false
			}
			ok := headIn != nil
			if headIn != nil {
				w := reachesWithout(headIn, func(in ssa.Instruction) bool { return in == ssa.Instruction(listCAS) }, setsNext)
				ok = w == nil
			}
			r.Check("C03.register", "register/c.next points at the head the list CAS expects", m.Pos(listCAS.Pos()), ok,
				"between loading the list head and CASing c in front of it, c.next must be set from that very head on every path (also on a retry): otherwise the counters behind a stale next are cut off the list and are never invalidated, refreshed or flushed")
		}
	}

	// ---- 6. registration list only via atomics: guaranteed by the field types -----------
	for _, spec := range [][2]string{{"file", "counters"}, {"Counter", "next"}, {"file", "current"}} {
		tn := m.Pkg("internal/counter").Pkg.Scope().Lookup(spec[0]).Type().Underlying().(*types.Struct)
		okT := false
		for i := 0; i < tn.NumFields(); i++ {
			if refFieldName(m.Pkg("internal/counter").Pkg.Scope().Lookup(spec[0]).Type(), i) == spec[1] {
				okT = strings.HasPrefix(tn.Field(i).Type().String(), "sync/atomic.Pointer[")
			}
		}
		r.Check("C03.register", spec[0]+"."+spec[1]+" is an atomic.Pointer", "-", okT, "shared list/mapping pointers can only be accessed atomically by construction")
	}
}

func storesNilPtr(b *ssa.BasicBlock) bool { return false }

func c03Saturation(c *Ctx, m *Module) {
	r := c.R
	// constants
	get := func(n string) uint64 {
		cst, ok := m.Pkg("internal/counter").Pkg.Scope().Lookup(n).(*types.Const)
		if !ok {
			infra("UNRESOLVED anchor const %s", n)
		}
		var v uint64
		fmt.Sscan(cst.Val().ExactString(), &v)
		return v
	}
	readers, locked, have, shift, extra := get("stateReaders"), get("stateLocked"), get("stateHavePtr"), get("stateExtraShift"), get("stateExtra")
	okC := readers&have == 0 && readers&extra == 0 && have&extra == 0 && readers|have|extra == ^uint64(0) && locked == readers && extra == ^uint64(0)<<shift && readers == 1<<30-1 && have == 1<<30
	r.Check("C03.saturation", "state bit fields are disjoint, cover the word, locked == all reader bits", "-", okC,
		fmt.Sprintf("readers %#x locked %#x havePtr %#x extra %#x shift %d", readers, locked, have, extra, shift))
	ae := m.Func("internal/counter", "counterStateBits.addExtra")
	// x' = phi[maxExtra, x+n] chosen by (x+n < x) || (x+n > maxExtra)
	maxExtra := extra >> shift
	okA := false
	for _, in := range instrsOf(ae) {
		phi, ok := in.(*ssa.Phi)
		if !ok {
			continue
		}
		var sum ssa.Value
		hasMax := false
		for _, e := range phi.Edges {
			if k, isC := intConst(e); isC && uint64(k) == maxExtra {
				hasMax = true
			} else {
				sum = e
			}
		}
		if !hasMax || sum == nil {
			continue
		}
		fb := newFormulaBuilder()
		fb.namer = func(v ssa.Value) (string, bool) {
			if cl, ok := v.(*ssa.Call); ok && calleeName(&cl.Call) == cbRecv+"extra" {
				return "x", true
			}
			if bo, ok := v.(*ssa.BinOp); ok && bo.Op == token.ADD {
				if cl, ok := strip(bo.X).(*ssa.Call); ok && calleeName(&cl.Call) == cbRecv+"extra" && bo.Y == ssa.Value(ae.Params[1]) {
					return "sum", true
				}
			}
			return "", false
		}
		// condition under which the max edge is taken
		var alts []BExpr
		for i, e := range phi.Edges {
			if k, isC := intConst(e); isC && uint64(k) == maxExtra {
				alts = append(alts, fb.edgeCond(phi.Block().Preds[i], phi.Block()))
			}
		}
		got := bOr{alts}
		want := bOr{[]BExpr{mkOrd("sum", "<", "x"), mkOrd("sum", ">", fmt.Sprint(maxExtra))}}
		ok2, why, _ := equivalent(got, want)
		bo, isB := strip(sum).(*ssa.BinOp)
		okSum := isB && bo.Op == token.ADD
		okA = ok2 && okSum
		r.Check("C03.saturation", "addExtra/sticks at maxExtra on overflow", m.Pos(phi.Pos()), okA, "x' = maxExtra iff x+n wraps or exceeds maxExtra, else x+n; "+why)
	}
	r.Check("C03.saturation", "addExtra/has the saturating choice", m.Pos(ae.Pos()), okA, "expected a choice between maxExtra and x+n")
	// the persisted value sticks at 2^64-1 too, on every attempt of the CAS loop
	c04ValueAdd(c, m, "C03.saturation")
}

func c03Swap(c *Ctx, m *Module) {
	r := c.R
	curStore := "(*sync/atomic.Pointer[internal/counter.mappedFile]).Store[internal/counter.mappedFile]"
	curLoad := "(*sync/atomic.Pointer[internal/counter.mappedFile]).Load[internal/counter.mappedFile]"
	muLock := "(*sync.Mutex).Lock"
	// stores to f.current
	n := 0
	for _, fn := range m.PkgFuncs("internal/counter") {
		for _, cs := range callsIn(fn) {
			cn := calleeName(cs.Common())
			if !(strings.Contains(cn, "atomic.Pointer[") && strings.Contains(cn, "mappedFile]).Store")) {
				continue
			}
			n++
			held := func(f *ssa.Function, at ssa.Instruction) bool {
				for _, lk := range callsIn(f, muLock) {
					if strings.HasSuffix(describeArg(lk, 0), ".mu") && precedes(lk, at) {
						// not released before `at` other than by defer
						unlocked := false
						for _, ul := range callsIn(f, "(*sync.Mutex).Unlock") {
							if _, isDefer := ul.(*ssa.Defer); !isDefer && precedes(ul, at) {
								unlocked = true
							}
						}
						return !unlocked
					}
				}
				return false
			}
			ok := held(fn, cs)
			if !ok && fn.Parent() != nil {
				// closure: every call site in the parent holds the lock
				ok = true
				calls := 0
				for _, pc := range callsIn(fn.Parent()) {
					if pc.Common().StaticCallee() == fn || (pc.Common().Value != nil && funcValue(pc.Common().Value) == fn) {
						calls++
						if !held(fn.Parent(), pc) {
							ok = false
						}
					}
				}
				ok = ok && calls > 0
			}
			r.Check("C03.swap-order", "f.current stored under f.mu in "+fname(fn), m.Pos(cs.Pos()), ok, "the current mapping may only be replaced while holding f.mu")
		}
	}
	_ = curStore
	r.Check("C03.swap-order", "stores of f.current enumerated", "-", n >= 3, fmt.Sprintf("%d", n))
	// invalidateCounters is never called with f.mu held; cleanup order invalidate → close
	rot := m.Func("internal/counter", "file.rotate1")
	nc1 := m.Func("internal/counter", "file.newCounter1")
	for _, fn := range m.PkgFuncs("internal/counter") {
		for _, cs := range callsIn(fn, "(*internal/counter.file).invalidateCounters") {
			site := fname(fn)
			okUnlocked := false
			switch {
			case fn.Parent() == rot:
				// deferred closure must be registered BEFORE the deferred Unlock (so it runs after it)
				var dClosure, dUnlock *ssa.Defer
				for _, in := range instrsOf(rot) {
					if d, ok := in.(*ssa.Defer); ok {
						if funcValue(d.Call.Value) == fn {
							dClosure = d
						}
						if calleeName(&d.Call) == "(*sync.Mutex).Unlock" {
							dUnlock = d
						}
					}
				}
				okUnlocked = dClosure != nil && dUnlock != nil && precedes(dClosure, dUnlock)
				// and rotate1 takes the lock only after registering it
			case fn.Parent() == nc1:
				// the closure is returned, not called, by newCounter1; newCounter calls it after newCounter1 returned
				called := false
				for _, pc := range callsIn(nc1) {
					if funcValue(pc.Common().Value) == fn {
						called = true
					}
				}
				okUnlocked = !called
			default:
				okUnlocked = len(callsIn(fn, muLock)) == 0
			}
			r.Check("C03.swap-order", "invalidateCounters runs without f.mu in "+site, m.Pos(cs.Pos()), okUnlocked, "invalidateCounters → refresh → releaseLock → file.lookup takes f.mu: calling it under f.mu self-deadlocks")
			// close after invalidate
			for _, cl := range callsIn(fn, "(*internal/counter.mappedFile).close") {
				r.Check("C03.swap-order", "old mapping closed only after invalidation in "+site, m.Pos(cl.Pos()), precedes(cs, cl), "counters must be invalidated before the old mapping is unmapped")
			}
		}
	}
	// unmap quiescence
	nClose := 0
	for _, fn := range m.PkgFuncs("internal/counter") {
		for _, cl := range callsIn(fn, "(*internal/counter.mappedFile).close") {
			published := false
			for v := range backwardSlice(argsOf(cl)[0], 400) {
				if lc, ok := v.(*ssa.Call); ok && strings.Contains(calleeName(&lc.Call), "mappedFile]).Load[") && strings.HasSuffix(describeArg(lc, 0), ".current") {
					published = true
				}
			}
			if !published {
				continue
			}
			nClose++
			isOpenClose := false
			for p := fn; p != nil; p = p.Parent() {
				if fname(p) == "internal/counter.Open" {
					isOpenClose = true
				}
			}
			if isOpenClose {
				r.Check("C03.unmap-quiescence", "Open's close function", m.Pos(cl.Pos()), true, "tabled: test-only close function returned by Open, documented to be called after all Inc()s are finished")
				continue
			}
			// quiescence barrier: between invalidateCounters() and close(), a call that waits for readers
			barrier := false
			for _, cs := range callsIn(fn) {
				f := cs.Common().StaticCallee()
				if f == nil || f.Blocks == nil || !precedes(cs, cl) {
					continue
				}
				if waitsForReaders(f) {
					barrier = true
				}
			}
			site := strings.TrimPrefix(fname(fn), "internal/counter.")
			r.Check("C03.unmap-quiescence", "(*file)."+site[strings.LastIndex(site, ".")+1:], m.Pos(cl.Pos()), barrier,
				"F1: a mapping that was published through f.current is unmapped although a goroutine holding the reader lock in Add may still dereference its pointer (invalidate/refresh do not wait for readers): SIGSEGV in (*Counter).add")
		}
	}
	r.Check("C03.unmap-quiescence", "closes of published mappings enumerated", "-", nClose >= 2, fmt.Sprintf("%d", nClose))
	_ = curLoad
}

// waitsForReaders: f contains a loop over the registered counters containing a loop whose
// exit depends on readers()/locked() of a freshly loaded state.
func waitsForReaders(f *ssa.Function) bool {
	for _, l := range naturalLoops(f) {
		for b := range l.blocks {
			if cond, _, ok := l.exitsOn(b); ok {
				d := describe(cond)
				if (strings.Contains(d, ".readers(") || strings.Contains(d, ".locked(")) && strings.Contains(d, ".load(") {
					return true
				}
			}
		}
	}
	for _, cs := range callsIn(f) {
		if g := cs.Common().StaticCallee(); g != nil && g.Blocks != nil && g != f && g.Pkg == f.Pkg && strings.Contains(strings.ToLower(g.Name()), "quiesc") {
			return waitsForReaders(g)
		}
	}
	return false
}

// c03Encoding: the bit-field accessors of counterStateBits mean what the protocol rules take
// them to mean (the rules above reason with readers()/locked()/havePtr()/extra() as names).
// Layout: readers = low 30 bits, all ones = locked; bit 30 = havePtr; bits 31..63 = extra.
//
// The accessors are bitwise expressions over the word b and constants (and, or, xor, and-not,
// not, shifts by constants, width-preserving conversions), possibly compared with a constant.
// For this fragment equivalence is decidable bit by bit: every result bit is 0, 1, an input
// bit or its complement; a comparison is a conjunction of "input bit k is c" (or its negation).
// The rule computes that normal form of the accessor's body and compares it with the normal
// form of the documented layout — any equivalent way of writing the accessor is accepted
// (b&mask^mask == 0 for b&mask == mask), any other meaning is not.
type bitE struct {
	kind int // 0: const 0, 1: const 1, 2: input bit, 3: complement of input bit
	k    int
}
type bitWord [64]bitE

func (m *Module) bitsOf(v ssa.Value, param *ssa.Parameter, depth int) (bitWord, bool) {
	var w bitWord
	if depth > 12 {
		return w, false
	}
	v = strip(v)
	if v == ssa.Value(param) {
		for i := range w {
			w[i] = bitE{2, i}
		}
		return w, true
	}
	if k, ok := v.(*ssa.Const); ok && k.Value != nil {
		u, exact := constant.Uint64Val(constant.ToInt(k.Value))
		if !exact {
			if n, ok2 := constant.Int64Val(constant.ToInt(k.Value)); ok2 {
				u = uint64(n)
			} else {
				return w, false
			}
		}
		for i := range w {
			w[i] = bitE{int(u >> uint(i) & 1), 0}
		}
		return w, true
	}
	switch x := v.(type) {
	case *ssa.Convert:
		return m.bitsOf(x.X, param, depth+1)
	case *ssa.ChangeType:
		return m.bitsOf(x.X, param, depth+1)
	case *ssa.UnOp:
		if x.Op == token.XOR { // ^x
			a, ok := m.bitsOf(x.X, param, depth+1)
			if !ok {
				return w, false
			}
			for i := range a {
				w[i] = notBit(a[i])
			}
			return w, true
		}
	case *ssa.BinOp:
		a, ok1 := m.bitsOf(x.X, param, depth+1)
		if !ok1 {
			return w, false
		}
		switch x.Op {
		case token.SHR, token.SHL:
			n, isC := intConst(x.Y)
			if !isC || n < 0 || n > 63 {
				return w, false
			}
			for i := range w {
				src := i + int(n)
				if x.Op == token.SHL {
					src = i - int(n)
				}
				if src >= 0 && src < 64 {
					w[i] = a[src]
				}
			}
			return w, true
		case token.AND, token.OR, token.XOR, token.AND_NOT:
			b, ok2 := m.bitsOf(x.Y, param, depth+1)
			if !ok2 {
				return w, false
			}
			for i := range w {
				y := b[i]
				if x.Op == token.AND_NOT {
					y = notBit(y)
				}
				op := x.Op
				if op == token.AND_NOT {
					op = token.AND
				}
				r, ok := combineBits(a[i], y, op)
				if !ok {
					return w, false
				}
				w[i] = r
			}
			return w, true
		}
	}
	return w, false
}

func notBit(b bitE) bitE {
	switch b.kind {
	case 0:
		return bitE{1, 0}
	case 1:
		return bitE{0, 0}
	case 2:
		return bitE{3, b.k}
	}
	return bitE{2, b.k}
}

func combineBits(a, b bitE, op token.Token) (bitE, bool) {
	// evaluate over the (at most one) input bit both depend on
	if a.kind >= 2 && b.kind >= 2 && a.k != b.k {
		return bitE{}, false
	}
	k := a.k
	if a.kind < 2 {
		k = b.k
	}
	ev := func(e bitE, in int) int {
		switch e.kind {
		case 0:
			return 0
		case 1:
			return 1
		case 2:
			return in
		}
		return 1 - in
	}
	f := func(in int) int {
		x, y := ev(a, in), ev(b, in)
		switch op {
		case token.AND:
			return x & y
		case token.OR:
			return x | y
		}
		return x ^ y
	}
	r0, r1 := f(0), f(1)
	switch {
	case r0 == 0 && r1 == 0:
		return bitE{0, 0}, true
	case r0 == 1 && r1 == 1:
		return bitE{1, 0}, true
	case r0 == 0 && r1 == 1:
		return bitE{2, k}, true
	}
	return bitE{3, k}, true
}

// bitPred: the normal form of "x == y" / "x != y" over bit words: pos ∧_k (input bit k == want[k]),
// or its negation. ok=false when the comparison relates different input bits.
type bitPred struct {
	pos   bool
	unsat bool
	want  map[int]int
}

func predOf(a, b bitWord, eq bool) (bitPred, bool) {
	p := bitPred{pos: eq, want: map[int]int{}}
	for i := range a {
		x, y := a[i], b[i]
		if x.kind >= 2 && y.kind >= 2 {
			if x.k != y.k {
				return p, false
			}
			if x.kind != y.kind {
				p.unsat = true
			}
			continue
		}
		if x.kind < 2 && y.kind < 2 {
			if x.kind != y.kind {
				p.unsat = true
			}
			continue
		}
		in, c := x, y
		if x.kind < 2 {
			in, c = y, x
		}
		need := c.kind // input bit (or its complement) must equal c
		if in.kind == 3 {
			need = 1 - need
		}
		if old, has := p.want[in.k]; has && old != need {
			p.unsat = true
		}
		p.want[in.k] = need
	}
	// ¬(single bit == c) is (single bit == 1-c)
	if !p.pos && !p.unsat && len(p.want) == 1 {
		for k, v := range p.want {
			p.want[k] = 1 - v
		}
		p.pos = true
	}
	return p, true
}

func (p bitPred) String() string {
	if p.unsat {
		return fmt.Sprintf("pos=%v unsat", p.pos)
	}
	var ks []int
	for k := range p.want {
		ks = append(ks, k)
	}
	sort.Ints(ks)
	var sb strings.Builder
	fmt.Fprintf(&sb, "pos=%v", p.pos)
	for _, k := range ks {
		fmt.Fprintf(&sb, " b%d=%d", k, p.want[k])
	}
	return sb.String()
}

func wordString(w bitWord) string {
	var sb strings.Builder
	for i := 63; i >= 0; i-- {
		switch w[i].kind {
		case 0:
			sb.WriteByte('0')
		case 1:
			sb.WriteByte('1')
		case 2:
			if w[i].k == i {
				sb.WriteByte('b')
			} else {
				fmt.Fprintf(&sb, "[b%d]", w[i].k)
			}
		default:
			fmt.Fprintf(&sb, "[~b%d]", w[i].k)
		}
	}
	return sb.String()
}

func c03Encoding(c *Ctx, m *Module) {
	r := c.R
	// the documented layout, as words over the input b
	mk := func(f func(i int) bitE) bitWord {
		var w bitWord
		for i := range w {
			w[i] = f(i)
		}
		return w
	}
	in := func(i int) bitE { return bitE{2, i} }
	wantWord := map[string]bitWord{
		"readers": mk(func(i int) bitE {
			if i < 30 {
				return in(i)
			}
			return bitE{0, 0}
		}),
		"extra": mk(func(i int) bitE {
			if i+31 < 64 {
				return in(i + 31)
			}
			return bitE{0, 0}
		}),
		"setLocked": mk(func(i int) bitE {
			if i < 30 {
				return bitE{1, 0}
			}
			return in(i)
		}),
		"clearLocked": mk(func(i int) bitE {
			if i < 30 {
				return bitE{0, 0}
			}
			return in(i)
		}),
		"setHavePtr": mk(func(i int) bitE {
			if i == 30 {
				return bitE{1, 0}
			}
			return in(i)
		}),
		"clearHavePtr": mk(func(i int) bitE {
			if i == 30 {
				return bitE{0, 0}
			}
			return in(i)
		}),
		"clearExtra": mk(func(i int) bitE {
			if i >= 31 {
				return bitE{0, 0}
			}
			return in(i)
		}),
	}
	lockedWant := bitPred{pos: true, want: map[int]int{}}
	for i := 0; i < 30; i++ {
		lockedWant.want[i] = 1
	}
	wantPred := map[string]bitPred{
		"locked":  lockedWant,
		"havePtr": {pos: true, want: map[int]int{30: 1}},
	}
	names := []string{"clearExtra", "clearHavePtr", "clearLocked", "decReader", "extra", "havePtr", "incReader", "locked", "readers", "setHavePtr", "setLocked"}
	for _, name := range names {
		f := m.Func("internal/counter", "counterStateBits."+name)
		var res ssa.Value
		n := 0
		for _, b := range f.Blocks {
			if ret, ok := b.Instrs[len(b.Instrs)-1].(*ssa.Return); ok && len(ret.Results) == 1 {
				n++
				res = ret.Results[0]
			}
		}
		ok, detail := false, "the accessor must be a single expression"
		if n == 1 && len(f.Params) == 1 {
			switch {
			case name == "incReader" || name == "decReader":
				bo, isB := strip(res).(*ssa.BinOp)
				wantOp := token.ADD
				if name == "decReader" {
					wantOp = token.SUB
				}
				if isB && bo.Op == wantOp {
					k, isC := intConst(bo.Y)
					ok = strip(bo.X) == ssa.Value(f.Params[0]) && isC && k == 1
					if !ok && wantOp == token.ADD {
						k, isC = intConst(bo.X)
						ok = strip(bo.Y) == ssa.Value(f.Params[0]) && isC && k == 1
					}
				}
				detail = "want b ± 1; got " + describe(res)
			case wantPred[name].want != nil:
				bo, isB := strip(res).(*ssa.BinOp)
				if isB && (bo.Op == token.EQL || bo.Op == token.NEQ) {
					a, ok1 := m.bitsOf(bo.X, f.Params[0], 0)
					b, ok2 := m.bitsOf(bo.Y, f.Params[0], 0)
					if ok1 && ok2 {
						if got, okP := predOf(a, b, bo.Op == token.EQL); okP {
							ok = got.String() == wantPred[name].String()
							detail = "want " + wantPred[name].String() + "; got " + got.String()
						}
					}
				}
				if !ok && detail == "the accessor must be a single expression" {
					detail = "not a comparison of bitwise expressions over b: " + describe(res)
				}
			default:
				if w, okW := m.bitsOf(res, f.Params[0], 0); okW {
					ok = w == wantWord[name]
					detail = "want " + wordString(wantWord[name]) + "; got " + wordString(w)
				} else {
					detail = "not a bitwise expression over b: " + describe(res)
				}
			}
		}
		r.Check("C03.locking", "counterStateBits."+name+" is the documented bit field", m.Pos(f.Pos()), ok, detail)
	}
}

// c03RetryReloads: a compare-and-swap that failed is tried again only with a state that was
// loaded again. update(&state, new) leaves *state untouched when it fails; a loop that goes
// round without `state = c.state.load()` compares with the same stale value for ever (the
// counter word keeps changing under concurrent Adds): "no call waits forever".
func c03RetryReloads(c *Ctx, m *Module) {
	r := c.R
	n := 0
	for _, fn := range m.PkgFuncs("internal/counter") {
		for _, cs := range callsIn(fn, csRecv+"update") {
			u, ok := cs.(*ssa.Call)
			if !ok {
				continue
			}
			addrs := stateAddrs(argsOf(u)[1])
			isUpdate := func(in ssa.Instruction) bool {
				cl, ok := in.(*ssa.Call)
				return ok && calleeName(&cl.Call) == csRecv+"update" && addrs[argsOf(cl)[1]]
			}
			isReload := func(in ssa.Instruction) bool {
				st, ok := in.(*ssa.Store)
				if !ok || !addrs[st.Addr] {
					return false
				}
				cl, ok := strip(st.Val).(*ssa.Call)
				return ok && calleeName(&cl.Call) == csRecv+"load"
			}
			// the failure edge(s) of u
			var starts []walkState
			for _, b := range fn.Blocks {
				ifi, ok := b.Instrs[len(b.Instrs)-1].(*ssa.If)
				if !ok {
					continue
				}
				f := normFact(ifi.Cond, true)
				if f.Cond != ssa.Value(u) {
					continue
				}
				fail := b.Succs[1]
				if !f.Pol {
					fail = b.Succs[0]
				}
				starts = append(starts, walkState{b, fail, 0})
			}
			if len(starts) == 0 {
				continue // the result is not branched on (returned to the caller: checked there)
			}
			n++
			w := walkWithout(starts, isUpdate, isReload)
			where := ""
			if w != nil {
				where = m.Pos(w.Pos())
			}
			r.Check("C03.locking", fmt.Sprintf("%s/update #%d: a failed compare-and-swap is retried only after the state was loaded again", short(refName(fn)), n), m.Pos(u.Pos()), w == nil,
				"after update() fails, the next update() on the same local state is reached without `state = c.state.load()` in between (at "+where+"): the retry compares with a stale value and can spin for ever")
		}
	}
	r.Check("C03.locking", "compare-and-swap retry sites enumerated", "-", n >= 5, fmt.Sprintf("%d", n))
}

// c03LookupTotal: (*file).lookup gives a counter its pointer whenever the file is mapped and the
// record can be made. It may come back empty-handed only when no file is mapped or newCounter
// failed (and it hands newCounter the caller's name unchanged). Add never repeats the lookup:
// a lookup that gives up for any other reason — the file mutex is busy, say — leaves the
// counter marked "has pointer" with none, and every later increment stays in memory.
func c03LookupTotal(c *Ctx, m *Module, rule string) {
	r := c.R
	lk := m.Func("internal/counter", "file.lookup")
	n := 0
	for _, ex := range exitPaths(lk) {
		n++
		v := strip(refine(ex.vals[0], ex.facts))
		// a non-empty result: a struct carrying the mapping and the pointer
		empty := false
		switch x := v.(type) {
		case *ssa.Const:
			empty = true
		case *ssa.UnOp:
			if a, ok := x.X.(*ssa.Alloc); ok {
				if lit, okLit := structLit(a); okLit {
					empty = len(lit) == 0
				} else {
					empty = true
				}
			}
		}
		if !empty {
			continue
		}
		reason := hasFact(ex.facts, func(f Fact) bool {
			bo, ok := f.Cond.(*ssa.BinOp)
			if !ok || !assertsEq(bo, f.Pol) {
				return false
			}
			for _, pair := range [][2]ssa.Value{{bo.X, bo.Y}, {bo.Y, bo.X}} {
				if !isNilConst(pair[1]) {
					continue
				}
				d := describe(pair[0])
				if strings.Contains(d, ".current") && strings.Contains(d, ").Load") {
					return true // no mapped file
				}
				if strings.Contains(d, ").newCounter(") {
					return true // the record could not be made
				}
			}
			return false
		})
		if os.Getenv("VERIF_DEBUG_LOOKUP") != "" {
			fmt.Printf("LOOKUP exit %d val=%s\n", n, describe(v))
			for _, f := range ex.facts {
				fmt.Printf("    %v %s\n", f.Pol, shortDesc(describe(f.Cond)))
			}
		}
		r.Check(rule, fmt.Sprintf("file.lookup/empty result #%d only without a mapped file or a record", n), m.Pos(ex.ret.Pos()), reason,
			"lookup may return no pointer only when f.current is nil or newCounter failed")
	}
	r.Check(rule, "file.lookup/results enumerated", m.Pos(lk.Pos()), n >= 2, fmt.Sprintf("%d", n))
	nc := 0
	for _, cs := range callsIn(lk, "(*internal/counter.file).newCounter") {
		nc++
		r.Check(rule, "file.lookup/the record is made under the caller's name", m.Pos(cs.Pos()), strip(cs.Common().Args[1]) == ssa.Value(lk.Params[1]),
			"newCounter must be given lookup's own name parameter; got "+shortDesc(describeArg(cs, 1)))
	}
	r.Check(rule, "file.lookup/calls newCounter", m.Pos(lk.Pos()), nc == 1, fmt.Sprintf("%d", nc))
}
