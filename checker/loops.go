package main

// E9 loops: every loop must carry a recognised progress measure.

import (
	"fmt"
	"go/token"
	"sort"
	"strings"

	"golang.org/x/tools/go/ssa"
)

type loopInfo struct {
	header  *ssa.BasicBlock
	blocks  map[*ssa.BasicBlock]bool
	latches []*ssa.BasicBlock
}

func naturalLoops(fn *ssa.Function) []*loopInfo {
	byHeader := map[*ssa.BasicBlock]*loopInfo{}
	var order []*ssa.BasicBlock
	for _, b := range fn.Blocks {
		for _, s := range b.Succs {
			if s.Dominates(b) { // back edge b -> s
				li := byHeader[s]
				if li == nil {
					li = &loopInfo{header: s, blocks: map[*ssa.BasicBlock]bool{s: true}}
					byHeader[s] = li
					order = append(order, s)
				}
				li.latches = append(li.latches, b)
				// natural loop: blocks reaching b without passing s
				work := []*ssa.BasicBlock{b}
				for len(work) > 0 {
					x := work[len(work)-1]
					work = work[:len(work)-1]
					if li.blocks[x] {
						continue
					}
					li.blocks[x] = true
					work = append(work, x.Preds...)
				}
			}
		}
	}
	sort.Slice(order, func(i, j int) bool { return order[i].Index < order[j].Index })
	var out []*loopInfo
	for _, h := range order {
		out = append(out, byHeader[h])
	}
	return out
}

// everyIteration: block b is executed on every trip round the loop (dominates all latches).
func (l *loopInfo) everyIteration(b *ssa.BasicBlock) bool {
	if !l.blocks[b] {
		return false
	}
	for _, la := range l.latches {
		if !b.Dominates(la) {
			return false
		}
	}
	return true
}

func (l *loopInfo) invariant(v ssa.Value) bool {
	v = strip(v)
	switch x := v.(type) {
	case *ssa.Const, *ssa.Parameter, *ssa.FreeVar, *ssa.Global, *ssa.Function:
		return true
	case *ssa.Convert:
		return l.invariant(x.X)
	case *ssa.BinOp:
		return l.invariant(x.X) && l.invariant(x.Y)
	case *ssa.Call:
		if calleeName(&x.Call) == "builtin:len" {
			return l.invariant(argsOf(x)[0])
		}
		// pure size queries on a loop-invariant receiver (contract)
		switch calleeName(&x.Call) {
		case "(reflect.Type).NumField", "(reflect.Value).Len", "(reflect.Value).NumField":
			if x.Call.IsInvoke() {
				return l.invariant(x.Call.Value)
			}
			return len(argsOf(x)) == 1 && l.invariant(argsOf(x)[0])
		}
	case *ssa.UnOp:
		// load of a field of an invariant object that the loop does not store to: accept
		// loads through invariant addresses (e.g. len(m.mapping.Data))
		if x.Op == token.MUL {
			if in, ok := x.X.(ssa.Instruction); ok && !l.blocks[in.Block()] {
				return true
			}
			if fa, ok := x.X.(*ssa.FieldAddr); ok {
				return l.invariant(fa.X)
			}
		}
	case *ssa.FieldAddr:
		return l.invariant(x.X)
	}
	if in, ok := v.(ssa.Instruction); ok {
		return !l.blocks[in.Block()]
	}
	return false
}

// induction: v is (phi) or (phi + c) where phi is a header phi whose in-loop edges
// are all phi + positive constant. Returns the phi.
func (l *loopInfo) induction(v ssa.Value) *ssa.Phi {
	v = strip(v)
	if cv, ok := v.(*ssa.Convert); ok {
		v = strip(cv.X)
	}
	if bo, ok := v.(*ssa.BinOp); ok && bo.Op == token.ADD {
		if c, isC := intConst(bo.Y); isC && c >= 0 {
			v = strip(bo.X)
		}
	}
	phi, ok := v.(*ssa.Phi)
	if !ok || phi.Block() != l.header {
		return nil
	}
	for i, e := range phi.Edges {
		pred := l.header.Preds[i]
		if !l.blocks[pred] {
			continue
		}
		if !l.stepsUp(e, phi, 0) {
			return nil
		}
	}
	return phi
}

// stepsUp: the value carried round the loop is phi + c with c > 0; where values are merged on the
// way (an expanded helper that counts and reports through a flag), every incoming value that can
// still reach the header is, and the others belong to paths that leave the loop.
func (l *loopInfo) stepsUp(e ssa.Value, phi *ssa.Phi, depth int) bool {
	e = strip(e)
	if bo, ok := e.(*ssa.BinOp); ok && bo.Op == token.ADD && strip(bo.X) == ssa.Value(phi) {
		c, isC := intConst(bo.Y)
		return isC && c > 0
	}
	m, ok := e.(*ssa.Phi)
	if !ok || depth > 3 || m.Block() == l.header || !l.blocks[m.Block()] {
		return false
	}
	n := 0
	for i, e2 := range m.Edges {
		pred := m.Block().Preds[i]
		if l.landsOutside(pred, m.Block()) {
			continue
		}
		n++
		if !l.stepsUp(e2, phi, depth+1) {
			return false
		}
	}
	return n >= 1
}

// exitsOn: the If at the end of block b leaves the loop on the edge taken when its
// condition has value `val`. ok=false if b does not end in an If with exactly one
// successor outside the loop (a return/panic block counts as outside).
func (l *loopInfo) exitsOn(b *ssa.BasicBlock) (cond ssa.Value, val bool, ok bool) {
	ifi, isIf := b.Instrs[len(b.Instrs)-1].(*ssa.If)
	if !isIf {
		return nil, false, false
	}
	out0, out1 := !l.blocks[b.Succs[0]], !l.blocks[b.Succs[1]]
	if out0 == out1 {
		// the branch may leave the loop a few blocks later: through blocks that only jump, and
		// through a merge block that branches on a flag the arrival edge decides ("ok = false; break"
		// followed by "if !ok { return }" — the shape an expanded helper with a boolean result has)
		out0, out1 = l.landsOutside(b, b.Succs[0]), l.landsOutside(b, b.Succs[1])
		if out0 == out1 {
			return nil, false, false
		}
	}
	return ifi.Cond, out0, true
}

// landsOutside: control that takes the edge pred→b ends up outside the loop without any choice
// being made on the way.
func (l *loopInfo) landsOutside(pred, b *ssa.BasicBlock) bool {
	for n := 0; n < 8; n++ {
		if !l.blocks[b] {
			return true
		}
		if len(b.Instrs) == 0 {
			return false
		}
		onlyJump := true
		for _, in := range b.Instrs {
			switch in.(type) {
			case *ssa.Jump, *ssa.DebugRef:
			default:
				onlyJump = false
			}
		}
		if onlyJump && len(b.Succs) == 1 {
			pred, b = b, b.Succs[0]
			continue
		}
		p2, b2 := threadFrom(pred, b)
		if b2 == b {
			return false
		}
		pred, b = p2, b2
	}
	return !l.blocks[b]
}

type loopClass struct {
	Kind   string // range | counted | visited-set | cas-retry | unbounded
	Detail string
}

func classifyLoop(l *loopInfo) loopClass {
	// range over map/string/channel: Next in the header
	for _, in := range l.header.Instrs {
		if _, ok := in.(*ssa.Next); ok {
			return loopClass{"range", "range iteration (finite collection)"}
		}
	}
	// counted: an every-iteration exit comparing an induction variable with an invariant
	var blocks []*ssa.BasicBlock
	for b := range l.blocks {
		blocks = append(blocks, b)
	}
	sort.Slice(blocks, func(i, j int) bool { return blocks[i].Index < blocks[j].Index })
	for _, b := range blocks {
		cond, val, ok := l.exitsOn(b)
		if !ok || !l.everyIteration(b) {
			continue
		}
		pol := true
		for {
			if u, isU := cond.(*ssa.UnOp); isU && u.Op == token.NOT {
				cond = u.X
				pol = !pol
				continue
			}
			break
		}
		bo, isB := cond.(*ssa.BinOp)
		if !isB {
			continue
		}
		exitWhenTrue := val == pol // exits when the comparison itself is true
		var rel token.Token = bo.Op
		x, y := bo.X, bo.Y
		if l.induction(y) != nil && l.invariant(x) {
			x, y = y, x
			rel = map[token.Token]token.Token{token.LSS: token.GTR, token.LEQ: token.GEQ, token.GTR: token.LSS, token.GEQ: token.LEQ, token.EQL: token.EQL, token.NEQ: token.NEQ}[rel]
		}
		if l.induction(x) == nil || !l.invariant(y) {
			continue
		}
		// increasing x: exits when x > y / x >= y is true, or when x < y / x <= y is false
		if (exitWhenTrue && (rel == token.GTR || rel == token.GEQ)) || (!exitWhenTrue && (rel == token.LSS || rel == token.LEQ)) {
			return loopClass{"counted", fmt.Sprintf("monotone counter %s against loop-invariant bound %s, tested every iteration", describe(x), describe(y))}
		}
	}
	// consuming a string: every iteration cuts the remaining input at a non-empty separator and
	// continues with what follows it; the loop ends when the separator is not found. The
	// remaining input gets strictly shorter (contract of strings.Cut / bytes.Cut: when found,
	// len(after) ≤ len(s) − len(sep)).
	for _, b := range blocks {
		cond, val, ok := l.exitsOn(b)
		if !ok || !l.everyIteration(b) {
			continue
		}
		f := normFact(cond, true)
		found := f.Cond
		exitWhenFoundIs := val == f.Pol
		// a flag carried to the loop test (`for more := true; more; { …, more = Cut(…) }`)
		if phi, isPhi := found.(*ssa.Phi); isPhi && phi.Block() == l.header {
			var carried ssa.Value
			okShape := true
			for i, e := range phi.Edges {
				if l.blocks[l.header.Preds[i]] {
					if carried != nil && carried != e {
						okShape = false
					}
					carried = e
				}
			}
			if okShape && carried != nil {
				found = carried
			}
		}
		ex, isEx := found.(*ssa.Extract)
		if !isEx || ex.Index != 2 || exitWhenFoundIs {
			continue
		}
		cut, isCall := ex.Tuple.(*ssa.Call)
		if !isCall || (calleeName(&cut.Call) != "strings.Cut" && calleeName(&cut.Call) != "bytes.Cut") {
			continue
		}
		sep, isC := constOf(cut.Call.Args[1])
		src, isPhi := strip(cut.Call.Args[0]).(*ssa.Phi)
		if !isC || sep == "" || !isPhi || src.Block() != l.header {
			continue
		}
		okCarry := true
		for i, e := range src.Edges {
			if !l.blocks[l.header.Preds[i]] {
				continue
			}
			after, isEx := e.(*ssa.Extract)
			if !isEx || after.Tuple != ssa.Value(cut) || after.Index != 1 {
				okCarry = false
			}
		}
		if okCarry {
			return loopClass{"consumed", fmt.Sprintf("the input %s is cut at %q every iteration and the loop ends when the separator is missing (strictly shorter remainder)", describe(src), sep)}
		}
	}
	// visited set
	for _, b := range blocks {
		if !l.everyIteration(b) {
			continue
		}
		for _, in := range b.Instrs {
			mu, ok := in.(*ssa.MapUpdate)
			if !ok {
				continue
			}
			// a membership test of the same map with the same key, every iteration, exiting when present
			for _, b2 := range blocks {
				cond, val, ok := l.exitsOn(b2)
				if !ok || !l.everyIteration(b2) || !val {
					continue
				}
				lk := membershipTest(cond)
				if lk == nil {
					continue
				}
				sameMap := strip(lk.X) == strip(mu.Map) || describe(lk.X) == describe(mu.Map)
				sameKey := strip(lk.Index) == strip(mu.Key) || sameConversionOf(lk.Index, mu.Key)
				if sameMap && sameKey {
					return loopClass{"visited-set", "map " + describe(mu.Map) + " tested and inserted with the same key every iteration; revisiting exits"}
				}
				if sameMap && !sameKey {
					return loopClass{"unbounded", "visited-set test and insertion use different keys: tested " + describe(lk.Index) + ", inserted " + describe(mu.Key)}
				}
			}
		}
	}
	// CAS retry
	for _, b := range blocks {
		cond, val, ok := l.exitsOn(b)
		if !ok {
			continue
		}
		c := cond
		pol := true
		for {
			if u, isU := c.(*ssa.UnOp); isU && u.Op == token.NOT {
				c = u.X
				pol = !pol
				continue
			}
			break
		}
		if cl, isC := c.(*ssa.Call); isC && isCASCall(calleeName(&cl.Call)) && val == pol {
			return loopClass{"cas-retry", "exits when " + calleeName(&cl.Call) + " succeeds (failure means another thread made progress)"}
		}
	}
	// loops whose every exit is a return inside: look for CAS-success returns
	for _, b := range blocks {
		for _, in := range b.Instrs {
			if cl, ok := in.(*ssa.Call); ok && isCASCall(calleeName(&cl.Call)) {
				for _, succ := range branchSucc(cl, true) {
					if !l.blocks[succ] || returnBlock(succ) != nil {
						return loopClass{"cas-retry", "leaves the loop when " + calleeName(&cl.Call) + " succeeds"}
					}
				}
			}
		}
	}
	return loopClass{"unbounded", "no recognised progress measure (not a range, no every-iteration counter test, no visited set, no CAS-retry exit)"}
}

func isCASCall(n string) bool {
	return strings.Contains(n, ").CompareAndSwap") || n == "(*internal/counter.counterState).update" || n == "(*internal/counter.mappedFile).cas32" ||
		strings.HasPrefix(n, "sync/atomic.CompareAndSwap")
}

// membershipTest: cond is m[k] (bool map) or the ok of a comma-ok lookup.
func membershipTest(cond ssa.Value) *ssa.Lookup {
	cond = strip(cond)
	if l, ok := cond.(*ssa.Lookup); ok && !l.CommaOk {
		return l
	}
	if e, ok := cond.(*ssa.Extract); ok && e.Index == 1 {
		if l, ok := e.Tuple.(*ssa.Lookup); ok && l.CommaOk {
			return l
		}
	}
	return nil
}

// sameConversionOf: both are conversions (e.g. string(b)) of the same underlying value.
func sameConversionOf(a, b ssa.Value) bool {
	ca, ok1 := strip(a).(*ssa.Convert)
	cb, ok2 := strip(b).(*ssa.Convert)
	return ok1 && ok2 && strip(ca.X) == strip(cb.X)
}

// loopObligations classifies every loop of fn; unbounded loops fail unless tabled.
func loopObligations(r *Report, m *Module, rule string, fn *ssa.Function, table map[string]string) int {
	n := 0
	for _, l := range naturalLoops(fn) {
		n++
		cl := classifyLoop(l)
		what := loopName(l)
		key := fname(fn) + "/" + what
		if cl.Kind == "unbounded" {
			if reason, ok := table[key]; ok {
				r.Check(rule, key, m.Pos(loopPos(l)), true, "tabled exception: "+reason)
				continue
			}
		}
		r.Check(rule, key, m.Pos(loopPos(l)), cl.Kind != "unbounded", cl.Kind+": "+cl.Detail)
	}
	return n
}

// loopName gives a position-free name: the kind of header plus the shape of its
// continuation condition.
func loopName(l *loopInfo) string {
	for _, in := range l.header.Instrs {
		if nx, ok := in.(*ssa.Next); ok {
			if rg, ok := nx.Iter.(*ssa.Range); ok {
				return "range " + shortDesc(describe(rg.X))
			}
		}
	}
	if cond, _, ok := l.exitsOn(l.header); ok {
		// `for more := true; more; { …; more = next() }` is the do-while `for { …; if !next() { break } }`:
		// a header test on a flag that carries the previous iteration's value exits on that value
		if phi, isPhi := normFact(cond, true).Cond.(*ssa.Phi); isPhi && phi.Block() == l.header {
			var carried ssa.Value
			okShape := true
			for i, e := range phi.Edges {
				_, isConst := e.(*ssa.Const)
				if l.blocks[l.header.Preds[i]] {
					if isConst || (carried != nil && carried != e) {
						okShape = false
					}
					carried = e
				} else if !isConst {
					okShape = false
				}
			}
			if okShape && carried != nil {
				return "loop exiting on " + shortDesc(stripNames(describe(carried)))
			}
		}
		return "loop while " + shortDesc(stripNames(describe(cond)))
	}
	// first exit condition
	var blocks []*ssa.BasicBlock
	for b := range l.blocks {
		blocks = append(blocks, b)
	}
	sort.Slice(blocks, func(i, j int) bool { return blocks[i].Index < blocks[j].Index })
	for _, b := range blocks {
		if cond, _, ok := l.exitsOn(b); ok {
			return "loop exiting on " + shortDesc(stripNames(describe(cond)))
		}
	}
	return "loop without conditional exit"
}

// stripNames removes SSA register names from phi descriptions so that keys do not
// depend on instruction numbering.
func stripNames(s string) string {
	out := s
	for {
		i := strings.Index(out, "phi:t")
		if i < 0 {
			break
		}
		j := i + 5
		for j < len(out) && out[j] >= '0' && out[j] <= '9' {
			j++
		}
		k := j
		if k < len(out) && out[k] == '@' {
			for k < len(out) && out[k] != ' ' && out[k] != ')' && out[k] != ',' && out[k] != ']' {
				k++
			}
		}
		out = out[:i] + "phi" + out[k:]
	}
	return out
}

func loopPos(l *loopInfo) token.Pos {
	for _, in := range l.header.Instrs {
		if in.Pos().IsValid() {
			return in.Pos()
		}
	}
	for b := range l.blocks {
		for _, in := range b.Instrs {
			if in.Pos().IsValid() {
				return in.Pos()
			}
		}
	}
	return token.NoPos
}
