package main

// A tiny abstract evaluator for pure integer SSA expressions over finite input
// domains: used to enumerate, e.g., all 49 (weekend, weekday) pairs of the span
// computation. It interprets the IR of the expression (constants, + - * % / &,
// conversions with the target type's width, comparisons, and phis whose incoming
// edge is decided by evaluating the branch conditions between the phi's immediate
// dominator and its block). Nothing from /repo is executed.

import (
	"fmt"
	"go/token"
	"go/types"

	"golang.org/x/tools/go/ssa"
)

type evalEnv map[ssa.Value]int64

type evalError struct{ msg string }

func evalInt(v ssa.Value, env evalEnv) (res int64, err error) {
	defer func() {
		if e := recover(); e != nil {
			if ee, ok := e.(evalError); ok {
				err = fmt.Errorf("%s", ee.msg)
				return
			}
			panic(e)
		}
	}()
	return eval1(v, env, 0), nil
}

func wrapTo(t types.Type, n int64) int64 {
	b, ok := t.Underlying().(*types.Basic)
	if !ok {
		return n
	}
	switch b.Kind() {
	case types.Uint8:
		return int64(uint8(n))
	case types.Int8:
		return int64(int8(n))
	case types.Uint16:
		return int64(uint16(n))
	case types.Int16:
		return int64(int16(n))
	case types.Uint32:
		return int64(uint32(n))
	case types.Int32:
		return int64(int32(n))
	}
	return n
}

func eval1(v ssa.Value, env evalEnv, depth int) int64 {
	if depth > 200 {
		panic(evalError{"expression too deep"})
	}
	if n, ok := env[v]; ok {
		return n
	}
	switch x := v.(type) {
	case *ssa.Const:
		if n, ok := intConst(x); ok {
			return n
		}
	case *ssa.Convert:
		return wrapTo(x.Type(), eval1(x.X, env, depth+1))
	case *ssa.ChangeType:
		return eval1(x.X, env, depth+1)
	case *ssa.BinOp:
		a, b := eval1(x.X, env, depth+1), eval1(x.Y, env, depth+1)
		var r int64
		switch x.Op {
		case token.ADD:
			r = a + b
		case token.SUB:
			r = a - b
		case token.MUL:
			r = a * b
		case token.REM:
			if b == 0 {
				panic(evalError{"division by zero"})
			}
			r = a % b
		case token.QUO:
			if b == 0 {
				panic(evalError{"division by zero"})
			}
			r = a / b
		case token.AND:
			r = a & b
		case token.OR:
			r = a | b
		case token.XOR:
			r = a ^ b
		case token.SHL:
			r = a << uint(b)
		case token.SHR:
			r = int64(uint64(a) >> uint(b))
			if !isUnsigned(x.Type()) {
				r = a >> uint(b)
			}
		case token.AND_NOT:
			r = a &^ b
		case token.LSS:
			return b2i(a < b)
		case token.LEQ:
			return b2i(a <= b)
		case token.GTR:
			return b2i(a > b)
		case token.GEQ:
			return b2i(a >= b)
		case token.EQL:
			return b2i(a == b)
		case token.NEQ:
			return b2i(a != b)
		default:
			panic(evalError{"unsupported operator " + x.Op.String()})
		}
		return wrapTo(x.Type(), r)
	case *ssa.UnOp:
		if x.Op == token.NOT {
			return 1 - eval1(x.X, env, depth+1)
		}
		if x.Op == token.SUB {
			return wrapTo(x.Type(), -eval1(x.X, env, depth+1))
		}
	case *ssa.Phi:
		// decide the incoming edge by walking from the immediate dominator
		b := x.Block()
		cur := b.Idom()
		if cur == nil {
			panic(evalError{"phi in entry block"})
		}
		var prev *ssa.BasicBlock
		for steps := 0; cur != b; steps++ {
			if steps > 64 {
				panic(evalError{"phi path too long"})
			}
			prev = cur
			last := cur.Instrs[len(cur.Instrs)-1]
			switch t := last.(type) {
			case *ssa.If:
				if eval1(t.Cond, env, depth+1) != 0 {
					cur = cur.Succs[0]
				} else {
					cur = cur.Succs[1]
				}
			case *ssa.Jump:
				cur = cur.Succs[0]
			default:
				panic(evalError{"phi path leaves the function"})
			}
		}
		for i, p := range b.Preds {
			if p == prev {
				return eval1(x.Edges[i], env, depth+1)
			}
		}
		panic(evalError{"phi predecessor not found"})
	}
	panic(evalError{"unsupported value " + describe(v)})
}

func b2i(b bool) int64 {
	if b {
		return 1
	}
	return 0
}
