package main

// Book-keeping state. A new package-level variable, or a new field of a reference type, that the
// program only ever *updates* — a tally, a last-error slot, a time stamp, a high-water mark — and
// that is read back only by functions nothing in the module calls (a new accessor, a debug
// dump) cannot change what the existing code computes. tallyOnly decides that shape; the
// inventory (inventory.go) does not report such state.
//
// Every use of the state's address, in every function of the module that is reachable (see
// unreferencedNewFuncs), must be one of
//   - a store of any value into it (or into a field/element of it);
//   - Lock/Unlock/RLock/RUnlock of a sync mutex inside it, Add/Store of a sync/atomic value
//     inside it (or atomic.AddT/StoreT on its address) whose result is not used;
//   - a load whose value flows, through arithmetic without division and conversions, only into
//     stores into the state itself (x++, x += n, x = max-so-far), or into the condition of an
//     "if" whose guarded block consists of such updates only (if n > hw { hw = n }).
// Anything else — the value reaches a call, a return, another variable, a map, a branch that
// guards other code; the address is passed on — and the state is not book-keeping.
//
// Not covered (reported as new state): maps (a nil map panics on update), compare-and-swap
// loops, channels, state read by reachable code for any purpose.

import (
	"go/token"
	"go/types"
	"strings"

	"golang.org/x/tools/go/ssa"
)

var unrefMemoProg *ssa.Program
var unrefMemo map[*ssa.Function]bool

// unreferencedNewFuncs: top-level functions the reference tree does not have and that no
// instruction of the module mentions (no call, no method value, no closure), other than
// methods that fmt, encoding or errors would find by name.
func unreferencedNewFuncs(prog *ssa.Program) map[*ssa.Function]bool {
	if unrefMemoProg == prog {
		return unrefMemo
	}
	mentioned := map[*ssa.Function]bool{}
	fns := moduleFuncsOf(prog)
	for _, f := range fns {
		for _, b := range f.Blocks {
			for _, in := range b.Instrs {
				for _, op := range in.Operands(nil) {
					if op == nil || *op == nil {
						continue
					}
					if g, ok := (*op).(*ssa.Function); ok {
						if g.Origin() != nil {
							g = g.Origin()
						}
						mentioned[g] = true
					}
				}
			}
		}
	}
	res := map[*ssa.Function]bool{}
	for _, f := range fns {
		if f.Parent() != nil || f.Synthetic != "" || mentioned[f] || f.Pkg == nil {
			continue
		}
		if fd, ok := f.Syntax().(interface{ Pos() token.Pos }); !ok || fd == nil {
			continue
		}
		switch f.Name() {
		case "String", "Error", "Format", "GoString", "MarshalJSON", "MarshalText", "UnmarshalJSON", "UnmarshalText", "init", "main":
			continue
		}
		if strings.HasPrefix(f.Name(), "init#") {
			continue
		}
		if baselineFuncs[funcKeyOfSSA(f)] {
			continue
		}
		res[f] = true
	}
	unrefMemoProg, unrefMemo = prog, res
	return res
}

// funcKeyOfSSA: the baseline key of a declared function ("<pkg>.<name>" or "<pkg>.<Recv>.<name>").
func funcKeyOfSSA(f *ssa.Function) string {
	pkg := f.Pkg.Pkg.Path()
	if recv := f.Signature.Recv(); recv != nil {
		t := recv.Type()
		if p, ok := t.(*types.Pointer); ok {
			t = p.Elem()
		}
		if n, ok := t.(*types.Named); ok {
			return pkg + "." + n.Obj().Name() + "." + f.Name()
		}
	}
	return pkg + "." + f.Name()
}

type tallyCheck struct {
	isRoot func(v ssa.Value) bool // the state's own address (a Global, or a FieldAddr of the new field)
	why    string
}

// sameLoc: two address expressions denote the same location of the state.
func (t *tallyCheck) sameLoc(a, b ssa.Value) bool {
	if a == b {
		return true
	}
	switch x := a.(type) {
	case *ssa.Global:
		return false
	case *ssa.FieldAddr:
		y, ok := b.(*ssa.FieldAddr)
		return ok && x.Field == y.Field && (t.sameLoc(x.X, y.X) || sameValue(x.X, y.X))
	case *ssa.IndexAddr:
		y, ok := b.(*ssa.IndexAddr)
		return ok && sameValue(x.Index, y.Index) && (t.sameLoc(x.X, y.X) || sameValue(x.X, y.X))
	}
	return false
}

func sameValue(a, b ssa.Value) bool {
	if a == b {
		return true
	}
	if ca, ok := a.(*ssa.Const); ok {
		if cb, ok := b.(*ssa.Const); ok {
			return ca.Value != nil && cb.Value != nil && ca.Value.ExactString() == cb.Value.ExactString()
		}
	}
	// two loads of the same (unchanging within the function) address expression: p.f and p.f
	if la, ok := a.(*ssa.UnOp); ok && la.Op == token.MUL {
		if lb, ok := b.(*ssa.UnOp); ok && lb.Op == token.MUL {
			if _, isAlloc := la.X.(*ssa.Alloc); isAlloc {
				return la.X == lb.X
			}
		}
	}
	return false
}

// inState: addr is the state's address or an address derived from it.
func (t *tallyCheck) inState(addr ssa.Value) bool {
	for i := 0; i < 8; i++ {
		if t.isRoot(addr) {
			return true
		}
		switch x := addr.(type) {
		case *ssa.FieldAddr:
			addr = x.X
		case *ssa.IndexAddr:
			addr = x.X
		default:
			return false
		}
	}
	return false
}

var tallyMethods = map[string]bool{
	"(*sync.Mutex).Lock": true, "(*sync.Mutex).Unlock": true,
	"(*sync.RWMutex).Lock": true, "(*sync.RWMutex).Unlock": true, "(*sync.RWMutex).RLock": true, "(*sync.RWMutex).RUnlock": true,
	"(*sync/atomic.Int32).Add": true, "(*sync/atomic.Int64).Add": true, "(*sync/atomic.Uint32).Add": true, "(*sync/atomic.Uint64).Add": true,
	"(*sync/atomic.Int32).Store": true, "(*sync/atomic.Int64).Store": true, "(*sync/atomic.Uint32).Store": true, "(*sync/atomic.Uint64).Store": true,
	"(*sync/atomic.Bool).Store": true, "(*sync/atomic.Value).Store": true, "(*sync/atomic.Uintptr).Store": true, "(*sync/atomic.Uintptr).Add": true,
	"sync/atomic.AddInt32": true, "sync/atomic.AddInt64": true, "sync/atomic.AddUint32": true, "sync/atomic.AddUint64": true,
	"sync/atomic.StoreInt32": true, "sync/atomic.StoreInt64": true, "sync/atomic.StoreUint32": true, "sync/atomic.StoreUint64": true,
}

func (t *tallyCheck) fail(in ssa.Instruction, what string) bool {
	if t.why == "" {
		t.why = what + " in " + fname(in.Parent()) + ": " + in.String()
	}
	return false
}

// addrUsesOK: every use of an address inside the state is an update.
func (t *tallyCheck) addrUsesOK(addr ssa.Value, users []ssa.Instruction) bool {
	for _, r := range users {
		switch x := r.(type) {
		case *ssa.DebugRef:
		case *ssa.Store:
			if x.Addr != addr {
				return t.fail(r, "the address is stored somewhere")
			}
		case *ssa.FieldAddr:
			if !t.addrUsesOK(x, referrers(x)) {
				return false
			}
		case *ssa.IndexAddr:
			if x.X != addr {
				return t.fail(r, "used as an index")
			}
			if !t.addrUsesOK(x, referrers(x)) {
				return false
			}
		case *ssa.UnOp:
			if x.Op != token.MUL {
				return t.fail(r, "unexpected use")
			}
			if !t.loadUsesOK(x, addr) {
				return false
			}
		case ssa.CallInstruction:
			c := x.Common()
			name := calleeName(c)
			if i := strings.Index(name, "["); i >= 0 { // generic instance: (*atomic.Pointer[T]).Store
				name = name[:i] + name[strings.Index(name, "]")+1:]
			}
			ok := (tallyMethods[name] || name == "(*sync/atomic.Pointer).Store") && len(c.Args) > 0 && c.Args[0] == addr
			for _, a := range c.Args[1:] {
				if a == addr {
					ok = false
				}
			}
			if !ok {
				return t.fail(r, "passed to "+name)
			}
			if v, isVal := r.(ssa.Value); isVal && len(referrers(v)) > 0 {
				return t.fail(r, "result of "+name+" is used")
			}
		default:
			return t.fail(r, "unexpected use of the address")
		}
	}
	return true
}

// loadUsesOK: a value loaded from the state flows back into the state only.
func (t *tallyCheck) loadUsesOK(ld *ssa.UnOp, addr ssa.Value) bool {
	if _, isPtr := ld.Type().Underlying().(*types.Pointer); isPtr {
		// the state is a pointer to the record: what it points to is state as well
		return t.addrUsesOK(ld, referrers(ld))
	}
	switch ld.Type().Underlying().(type) {
	case *types.Map, *types.Chan, *types.Slice, *types.Interface, *types.Signature:
		return t.fail(ld, "a map, slice, channel, interface or function value is read")
	}
	seen := map[ssa.Value]bool{}
	var flow func(v ssa.Value) bool
	flow = func(v ssa.Value) bool {
		if seen[v] {
			return true
		}
		seen[v] = true
		for _, u := range referrers(v) {
			switch x := u.(type) {
			case *ssa.DebugRef:
			case *ssa.BinOp:
				switch x.Op {
				case token.QUO, token.REM, token.SHL, token.SHR:
					return t.fail(u, "division or shift of a read value")
				case token.EQL, token.NEQ, token.LSS, token.LEQ, token.GTR, token.GEQ:
					if !t.guardOK(x) {
						return false
					}
				default:
					if !flow(x) {
						return false
					}
				}
			case *ssa.Convert:
				if !flow(x) {
					return false
				}
			case *ssa.ChangeType:
				if !flow(x) {
					return false
				}
			case *ssa.Phi:
				if !flow(x) {
					return false
				}
			case *ssa.Store:
				if x.Val != v || !t.inState(x.Addr) {
					return t.fail(u, "a read value is stored outside the state")
				}
			default:
				return t.fail(u, "a read value is used")
			}
		}
		return true
	}
	return flow(ld)
}

// guardOK: a comparison of a read value decides only whether the state is updated:
// if cmp { <updates of the state only> } with no else.
func (t *tallyCheck) guardOK(cmp *ssa.BinOp) bool {
	for _, u := range referrers(cmp) {
		iff, ok := u.(*ssa.If)
		if !ok {
			if _, dbg := u.(*ssa.DebugRef); dbg {
				continue
			}
			return t.fail(u, "a comparison with a read value is used")
		}
		b := iff.Block()
		okShape := false
		for i := 0; i < 2; i++ {
			then, other := b.Succs[i], b.Succs[1-i]
			if len(then.Preds) == 1 && len(then.Succs) == 1 && then.Succs[0] == other && t.updatesOnly(then) {
				okShape = true
			}
		}
		if !okShape {
			return t.fail(u, "a read value decides a branch that does more than update the state")
		}
	}
	return true
}

func (t *tallyCheck) updatesOnly(b *ssa.BasicBlock) bool {
	for _, in := range b.Instrs {
		switch x := in.(type) {
		case *ssa.Jump, *ssa.DebugRef, *ssa.BinOp, *ssa.Convert, *ssa.ChangeType:
		case *ssa.FieldAddr:
			if !t.inState(x) {
				return false
			}
		case *ssa.IndexAddr:
			if !t.inState(x) {
				return false
			}
		case *ssa.UnOp:
			if x.Op == token.MUL && !t.inState(x.X) {
				// loads of other locations are harmless (no effect), as long as they cannot fault:
				// only loads through addresses of locals and parameters' fields already loaded elsewhere
				if _, isAlloc := x.X.(*ssa.Alloc); !isAlloc {
					return false
				}
			}
		case *ssa.Store:
			if !t.inState(x.Addr) {
				return false
			}
		default:
			return false
		}
	}
	return true
}

// tallyOnlyGlobal: the package-level variable g is book-keeping state.
func tallyOnlyGlobal(prog *ssa.Program, g *ssa.Global) (bool, string) {
	switch g.Type().(*types.Pointer).Elem().Underlying().(type) {
	case *types.Map, *types.Chan, *types.Slice, *types.Interface, *types.Signature:
		return false, "a map, slice, channel, interface or function variable"
	}
	t := &tallyCheck{isRoot: func(v ssa.Value) bool { return v == ssa.Value(g) }}
	skip := unreferencedNewFuncs(prog)
	for _, f := range moduleFuncsOf(prog) {
		top := f
		for top.Parent() != nil {
			top = top.Parent()
		}
		if skip[top] {
			continue
		}
		var users []ssa.Instruction
		for _, b := range f.Blocks {
			for _, in := range b.Instrs {
				for _, op := range in.Operands(nil) {
					if op != nil && *op == ssa.Value(g) {
						users = append(users, in)
						break
					}
				}
			}
		}
		if !t.addrUsesOK(g, users) {
			return false, t.why
		}
	}
	return true, ""
}

// tallyOnlyField: field idx of the struct type behind fa is book-keeping state.
func tallyOnlyField(prog *ssa.Program, fa *ssa.FieldAddr) (bool, string) {
	xt := fa.X.Type()
	t := &tallyCheck{}
	t.isRoot = func(v ssa.Value) bool {
		x, ok := v.(*ssa.FieldAddr)
		return ok && x.Field == fa.Field && types.Identical(x.X.Type(), xt)
	}
	pt, ok := xt.Underlying().(*types.Pointer)
	if !ok {
		return false, "not a pointer to a struct"
	}
	skip := unreferencedNewFuncs(prog)
	for _, f := range moduleFuncsOf(prog) {
		top := f
		for top.Parent() != nil {
			top = top.Parent()
		}
		if skip[top] {
			continue
		}
		for _, b := range f.Blocks {
			for _, in := range b.Instrs {
				switch x := in.(type) {
				case *ssa.FieldAddr:
					if t.isRoot(x) {
						if st, ok := pt.Elem().Underlying().(*types.Struct); ok {
							switch st.Field(fa.Field).Type().Underlying().(type) {
							case *types.Map, *types.Chan, *types.Slice, *types.Interface, *types.Signature:
								return false, "a map, slice, channel, interface or function field"
							}
						}
						if !t.addrUsesOK(x, referrers(x)) {
							return false, t.why
						}
					}
				case *ssa.Field:
					if x.Field == fa.Field && types.Identical(x.X.Type(), pt.Elem()) {
						return false, "the field is read from a copy of the struct in " + fname(f)
					}
				}
			}
		}
	}
	return true, ""
}
