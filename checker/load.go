package main

// E1/E2: loading /repo's two modules into type-checked syntax + go/ssa, and
// resolving anchors. Nothing from /repo is executed.

import (
	"fmt"
	"go/ast"
	"go/token"
	"go/types"
	"os"
	"sort"
	"strings"

	"golang.org/x/tools/go/callgraph"
	"golang.org/x/tools/go/callgraph/cha"
	"golang.org/x/tools/go/callgraph/vta"
	"golang.org/x/tools/go/packages"
	"golang.org/x/tools/go/ssa"
	"golang.org/x/tools/go/ssa/ssautil"
)

const modPath = "golang.org/x/telemetry"

// infraError is panicked for infrastructure failures (exit 2, no verdict).
type infraError struct{ msg string }

func infra(format string, args ...any) {
	panic(infraError{fmt.Sprintf(format, args...)})
}

type Module struct {
	Name    string // "root" or "godev"
	Dir     string
	GOOS    string
	GOARCH  string
	Pkgs    []*packages.Package
	Prog    *ssa.Program
	SSAPkgs []*ssa.Package
	byPath  map[string]*ssa.Package
	pkgBy   map[string]*packages.Package
	cg      *callgraph.Graph
	allFns  map[*ssa.Function]bool
	srcFns  []*ssa.Function // functions with bodies from the module's own packages (incl. closures)
	Inline  inlineStats     // E14: new helper functions expanded into their callers
}

func loadModule(name, dir, goos, goarch string, minPkgs int) *Module {
	env := append(os.Environ(),
		"GOFLAGS=-mod=mod", "GOPROXY=off", "GOSUMDB=off", "GOTOOLCHAIN=local", "GOWORK=off",
		"CGO_ENABLED=0",
	)
	if goos != "" {
		env = append(env, "GOOS="+goos, "GOARCH="+goarch)
	}
	cfg := &packages.Config{
		Mode:  packages.LoadSyntax | packages.NeedModule,
		Dir:   dir,
		Env:   env,
		Tests: false,
	}
	pkgs, err := packages.Load(cfg, "./...")
	if err != nil {
		infra("load %s: %v", dir, err)
	}
	var errs []string
	packages.Visit(pkgs, nil, func(p *packages.Package) {
		for _, e := range p.Errors {
			errs = append(errs, e.Error())
		}
	})
	if len(errs) > 0 {
		infra("load %s: %d package errors, first: %s", dir, len(errs), errs[0])
	}
	if len(pkgs) < minPkgs {
		infra("load %s: only %d packages (floor %d)", dir, len(pkgs), minPkgs)
	}
	// E14: expand calls to functions that do not exist in the reference tree (inline.go)
	var ist inlineStats
	if dn := detectDeclRenames(pkgs, dir); len(dn) > 0 {
		ist.Renamed = append(ist.Renamed, dn...)
		fmt.Printf("normalisation (%s): renamed declarations recognised: %v\n", name, dn)
	}
	if rn := detectRenames(pkgs, dir); len(rn) > 0 {
		ist.Renamed = rn
		fmt.Printf("normalisation (%s): renamed reference functions recognised by receiver, parameter types and body: %v\n", name, rn)
	}
	if os.Getenv("VERIF_NOINLINE") == "" {
		overlay := map[string][]byte{}
		// locals that hide the name of a new type are renamed first (inline.go, unshadowRound)
		if ch, notes := unshadowRound(pkgs, dir, overlay); ch {
			cfg2 := *cfg
			cfg2.Overlay = overlay
			pkgs2, err := packages.Load(&cfg2, "./...")
			okLoad := err == nil && len(pkgs2) == len(pkgs)
			if okLoad {
				packages.Visit(pkgs2, nil, func(p *packages.Package) {
					if len(p.Errors) > 0 {
						okLoad = false
					}
				})
			}
			if okLoad {
				pkgs = pkgs2
				fmt.Printf("normalisation (%s): locals that hide the name of a new type renamed: %v\n", name, notes)
			} else {
				overlay = map[string][]byte{}
			}
		}
		for round := 1; round <= 4; round++ {
			next := map[string][]byte{}
			for k, v := range overlay {
				next[k] = v
			}
			if !inlineRound(pkgs, dir, round, next, &ist) {
				break
			}
			cfg2 := *cfg
			cfg2.Overlay = next
			pkgs2, err := packages.Load(&cfg2, "./...")
			firstErr := ""
			if err != nil {
				firstErr = err.Error()
			} else {
				packages.Visit(pkgs2, nil, func(p *packages.Package) {
					for _, e := range p.Errors {
						if firstErr == "" {
							firstErr = e.Error()
						}
					}
				})
			}
			if firstErr != "" || len(pkgs2) != len(pkgs) {
				ist.Note += fmt.Sprintf("round %d did not type-check (%s); kept the previous round; ", round, firstErr)
				if os.Getenv("VERIF_INLINE_DEBUG") != "" {
					for k, v := range next {
						os.WriteFile("/tmp/inline_debug_"+strings.ReplaceAll(strings.TrimPrefix(k, dir+"/"), "/", "_"), v, 0o644)
					}
				}
				break
			}
			pkgs, overlay = pkgs2, next
			ist.Rounds = round
		}
		// second stage: new struct types whose methods were expanded become local variables again
		if len(overlay) > 0 && os.Getenv("VERIF_NOSROA") == "" {
			for pass := 0; pass < 2; pass++ {
				next := map[string][]byte{}
				for k, v := range overlay {
					next[k] = v
				}
				var trial inlineStats
				if !sroaRound(pkgs, dir, next, &trial) {
					break
				}
				cfg2 := *cfg
				cfg2.Overlay = next
				pkgs2, err := packages.Load(&cfg2, "./...")
				firstErr := ""
				if err != nil {
					firstErr = err.Error()
				} else {
					packages.Visit(pkgs2, nil, func(p *packages.Package) {
						for _, e := range p.Errors {
							if firstErr == "" {
								firstErr = e.Error()
							}
						}
					})
				}
				if firstErr != "" || len(pkgs2) != len(pkgs) {
					ist.Note += fmt.Sprintf("scalar replacement did not type-check (%s); dropped; ", firstErr)
					if os.Getenv("VERIF_INLINE_DEBUG") != "" {
						for k, v := range next {
							os.WriteFile("/tmp/sroa_debug_"+strings.ReplaceAll(strings.TrimPrefix(k, dir+"/"), "/", "_"), v, 0o644)
						}
					}
					break
				}
				pkgs, overlay = pkgs2, next
				ist.Scalarised = append(ist.Scalarised, trial.Scalarised...)
				ist.Note += trial.Note
			}
		}
		if os.Getenv("VERIF_INLINE_DEBUG") == "2" {
			for k, v := range overlay {
				os.WriteFile("/tmp/inline_final_"+strings.ReplaceAll(strings.TrimPrefix(k, dir+"/"), "/", "_"), v, 0o644)
			}
		}
		if ist.Sites > 0 || ist.Note != "" {
			fmt.Printf("normalisation (%s): %d call site(s) of new helper(s) %v expanded in %d round(s); left as calls: %v; structs turned into locals: %v %s\n", name, ist.Sites, ist.Helpers, ist.Rounds, ist.Left, ist.Scalarised, ist.Note)
		}
	}
	prog, spkgs := ssautil.Packages(pkgs, ssa.InstantiateGenerics)
	prog.Build()
	m := &Module{Name: name, Dir: dir, GOOS: goos, GOARCH: goarch, Pkgs: pkgs, Prog: prog, SSAPkgs: spkgs, Inline: ist,
		byPath: map[string]*ssa.Package{}, pkgBy: map[string]*packages.Package{}}
	for i, p := range pkgs {
		if spkgs[i] == nil {
			infra("no SSA package for %s", p.PkgPath)
		}
		m.byPath[p.PkgPath] = spkgs[i]
		m.pkgBy[p.PkgPath] = p
	}
	m.allFns = ssautil.AllFunctions(prog)
	for fn := range m.allFns {
		if fn.Blocks != nil && fn.Pkg != nil && m.byPath[fn.Pkg.Pkg.Path()] == fn.Pkg {
			m.srcFns = append(m.srcFns, fn)
		} else if fn.Blocks != nil && fn.Pkg == nil && fn.Origin() != nil && fn.Origin().Pkg != nil && m.byPath[fn.Origin().Pkg.Pkg.Path()] != nil {
			m.srcFns = append(m.srcFns, fn) // generic instantiation
		}
	}
	sort.Slice(m.srcFns, func(i, j int) bool { return m.srcFns[i].String() < m.srcFns[j].String() })
	return m
}

// CG returns the VTA-refined call graph (built lazily).
func (m *Module) CG() *callgraph.Graph {
	if m.cg == nil {
		m.cg = vta.CallGraph(m.allFns, cha.CallGraph(m.Prog))
	}
	return m.cg
}

// Pkg resolves a package by path relative to the module path ("" = the module root package).
func (m *Module) Pkg(rel string) *ssa.Package {
	p := m.byPath[m.full(rel)]
	if p == nil {
		infra("UNRESOLVED anchor package %q in module %s", rel, m.Name)
	}
	return p
}

func (m *Module) full(rel string) string {
	base := modPath
	if m.Name == "godev" {
		base = modPath + "/godev"
	}
	if rel == "" || rel == "." {
		return base
	}
	return base + "/" + rel
}

// TPkg returns the go/packages package (syntax, types info).
func (m *Module) TPkg(rel string) *packages.Package {
	p := m.pkgBy[m.full(rel)]
	if p == nil {
		infra("UNRESOLVED anchor package %q in module %s", rel, m.Name)
	}
	return p
}

// Func resolves an anchor. spec is "name", "T.name" (value or pointer receiver) or
// "name$1" / "T.name$2" for the n-th anonymous function.
func (m *Module) Func(pkg, spec string) *ssa.Function {
	fn := m.FuncOpt(pkg, spec)
	if fn == nil {
		infra("UNRESOLVED anchor %s:%s (module %s)", pkg, spec, m.Name)
	}
	return fn
}

func (m *Module) FuncOpt(pkg, spec string) *ssa.Function {
	p := m.byPath[m.full(pkg)]
	if p == nil {
		return nil
	}
	// a reference function that was renamed (inline.go, detectRenames)
	{
		base, anonSfx := spec, ""
		if i := strings.Index(spec, "$"); i >= 0 {
			base, anonSfx = spec[:i], spec[i:]
		}
		if nn, ok := renameOldToNew[m.full(pkg)+"."+base]; ok {
			if i := strings.LastIndex(base, "."); i >= 0 {
				spec = base[:i+1] + nn + anonSfx
			} else {
				spec = nn + anonSfx
			}
		}
	}
	anon := ""
	if i := strings.Index(spec, "$"); i >= 0 {
		anon = spec[i:]
		spec = spec[:i]
	}
	var fn *ssa.Function
	if i := strings.Index(spec, "."); i >= 0 {
		tname, mname := spec[:i], spec[i+1:]
		obj := p.Pkg.Scope().Lookup(tname)
		if obj == nil {
			if nn, ok := newType[m.full(pkg)+"."+tname]; ok {
				obj = p.Pkg.Scope().Lookup(nn)
			}
		}
		if obj == nil {
			return nil
		}
		tn, ok := obj.(*types.TypeName)
		if !ok {
			return nil
		}
		for _, t := range []types.Type{tn.Type(), types.NewPointer(tn.Type())} {
			ms := m.Prog.MethodSets.MethodSet(t)
			for i := 0; i < ms.Len(); i++ {
				sel := ms.At(i)
				if sel.Obj().Name() == mname && sel.Obj().Pkg() == p.Pkg {
					f := m.Prog.MethodValue(sel)
					if f != nil && f.Synthetic == "" {
						fn = f
					} else if f != nil && fn == nil {
						// wrapper: find the declared one
						if decl := m.Prog.FuncValue(sel.Obj().(*types.Func)); decl != nil {
							fn = decl
						}
					}
				}
			}
			if fn != nil {
				break
			}
		}
	} else {
		fn = p.Func(spec)
	}
	if fn == nil {
		return nil
	}
	for anon != "" {
		// "$1$2" nesting
		rest := anon[1:]
		next := ""
		if j := strings.Index(rest, "$"); j >= 0 {
			next = rest[j:]
			rest = rest[:j]
		}
		n := 0
		fmt.Sscanf(rest, "%d", &n)
		if n < 1 || n > len(fn.AnonFuncs) {
			return nil
		}
		fn = fn.AnonFuncs[n-1]
		anon = next
	}
	return fn
}

// Global resolves a package-level variable.
func (m *Module) GlobalVar(pkg, name string) *ssa.Global {
	p := m.Pkg(pkg)
	g, _ := p.Members[name].(*ssa.Global)
	if g == nil {
		if nn, ok := newVar[m.full(pkg)+"."+name]; ok {
			g, _ = p.Members[nn].(*ssa.Global)
		}
	}
	if g == nil {
		infra("UNRESOLVED anchor var %s.%s", pkg, name)
	}
	return g
}

// ConstVal returns the constant value of a package-level constant as a string
// (strings unquoted, numbers in decimal).
func (m *Module) ConstVal(pkg, name string) string {
	p := m.Pkg(pkg)
	obj := p.Pkg.Scope().Lookup(name)
	if obj == nil {
		if nn, ok := newConst[m.full(pkg)+"."+name]; ok {
			obj = p.Pkg.Scope().Lookup(nn)
		}
	}
	c, ok := obj.(*types.Const)
	if !ok {
		infra("UNRESOLVED anchor const %s.%s", pkg, name)
	}
	return constString(c.Val())
}

// WithClosures returns fn and all functions nested in it.
func WithClosures(fn *ssa.Function) []*ssa.Function {
	out := []*ssa.Function{fn}
	for _, a := range fn.AnonFuncs {
		out = append(out, WithClosures(a)...)
	}
	return out
}

// PkgFuncs returns all source functions (with closures) of a package of this module.
func (m *Module) PkgFuncs(rel string) []*ssa.Function {
	p := m.Pkg(rel)
	var out []*ssa.Function
	for _, fn := range m.srcFns {
		if fn.Pkg == p {
			out = append(out, fn)
		}
	}
	return out
}

func (m *Module) Pos(p token.Pos) string {
	if !p.IsValid() {
		return "-"
	}
	pos := m.Prog.Fset.Position(p)
	f := pos.Filename
	if i := strings.Index(f, "/repo/"); i >= 0 {
		f = f[i+6:]
	} else if strings.HasPrefix(f, m.Dir) {
		f = strings.TrimPrefix(strings.TrimPrefix(f, m.Dir), "/")
	}
	return fmt.Sprintf("%s:%d", f, pos.Line)
}

// isTestFile reports whether pos lies in a _test.go file (never true with Tests=false, kept for safety).
func (m *Module) isTestFile(p token.Pos) bool {
	return strings.HasSuffix(m.Prog.Fset.Position(p).Filename, "_test.go")
}

// FileOf returns the *ast.File containing pos within package rel.
func (m *Module) FileOf(rel string, pos token.Pos) *ast.File {
	for _, f := range m.TPkg(rel).Syntax {
		if f.Pos() <= pos && pos <= f.End() {
			return f
		}
	}
	return nil
}

// FuncDecl returns the syntax of a declared function.
func (m *Module) FuncDecl(fn *ssa.Function) *ast.FuncDecl {
	d, _ := fn.Syntax().(*ast.FuncDecl)
	return d
}

// short strips the module path from qualified names for readable keys.
func short(s string) string {
	s = strings.ReplaceAll(s, modPath+"/", "")
	s = strings.ReplaceAll(s, modPath+".", "telemetry.")
	return s
}

// fname is the key form of a function name.
// fnameTop: the name of the declared function fn belongs to (a function literal belongs to the
// function it is written in). Tables of per-function exceptions are keyed by it, so that moving
// a statement into or out of a literal does not change which entry applies.
func fnameTop(fn *ssa.Function) string {
	for fn != nil && fn.Parent() != nil {
		fn = fn.Parent()
	}
	return fname(fn)
}

func fname(fn *ssa.Function) string {
	if fn == nil {
		return "<nil>"
	}
	s := short(fn.String())
	for full, old := range refType {
		// a renamed receiver type reads as the reference type
		i := strings.LastIndex(full, ".")
		nw := short(full[:i+1]) + full[i+1:]
		if strings.Contains(s, nw+")") {
			s = strings.Replace(s, nw+")", short(full[:i+1])+old+")", 1)
		}
	}
	if len(renameNewToOld) > 0 {
		top := fn
		for top.Parent() != nil {
			top = top.Parent()
		}
		if obj, ok := top.Object().(*types.Func); ok && obj.Pkg() != nil {
			key := obj.Pkg().Path() + "."
			if sig, ok := obj.Type().(*types.Signature); ok && sig.Recv() != nil {
				t := sig.Recv().Type()
				if pt, isP := t.(*types.Pointer); isP {
					t = pt.Elem()
				}
				if nt, isN := t.(*types.Named); isN {
					key += nt.Obj().Name() + "."
				}
			}
			key += obj.Name()
			if old, ok := renameNewToOld[key]; ok {
				// the reference name, so that tables and messages keyed by function keep working
				if i := strings.Index(s, "."+obj.Name()); i >= 0 {
					rest := s[i+1+len(obj.Name()):]
					if rest == "" || rest[0] == '$' {
						s = s[:i+1] + old + rest
					}
				}
			}
		}
	}
	return s
}

// refName: the simple name of fn as the reference tree has it (fn.Name(), or the old name of a
// function recognised as renamed) — the form used in obligation keys.
func refName(fn *ssa.Function) string {
	if fn == nil {
		return "<nil>"
	}
	if len(renameNewToOld) == 0 {
		return fn.Name()
	}
	full, plain := fname(fn), short(fn.String())
	if full == plain {
		return fn.Name()
	}
	// fname replaced the top-level function's name: do the same in the simple name
	top := fn
	for top.Parent() != nil {
		top = top.Parent()
	}
	if obj, ok := top.Object().(*types.Func); ok {
		if i := strings.LastIndex(full, "."); i >= 0 {
			newFull := full[i+1:] // "old" or "old$1"
			_ = obj
			return newFull
		}
	}
	return fn.Name()
}
