package main

// C07 — each expired counter file is folded into exactly one weekly report.

import (
	"fmt"
	"go/token"
	"go/types"
	"strings"

	"golang.org/x/tools/go/ssa"
)

func init() {
	register("C07", &propDef{
		run: runC07,
		decided: []string{
			"counter files are deleted only under evidence that a report for their week exists (already reported / report file exists / both exclusive writes checked nil)",
			"only files whose recorded end is before the run's start time are folded or deleted; unreadable and unexpired files reach no file-system call",
			"report files are created exclusively; no other writer of report names",
			"program-build identity: the keys compared, the keys copied and the keys the counter file header writes agree",
			"fold shape: values are accumulated (+=) into Stacks/Counters by the newline test, per file parsed afresh by this uploader; week key = recorded end date",
		},
		notDecided: []string{"numeric equality of the sums", "idempotence / never-twice under concurrent uploaders", "O_EXCL semantics of the OS"},
	})
}

func runC07(c *Ctx) {
	m := c.Root()
	c07Delete(c, m)
	c07OnlyExpired(c, m)
	c08Exclusive(c, m, "C07.exclusive-create")
	c07Writers(c, m)
	identityRule(c, m, "C07.identity")
	c07Accumulate(c, m)
	c07NonEmptyFlag(c, m)
	c07WeekKey(c, m)
	c07CacheScope(c, m)
	c07LocalComplete(c, m)
	c06InvalidRecordRejects(c, m, "C07.only-expired")
}

// c07LocalComplete: nothing is removed from the aggregate once it is folded — the local report
// keeps every counter of every file. A delete / clear / maps.DeleteFunc in createReport may only
// work on a map that createReport itself made (a filtered copy), never on a map reached through
// the report's programs (a struct copy `x := *p` shares p's maps).
func c07LocalComplete(c *Ctx, m *Module) {
	r := c.R
	cr := m.Func("internal/upload", "uploader.createReport")
	fns := append([]*ssa.Function{cr}, allAnon(cr)...)
	for _, fn := range fns {
		for _, cs := range callsIn(fn) {
			cn := calleeName(cs.Common())
			if cn != "builtin:delete" && cn != "builtin:clear" && !strings.HasPrefix(cn, "maps.DeleteFunc") && !strings.HasPrefix(cn, "maps.Clear") {
				continue
			}
			mv := cs.Common().Args[0]
			if _, isMap := mv.Type().Underlying().(*types.Map); !isMap {
				continue
			}
			mk := mapOrigin(deref(mv))
			if mk == nil {
				mk = mapOrigin(mv)
			}
			r.Check("C07.accumulate", "createReport/"+cn+" only on a map made here", m.Pos(cs.Pos()), mk != nil,
				"entries may be removed only from a map this function created (a filtered copy); removing from "+shortDesc(describe(mv))+" can remove them from the aggregate that becomes the local report")
		}
	}
}

func allAnon(f *ssa.Function) []*ssa.Function {
	var out []*ssa.Function
	for _, a := range f.AnonFuncs {
		out = append(out, a)
		out = append(out, allAnon(a)...)
	}
	return out
}

func c07Delete(c *Ctx, m *Module) {
	r := c.R
	cr := m.Func("internal/upload", "uploader.createReport")
	rep := m.Func("internal/upload", "uploader.reports")
	del := m.Func("internal/upload", "uploader.deleteFiles")
	n := 0
	for _, cs := range m.callersOf(del) {
		n++
		fn := cs.Parent()
		facts := factsAt(cs)
		site := fmt.Sprintf("%s/deleteFiles#%d", short(refName(fn)), n)
		evidence := ""
		// (1) notNeeded(expiry, *todo) true
		if hasFact(facts, callResultIs("internal/upload.notNeeded", true, nil)) {
			evidence = "notNeeded(week) is true (report already uploaded or ready)"
		}
		// (2) os.Stat(report name) err == nil — in every case that leads here
		{
			cases := factCases(facts)
			okAll := len(cases) > 0
			ev := ""
			for _, cf := range cases {
				found := false
				for _, st := range callsIn(fn, "os.Stat") {
					if hasFact(cf, errNilOf(st.(*ssa.Call))) {
						nm := describeArg(st, 0)
						if strings.Contains(nm, `".json"`) && (strings.Contains(nm, "LocalDir(") || strings.Contains(nm, "UploadDir(")) {
							found = true
							ev = "os.Stat(" + nm + ") succeeded: a report file for the week exists"
						}
					}
				}
				if !found {
					okAll = false
				}
			}
			if okAll && ev != "" {
				evidence = ev
			}
		}
		// (3) both exclusive writes checked
		if evidence == "" && fn == cr {
			var localW, uploadW *ssa.Call
			for _, w := range callsIn(fn, "internal/upload.exclusiveWrite") {
				if strings.Contains(describeArg(w, 0), `"local."`) {
					localW = w.(*ssa.Call)
				} else {
					uploadW = w.(*ssa.Call)
				}
			}
			okLocal := localW != nil && hasFact(facts, errNilOf(localW))
			okUpload := false
			if uploadW != nil {
				// errUpload is a phi [nil, extract(uploadW)#1]; fact: phi == nil
				for _, f := range facts {
					b, ok := f.Cond.(*ssa.BinOp)
					if !ok || !(isNilConst(b.Y) || isNilConst(b.X)) {
						continue
					}
					isNil := (b.Op == token.EQL) == f.Pol
					if !isNil {
						continue
					}
					other := b.X
					if isNilConst(b.X) {
						other = b.Y
					}
					if phi, ok := other.(*ssa.Phi); ok {
						all := true
						some := false
						for _, e := range phi.Edges {
							if isNilConst(e) {
								continue
							}
							if isErrOf(e, uploadW) {
								some = true
							} else {
								all = false
							}
						}
						if all && some {
							okUpload = true
						}
					} else if isErrOf(other, uploadW) {
						okUpload = true
					}
				}
			}
			// the local write is unconditional: it must precede the delete on every path
			if okLocal && okUpload {
				evidence = "both exclusiveWrite results were checked nil on this path"
			}
		}
		r.Check("C07.delete-after-report", site, m.Pos(cs.Pos()), evidence != "" && (fn == cr || fn == rep),
			"counter files may be deleted only once a report for their week exists; evidence on this path: "+evidence)
		// the slice deleted is the one folded
		if fn == cr {
			r.Check("C07.delete-after-report", site+"/deletes the folded files", m.Pos(cs.Pos()), argsOf(cs)[1] == ssa.Value(cr.Params[3]),
				"createReport may delete only the files it was given; got "+describeArg(cs, 1))
		}
	}
	r.Check("C07.delete-after-report", "deleteFiles call sites enumerated", m.Pos(del.Pos()), n >= 2, fmt.Sprintf("%d call sites", n))
	// os.Remove in deleteFiles only of its parameter's elements; no other remover of .count paths
	for _, fn := range m.PkgFuncs("internal/upload") {
		for _, cs := range callsIn(fn, "os.Remove", "os.RemoveAll") {
			nm := describeArg(cs, 0)
			switch fnameTop(fn) {
			case "(*internal/upload.uploader).deleteFiles":
				r.Check("C07.delete-after-report", "deleteFiles/removes its argument's elements", m.Pos(cs.Pos()), strings.HasPrefix(nm, "param:files["), "got "+nm)
			case "(*internal/upload.uploader).uploadReportContents":
				// report / lock disposal: C08
			default:
				r.Check("C07.delete-after-report", "file removal in "+fname(fn), m.Pos(cs.Pos()), false, "unexpected file removal in the uploader: "+nm)
			}
		}
	}
	// early "none contained counters" return precedes any write/delete: the Return under !succeeded has no effect before it
	for _, b := range cr.Blocks {
		ret, ok := b.Instrs[len(b.Instrs)-1].(*ssa.Return)
		if !ok {
			continue
		}
		for _, cs := range callsIn(cr, "internal/upload.exclusiveWrite", "(*internal/upload.uploader).deleteFiles") {
			if precedes(ret, cs) || ret.Block() == cs.Block() {
				continue
			}
		}
		_ = ret
	}
}

func c07OnlyExpired(c *Ctx, m *Module) { c07OnlyExpiredAs(c, m, "C07.only-expired", "C07.week-key") }

func c07OnlyExpiredAs(c *Ctx, m *Module, ruleExp, ruleKey string) {
	r := c.R
	rep := m.Func("internal/upload", "uploader.reports")
	fw := m.Func("internal/upload", "uploader.findWork")
	// reports: the per-week lists are appended only under end.Before(thisInstant), with (begin,end) from counterDateSpan(f) nil error
	n := 0
	for _, in := range instrsOf(rep) {
		mu, ok := in.(*ssa.MapUpdate)
		if !ok {
			continue
		}
		_, elems, isApp := appendedElems(mu.Value)
		if !isApp || len(elems) != 1 {
			continue
		}
		n++
		f := strip(elems[0])
		fb := newFormulaBuilder()
		var span *ssa.Call
		fb.namer = func(v ssa.Value) (string, bool) {
			if e, ok := v.(*ssa.Extract); ok {
				if cl, ok := e.Tuple.(*ssa.Call); ok && calleeName(&cl.Call) == "(*internal/upload.uploader).counterDateSpan" && strip(argsOf(cl)[1]) == f {
					span = cl
					return []string{"begin", "end", "spanErr"}[e.Index], true
				}
			}
			if _, fld, ok := fieldLoad(v); ok && fld == "startTime" {
				return "startTime", true
			}
			return "", false
		}
		got := fb.reach(mu.Block())
		want := bAnd{[]BExpr{bBool{"isnil(spanErr)"}, mkOrd("end", "<", "startTime")}}
		ok2, why := projectedEquivalent(got, want, func(v string) bool { return strings.Contains(v, "end") || strings.Contains(v, "spanErr") })
		r.Check(ruleExp, "reports/file folded iff its recorded end is before the start time", m.Pos(mu.Pos()), ok2 && span != nil,
			"a file joins a week's list iff counterDateSpan succeeded ∧ end < startTime (strict): "+why)
		// element comes from todo.countfiles
		r.Check(ruleExp, "reports/folded files come from findWork's countfiles", m.Pos(mu.Pos()), strings.Contains(describe(f), ".countfiles["), "got "+describe(f))
		// the week key is end.Format(dateFormat)
		kd := describe(mu.Key)
		r.Check(ruleKey, "reports/grouping key is the recorded end date", m.Pos(mu.Pos()),
			strings.HasPrefix(kd, "(time.Time).Format((*internal/upload.uploader).counterDateSpan(") && strings.Contains(kd, `#1, "2006-01-02")`), "got "+kd)
	}
	r.Check(ruleExp, "reports/has the per-week append", m.Pos(rep.Pos()), n == 1, fmt.Sprintf("%d append sites", n))
	// the grouping tables are keyed by a file's own end date and nothing else: every update of a map
	// made in reports uses that key, and no entry is ever deleted or moved to another week
	isLocalMap := func(v ssa.Value) bool {
		_, ok := strip(v).(*ssa.MakeMap)
		return ok && strip(v).Parent() == rep
	}
	for _, in := range instrsOf(rep) {
		switch x := in.(type) {
		case *ssa.MapUpdate:
			if !isLocalMap(x.Map) {
				continue
			}
			kd := describe(x.Key)
			r.Check(ruleKey, "reports/"+mapRole(x.Map)+" keyed by the file's recorded end date", m.Pos(x.Pos()),
				strings.HasPrefix(kd, "(time.Time).Format((*internal/upload.uploader).counterDateSpan(") && strings.Contains(kd, `#1, "2006-01-02")`), "got "+shortDesc(kd))
		case *ssa.Call:
			if calleeName(x.Common()) == "builtin:delete" && isLocalMap(x.Call.Args[0]) {
				r.Check(ruleKey, "reports/"+mapRole(x.Call.Args[0])+" entry removed", m.Pos(x.Pos()), false, "a week's files stay under the week named by their end date; nothing removes or regroups them")
			}
		}
	}
	// createReport and deleteFiles receive exactly those lists
	for _, cs := range callsIn(rep, "(*internal/upload.uploader).createReport") {
		d := describeArg(cs, 3)
		r.Check(ruleExp, "reports/createReport gets the week's list", m.Pos(cs.Pos()), strings.HasPrefix(d, "rangeval(makemap:"), "got "+d)
	}
	for _, cs := range callsIn(rep, "(*internal/upload.uploader).deleteFiles") {
		d := describeArg(cs, 1)
		r.Check(ruleExp, "reports/deleteFiles gets the week's list", m.Pos(cs.Pos()), strings.HasPrefix(d, "rangeval(makemap:"), "got "+d)
	}
	// findWork: countfiles append under ¬err ∧ ¬expiry.After(startTime)
	for _, in := range instrsOf(fw) {
		st, ok := in.(*ssa.Store)
		if !ok {
			continue
		}
		fa, ok := st.Addr.(*ssa.FieldAddr)
		if !ok {
			continue
		}
		if _, fld, _ := fieldAddrName(fa); fld != "countfiles" {
			continue
		}
		_, elems, _ := appendedElems(st.Val)
		fb := newFormulaBuilder()
		fb.namer = func(v ssa.Value) (string, bool) {
			if e, ok := v.(*ssa.Extract); ok {
				if cl, ok := e.Tuple.(*ssa.Call); ok && calleeName(&cl.Call) == "(*internal/upload.uploader).counterDateSpan" {
					return []string{"begin", "end", "spanErr"}[e.Index], true
				}
			}
			if _, fld, ok := fieldLoad(v); ok && fld == "startTime" {
				return "startTime", true
			}
			return "", false
		}
		got := fb.reach(st.Block())
		want := bAnd{[]BExpr{bBool{"isnil(spanErr)"}, mkOrd("end", "<=", "startTime")}}
		ok2, why := projectedEquivalent(got, want, func(v string) bool { return strings.Contains(v, "end") || strings.Contains(v, "spanErr") })
		r.Check(ruleExp, "findWork/count file collected iff readable and not still active", m.Pos(st.Pos()), ok2,
			"a count file is collected iff its span is readable ∧ ¬(end > startTime): "+why)
		okName := len(elems) == 1 && strings.Contains(describe(refine(elems[0], factsAt(st))), "LocalDir(")
		r.Check(ruleExp, "findWork/collected name is the listed file", m.Pos(st.Pos()), okName && hasFact(factsAt(st), callResultIs("strings.HasSuffix", true, func(a []ssa.Value, _ *ssa.Call) bool {
			k, ok := constOf(a[1])
			return ok && k == "."+m.ConstVal("internal/counter", "FileVersion")+".count"
		})), "count files are selected by the suffix .<FileVersion>.count")
		// … and by nothing else about the name: a program may be called anything ("local.agent")
		var subject ssa.Value
		for _, f := range factsAt(st) {
			if cl, ok := f.Cond.(*ssa.Call); ok && calleeName(&cl.Call) == "strings.HasSuffix" && f.Pol {
				if k, isC := constOf(cl.Call.Args[1]); isC && strings.HasSuffix(k, ".count") {
					subject = strip(cl.Call.Args[0])
				}
			}
		}
		extra := ""
		for _, f := range factsAt(st) {
			var subj ssa.Value
			var what string
			if kind, sv, pv, isT := affixTest(f.Cond); isT {
				subj, what = strip(sv), kind+"(name, "+describe(pv)+")"
			} else if cl, ok := f.Cond.(*ssa.Call); ok && strings.HasPrefix(calleeName(&cl.Call), "strings.") && len(cl.Call.Args) >= 1 {
				subj, what = strip(cl.Call.Args[0]), calleeName(&cl.Call)
			} else if bo, ok := f.Cond.(*ssa.BinOp); ok && (bo.Op == token.EQL || bo.Op == token.NEQ) {
				if _, isC := constOf(bo.Y); isC {
					subj, what = strip(bo.X), "comparison with "+describe(bo.Y)
				}
			}
			if subj == nil || subject == nil || !sameNameValue(subj, subject) {
				continue
			}
			if k, isC := constOfAffix(f.Cond); isC && strings.HasSuffix(k, ".count") && f.Pol {
				continue
			}
			extra = fmt.Sprintf("%s is %v", what, f.Pol)
		}
		r.Check(ruleExp, "findWork/no other test of the name decides whether a count file is collected", m.Pos(st.Pos()), subject != nil && extra == "",
			"every file whose name ends in .<FileVersion>.count is a count file, whatever else its name contains; found: "+extra)
	}
}

// sameNameValue: two values denote the same file name (the same value, or two calls of Name() on the same entry).
func sameNameValue(a, b ssa.Value) bool {
	return a == b || describe(a) == describe(b)
}

// constOfAffix: the constant pattern of a prefix/suffix test.
func constOfAffix(cond ssa.Value) (string, bool) {
	if _, _, pv, isT := affixTest(cond); isT {
		return constOf(pv)
	}
	return "", false
}

// c07Writers: no os.WriteFile/Create/Rename of a report name in LocalDir other than exclusiveWrite.
func c07Writers(c *Ctx, m *Module) {
	r := c.R
	for _, fn := range m.PkgFuncs("internal/upload") {
		for _, e := range directEffects(fn) {
			if e.Kind != effFS {
				continue
			}
			switch e.Name {
			case "os.Remove", "os.RemoveAll", "os.MkdirAll", "(*os.File).Write":
				continue
			}
			nm := describeArg(e.Call, 0)
			if fname(fn) == "internal/upload.exclusiveWrite" {
				continue
			}
			if strings.Contains(nm, "LocalDir(") {
				r.Check("C07.exclusive-create", "write into the local dir in "+fname(fn)+" via "+e.Name, m.Pos(e.Call.Pos()), false, "report files in the local dir are written only by exclusiveWrite; got "+nm)
			} else {
				r.Check("C07.exclusive-create", "other file write in "+fname(fn)+" via "+e.Name, m.Pos(e.Call.Pos()), strings.Contains(nm, "UploadDir(") || strings.Contains(nm, "param:debugDir") || strings.Contains(nm, ".lock"),
					"tabled writers: upload marker, lock file, debug log; got "+nm)
			}
		}
	}
	// counter files are never opened for writing by the uploader: parse goes through os.ReadFile
	pc := m.Func("internal/upload", "uploader.parseCountFile")
	r.Check("C07.only-expired", "parseCountFile/reads with os.ReadFile", m.Pos(pc.Pos()), len(callsIn(pc, "os.ReadFile")) == 1 && len(callsIn(pc, "internal/counter.Parse")) == 1, "count files are read, never mapped or written, by the uploader")
}

func c07Accumulate(c *Ctx, m *Module) { c07AccumulateAs(c, m, "C07.accumulate") }

// c07AccumulateAs: shared with C11 (data is folded under the program build it was counted for).
func c07AccumulateAs(c *Ctx, m *Module, rule string) {
	r := c.R
	cr := m.Func("internal/upload", "uploader.createReport")
	n := 0
	var foldSites []ssa.Instruction
	for _, in := range instrsOf(cr) {
		mu, ok := in.(*ssa.MapUpdate)
		if !ok {
			continue
		}
		// the destination map: prog.F directly, or a choice (phi) among prog.Stacks / prog.Counters
		type target struct {
			base  ssa.Value
			fld   string
			facts []Fact
		}
		var targets []target
		if base, fld, ok := fieldLoad(mu.Map); ok {
			targets = append(targets, target{base, fld, factsAt(mu)})
		} else if phi, ok := strip(mu.Map).(*ssa.Phi); ok {
			for i, e := range phi.Edges {
				base, fld, ok := fieldLoad(e)
				if !ok {
					targets = nil
					break
				}
				pred := phi.Block().Preds[i]
				fs := append(append(append([]Fact{}, blockFacts(pred)...), lastBranchFact(pred, phi.Block())...), factsAt(mu)...)
				targets = append(targets, target{base, fld, fs})
			}
		}
		for _, tg := range targets {
			base, fld, facts := tg.base, tg.fld, tg.facts
			if (fld != "Stacks" && fld != "Counters") || !strings.HasPrefix(describe(base), "internal/upload.findProgReport(") {
				continue
			}
			n++
			foldSites = append(foldSites, mu)
			add, isAdd := mu.Value.(*ssa.BinOp)
			okAcc := false
			if isAdd && add.Op == token.ADD {
				for _, pair := range [][2]ssa.Value{{add.X, add.Y}, {add.Y, add.X}} {
					l, isL := pair[0].(*ssa.Lookup)
					if isL && describe(l.X) == describe(mu.Map) && l.Index == mu.Key {
						// the other operand is int64(v) of the ranged value paired with the key
						cv, isC := pair[1].(*ssa.Convert)
						if isC {
							ke, ok1 := strip(mu.Key).(*ssa.Extract)
							ve, ok2 := strip(cv.X).(*ssa.Extract)
							if ok1 && ok2 && ke.Tuple == ve.Tuple && ke.Index == 1 && ve.Index == 2 {
								okAcc = true
							}
						}
					}
				}
			}
			r.Check(rule, "createReport/prog."+fld+"[k] += v", m.Pos(mu.Pos()), okAcc,
				"the fold must add the file's value to the entry of the same key (never overwrite); got "+describe(mu.Value))
			isStack := hasFact(facts, callResultIs("internal/counter.IsStackCounter", true, func(a []ssa.Value, _ *ssa.Call) bool { return a[0] == mu.Key }))
			notStack := hasFact(facts, callResultIs("internal/counter.IsStackCounter", false, func(a []ssa.Value, _ *ssa.Call) bool { return a[0] == mu.Key }))
			r.Check(rule, "createReport/prog."+fld+" selected by the newline test", m.Pos(mu.Pos()), (fld == "Stacks" && isStack) || (fld == "Counters" && notStack),
				"names with a newline go to Stacks, all others to Counters")
			// the ranged map is x.Count of the file parsed in this iteration, and prog = findProgReport(x.Meta, report)
			if ke, ok := strip(mu.Key).(*ssa.Extract); ok {
				if nx, ok := ke.Tuple.(*ssa.Next); ok {
					rg := nx.Iter.(*ssa.Range)
					cb, cf, okc := fieldLoad(rg.X)
					fp := strip(base).(*ssa.Call)
					mb, mf, okm := fieldLoad(argsOf(fp)[0])
					r.Check(rule, "createReport/"+fld+" folded from the same parsed file as the identity", m.Pos(mu.Pos()),
						okc && okm && cf == "Count" && mf == "Meta" && strip(cb) == strip(mb) && strings.HasPrefix(describe(cb), "(*internal/upload.uploader).parseCountFile("),
						"counts and identity metadata must come from one parse result")
				}
			}
		}
	}
	r.Check(rule, "createReport/fold sites", m.Pos(cr.Pos()), n == 2, fmt.Sprintf("%d fold sites (want Stacks and Counters)", n))
	// every entry of the file is folded: within the range over x.Count no path leads to the
	// next entry without passing one of the fold stores (zero values and unusual names included)
	if len(foldSites) > 0 {
		var inner *loopInfo
		for _, l := range naturalLoops(cr) {
			if l.blocks[foldSites[0].Block()] && (inner == nil || len(l.blocks) < len(inner.blocks)) {
				inner = l
			}
		}
		okAll := inner != nil
		if inner != nil {
			isFold := func(in ssa.Instruction) bool {
				for _, f := range foldSites {
					if in == f {
						return true
					}
				}
				return false
			}
			var start []walkState
			for _, sc := range inner.header.Succs {
				if inner.blocks[sc] {
					start = append(start, walkState{inner.header, sc, 0})
				}
			}
			skip := walkWithout(start, func(in ssa.Instruction) bool { return in == inner.header.Instrs[0] }, isFold)
			okAll = skip == nil
		}
		r.Check(rule, "createReport/every entry of a count file is folded", m.Pos(foldSites[0].Pos()), okAll,
			"an entry skipped by the fold loop (a `continue` on its value or name) is missing from the week's report")
	}
	// every file of the list is parsed: the loop ranges over the countFiles parameter
	for _, cs := range callsIn(cr, "(*internal/upload.uploader).parseCountFile") {
		d := describeArg(cs, 1)
		r.Check(rule, "createReport/parses each given file", m.Pos(cs.Pos()), strings.HasPrefix(d, "param:countFiles["), "got "+d)
	}
}

func c07WeekKey(c *Ctx, m *Module) {
	r := c.R
	cr := m.Func("internal/upload", "uploader.createReport")
	exp := cr.Params[2]
	// report.Week = expiryDate
	found := false
	for _, in := range instrsOf(cr) {
		st, ok := in.(*ssa.Store)
		if !ok {
			continue
		}
		fa, ok := st.Addr.(*ssa.FieldAddr)
		if !ok {
			continue
		}
		if _, fld, _ := fieldAddrName(fa); fld == "Week" && namedType(fa.X.Type()) == "internal/telemetry.Report" {
			if st.Val == ssa.Value(exp) {
				found = true
			}
		}
	}
	r.Check("C07.week-key", "createReport/report.Week is the week key", m.Pos(cr.Pos()), found, "the local report's Week must be the expiryDate parameter")
	for _, cs := range callsIn(cr, "internal/upload.exclusiveWrite") {
		d := describeArg(cs, 0)
		r.Check("C07.week-key", "createReport/file name carries the week key", m.Pos(cs.Pos()), strings.Contains(d, "param:expiryDate") && strings.Contains(d, `".json"`) && strings.Contains(d, "LocalDir("), "got "+d)
	}
	rep := m.Func("internal/upload", "uploader.reports")
	for _, cs := range callsIn(rep, "(*internal/upload.uploader).createReport") {
		a := argsOf(cs)
		r.Check("C07.week-key", "reports/createReport(week key, that week's files)", m.Pos(cs.Pos()),
			strings.HasPrefix(describe(a[2]), "rangekey(") && strings.HasPrefix(describe(a[3]), "rangeval(") && describe(a[2])[9:] == describe(a[3])[9:], "key and list must come from the same map entry")
	}
}

// c07CacheScope: the parse memo belongs to one uploader (one Run); a wider scope
// folds stale values of a file parsed while it was still active.
func c07CacheScope(c *Ctx, m *Module) { c07CacheScopeAs(c, m, "C07.fresh-parse") }

func c07CacheScopeAs(c *Ctx, m *Module, rule string) {
	r := c.R
	pc := m.Func("internal/upload", "uploader.parseCountFile")
	n := 0
	for _, in := range instrsOf(pc) {
		var mp ssa.Value
		switch x := in.(type) {
		case *ssa.Lookup:
			mp = x.X
		case *ssa.MapUpdate:
			mp = x.Map
		default:
			continue
		}
		n++
		d := describe(mp)
		r.Check(rule, "parseCountFile/memo table owned by the uploader", m.Pos(in.Pos()), strings.HasPrefix(d, "param:u.") && !strings.Contains(d, "global:"),
			"the parse cache must live in the uploader value created for this Run; got "+d)
	}
	// no package-level variable of internal/upload holds parsed files
	for _, mem := range m.Pkg("internal/upload").Members {
		if g, ok := mem.(*ssa.Global); ok {
			ts := g.Type().String()
			r.Check(rule, "package variable "+g.Name(), m.Pos(g.Pos()), !strings.Contains(ts, "counter.File") && !strings.Contains(ts, "parsedCache"),
				"no process-wide store of parsed counter files: "+short(ts))
		}
	}
	// uploader values are created only in newUploader, called only from Run
	nu := m.Func("internal/upload", "newUploader")
	for _, cs := range m.callersOf(nu) {
		r.Check(rule, "caller of newUploader: "+fname(cs.Parent()), m.Pos(cs.Pos()), fname(cs.Parent()) == "internal/upload.Run", "one uploader per Run")
	}
	_ = n
}

// c07NonEmptyFlag: the flag deciding "none of the files contained counters" must be a
// monotone accumulation over ALL files of the week: initially false, only ever set to true.
func c07NonEmptyFlag(c *Ctx, m *Module) {
	r := c.R
	cr := m.Func("internal/upload", "uploader.createReport")
	var fold *loopInfo
	for _, l := range naturalLoops(cr) {
		for _, cs := range callsIn(cr, "(*internal/upload.uploader).parseCountFile") {
			if l.blocks[cs.Block()] && (fold == nil || len(l.blocks) > len(fold.blocks)) {
				fold = l
			}
		}
	}
	if fold == nil {
		r.Check("C07.accumulate", "createReport/fold loop", m.Pos(cr.Pos()), false, "no loop over the week's files")
		return
	}
	n := 0
	for _, in := range fold.header.Instrs {
		phi, ok := in.(*ssa.Phi)
		if !ok || !isBoolType(phi.Type()) {
			continue
		}
		// is this flag the guard of a rejecting return after the loop?
		guards := false
		for _, succ := range append(branchSucc(phi, false), branchSucc(phi, true)...) {
			if _, rej := rejectBlock(succ); rej && !fold.blocks[succ] {
				guards = true
			}
		}
		if !guards {
			continue
		}
		n++
		var check func(v ssa.Value, seen map[ssa.Value]bool) string
		check = func(v ssa.Value, seen map[ssa.Value]bool) string {
			v = strip(v)
			if seen[v] {
				return ""
			}
			seen[v] = true
			if k, isC := constOf(v); isC {
				if k == "true" || k == "false" {
					return ""
				}
			}
			if p2, ok := v.(*ssa.Phi); ok {
				for i, e := range p2.Edges {
					if k, isC := constOf(e); isC && k == "false" && fold.blocks[p2.Block().Preds[i]] && p2 == phi {
						return "reset to false inside the loop"
					}
					if s := check(e, seen); s != "" {
						return s
					}
				}
				return ""
			}
			return "assigned a computed value " + shortDesc(describe(v)) + " (not an accumulation: a later empty file would erase an earlier non-empty one)"
		}
		bad := ""
		for i, e := range phi.Edges {
			if !fold.blocks[fold.header.Preds[i]] {
				if k, isC := constOf(e); !isC || k != "false" {
					bad = "does not start false"
				}
				continue
			}
			if s := check(e, map[ssa.Value]bool{phi: true}); s != "" {
				bad = s
			}
		}
		r.Check("C07.accumulate", "createReport/'some file had counters' is accumulated over all files", m.Pos(phi.Pos()), bad == "",
			"the flag that decides whether the week gets a report must be false initially and only ever set to true inside the loop: "+bad)
	}
	r.Check("C07.accumulate", "createReport/has the non-empty flag", m.Pos(cr.Pos()), n == 1, fmt.Sprintf("%d flags guard a rejecting return after the fold loop", n))
}

// mapRole: "list table" for a map of slices, "table" otherwise (used in obligation keys).
func mapRole(v ssa.Value) string {
	if mt, ok := v.Type().Underlying().(*types.Map); ok {
		if _, isSl := mt.Elem().Underlying().(*types.Slice); isSl {
			return "per-week list table"
		}
		return "per-week " + strings.TrimPrefix(types.TypeString(mt.Elem(), nil), "time.") + " table"
	}
	return "table"
}
