package main

// E13: self-test of the checker (thorough tier). Every breaking mutant of the property
// (and every independently seeded change) must make the check fire, every neutral variant
// (the hand-made ones of this property and the whole pool in neutral_pool/) must leave it silent. Each variant is a scratch copy of /repo's working tree with one
// patch applied, analysed by a FRESH process of this binary; the copy is deleted at once.
// Nothing is executed from the copies: they are only parsed and type-checked.

import (
	"encoding/json"
	"fmt"
	"os"
	"os/exec"
	"path/filepath"
	"regexp"
	"sort"
	"strings"
	"sync"
)

type variantResult struct {
	Name  string   `json:"name"`
	Kind  string   `json:"kind"` // mutant | seeded | neutral
	Exit  int      `json:"exit"`
	Rules []string `json:"rules,omitempty"`
	Note  string   `json:"note,omitempty"`
}

var violatedRe = regexp.MustCompile(`violated: ([A-Za-z0-9.]+[A-Za-z0-9-]*)/`)

func runSelftest(c *Ctx, verifDir string) {
	prop := c.R.Prop
	var variants [][2]string // path, kind
	add := func(glob, kind string) {
		ms, _ := filepath.Glob(glob)
		sort.Strings(ms)
		for _, m := range ms {
			variants = append(variants, [2]string{m, kind})
		}
	}
	add(filepath.Join(verifDir, "mutants", prop, "*.patch"), "mutant")
	add(filepath.Join(verifDir, "seeded", prop+"-*", "patch.diff"), "seeded")
	add(filepath.Join(verifDir, "neutral", prop, "*.patch"), "neutral")
	// the pool of behaviour-preserving refactorings written by independent sub-agents for ALL
	// properties: none of them may make THIS property's check fire
	add(filepath.Join(verifDir, "neutral_pool", "*", "*.patch"), "pool")
	add(filepath.Join(verifDir, "neutral_pool2", "*", "*.patch"), "pool")
	// the round-4 restructurings with their bug repaired (DESIGN §8.12). Those this machinery
	// cannot decide are listed, per property, in a limit.json next to the patch: they are run
	// and reported ("limit"), and count neither as silent nor as a false alarm
	add(filepath.Join(verifDir, "neutral_pool3", "*", "*.patch"), "pool")
	// behaviour-preserving edits of constants, patterns, predicates and supporting code (DESIGN §8.14)
	add(filepath.Join(verifDir, "neutral_pool4", "*", "*.patch"), "pool")
	// round-3 seeds with their bug repaired, and renamed reference functions (DESIGN §8.16)
	add(filepath.Join(verifDir, "neutral_pool5", "*", "*.patch"), "pool")
	// additions, moves and renames (DESIGN §8.17)
	add(filepath.Join(verifDir, "neutral_pool6", "*", "*.patch"), "pool")
	// well-made additions of new code — types, caches, book-keeping state, small features (DESIGN §8.19);
	// those that end in "not decided" are listed per property in limit-<x>.json
	add(filepath.Join(verifDir, "neutral_pool7", "*", "*.patch"), "pool")
	if len(variants) == 0 {
		return
	}
	self, err := os.Executable()
	if err != nil {
		c.R.Notes = append(c.R.Notes, "selftest skipped: "+err.Error())
		return
	}
	// The variants are analysed with a private, throw-away Go build cache: every scratch copy
	// adds some 20 MB of entries for the packages that differ, and a thorough run has a few
	// hundred variants — in the shared cache that is several GB per run, never trimmed.
	cacheDir, cerr := os.MkdirTemp("", "verifself-gocache.")
	if cerr == nil {
		defer os.RemoveAll(cacheDir)
	}
	results := make([]variantResult, len(variants))
	sem := make(chan bool, 8)
	var wg sync.WaitGroup
	for i, v := range variants {
		wg.Add(1)
		go func(i int, path, kind string) {
			defer wg.Done()
			sem <- true
			defer func() { <-sem }()
			name := strings.TrimSuffix(filepath.Base(path), ".patch")
			if kind == "seeded" {
				name = filepath.Base(filepath.Dir(path))
			}
			if kind == "pool" {
				name = filepath.Base(filepath.Dir(filepath.Dir(path))) + "/" + filepath.Base(filepath.Dir(path)) + "/" + name
			}
			res := variantResult{Name: name, Kind: kind}
			if kind == "pool" {
				limFile := filepath.Join(filepath.Dir(path), "limit.json")
				if v := strings.TrimSuffix(filepath.Base(path), "-repaired.patch"); v != filepath.Base(path) && len(v) == 1 {
					if _, err := os.Stat(filepath.Join(filepath.Dir(path), "limit-"+v+".json")); err == nil {
						limFile = filepath.Join(filepath.Dir(path), "limit-"+v+".json")
					} else if strings.Contains(path, "neutral_pool5") {
						limFile = "/nonexistent"
					}
				}
				if strings.Contains(path, "neutral_pool7") {
					limFile = filepath.Join(filepath.Dir(path), "limit-"+strings.TrimSuffix(filepath.Base(path), ".patch")+".json")
				}
				if lim, err := os.ReadFile(limFile); err == nil {
					var l struct {
						AlarmsUnder []string `json:"alarms_under"`
					}
					if json.Unmarshal(lim, &l) == nil {
						for _, pp := range l.AlarmsUnder {
							if pp == prop {
								res.Kind = "limit"
							}
						}
					}
				}
			}
			if kind == "seeded" {
				if meta, err := os.ReadFile(filepath.Join(filepath.Dir(path), "meta.json")); err == nil && strings.Contains(string(meta), "\"status_after_fixes\"") {
					res.Kind = "seeded-neutralised" // a later repository fix made this change harmless; the check must stay silent
				}
			}
			scr, err := os.MkdirTemp("", "verifself.")
			if err != nil {
				res.Note = err.Error()
				results[i] = res
				return
			}
			defer os.RemoveAll(scr)
			sh := fmt.Sprintf(`set -e; mkdir -p %[1]s/repo; cd %[2]s; git ls-files -z --cached --others --exclude-standard | tar --null -T - -cf - 2>/dev/null | tar -xf - -C %[1]s/repo; cd %[1]s/repo; patch -p1 -s --no-backup-if-mismatch < %[3]s >/dev/null 2>&1`, scr, c.Repo, path)
			if out, err := exec.Command("bash", "-c", sh).CombinedOutput(); err != nil {
				res.Exit = -1
				res.Note = "selftest-skipped: patch does not apply to the current tree " + strings.TrimSpace(string(out))
				results[i] = res
				return
			}
			cmd := exec.Command(self, "-repo", filepath.Join(scr, "repo"), "-verif", verifDir, "-prop", prop, "-tier", "quick", "-evidence", filepath.Join(scr, "ev.json"))
			if cerr == nil {
				cmd.Env = append(os.Environ(), "GOCACHE="+cacheDir)
			}
			out, _ := cmd.CombinedOutput()
			res.Exit = cmd.ProcessState.ExitCode()
			seen := map[string]bool{}
			for _, mm := range violatedRe.FindAllStringSubmatch(string(out), -1) {
				if !seen[mm[1]] {
					seen[mm[1]] = true
					res.Rules = append(res.Rules, mm[1])
				}
			}
			sort.Strings(res.Rules)
			results[i] = res
		}(i, v[0], v[1])
	}
	wg.Wait()
	st := map[string]any{}
	var missed, falseAlarms, skipped []string
	nM, nMD, nS, nSD, nN, nNS := 0, 0, 0, 0, 0, 0
	var limits []string
	for _, r := range results {
		switch {
		case r.Exit == -1:
			skipped = append(skipped, r.Name)
		case r.Kind == "limit":
			limits = append(limits, fmt.Sprintf("%s(exit %d)", r.Name, r.Exit))
		case r.Kind == "mutant":
			nM++
			if r.Exit == 1 {
				nMD++
			} else {
				missed = append(missed, r.Name)
			}
		case r.Kind == "seeded":
			nS++
			if r.Exit == 1 {
				nSD++
			} else {
				missed = append(missed, r.Name)
			}
		case r.Kind == "neutral" || r.Kind == "seeded-neutralised" || r.Kind == "pool":
			nN++
			if r.Exit == 0 {
				nNS++
			} else {
				falseAlarms = append(falseAlarms, r.Name)
			}
		}
	}
	st["mutants_applied"], st["mutants_detected"] = nM, nMD
	st["seeded_applied"], st["seeded_detected"] = nS, nSD
	st["neutral_applied"], st["neutral_silent"] = nN, nNS
	st["not_detected"], st["false_alarms"], st["skipped"] = missed, falseAlarms, skipped
	st["known_limits_run"] = limits
	st["results"] = results
	c.R.Selftest = st
	fmt.Printf("selftest %s: mutants %d/%d detected, seeded %d/%d detected, neutral %d/%d silent", prop, nMD, nM, nSD, nS, nNS, nN)
	if len(missed) > 0 {
		fmt.Printf("; NOT DETECTED: %s", strings.Join(missed, ", "))
	}
	if len(falseAlarms) > 0 {
		fmt.Printf("; FALSE ALARMS on neutral variants: %s", strings.Join(falseAlarms, ", "))
	}
	fmt.Println()
}
