package main

func runSelftest(c *Ctx, verifDir string) {}
