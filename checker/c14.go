package main

// C14 — crash reports reach telemetry only as program counters (structural part).

import (
	"fmt"
	"go/token"
	"go/types"
	"os"
	"strings"

	"golang.org/x/tools/go/ssa"
)

func init() {
	register("C14", &propDef{
		run: runC14,
		decided: []string{
			"no explicit flow of crash text into a counter name: string sinks are constants or EncodeStack(pcs, constant prefix); the PCs derive from the text only through the integer declassifiers strconv.ParseUint and Sscanf(\"sentinel %x\") and arithmetic",
			"control dependence inventory: every branch that depends on crash text compares it only with compile-time constants; the trap adjustment is taken exactly on equality with \"runtime.sigpanic\"",
			"at most 16 frames are encoded; EncodeStack's result is bounded (C15.length); index/slice/loop obligations of the parser are discharged; no explicit panic",
			"relocation, as a linear form: every appended PC is parsed pc − parent's sentinel + this process' sentinel (+1 exactly after a sigpanic frame); the PC text is everything after the pc= marker",
		},
		notDecided: []string{"that frames of a genuine traceback name the right functions and lines (symbolisation)", "that the linear relocation is the right model of how the runtime lays out text segments (ASLR slide equal for all functions)"},
	})
}

func runC14(c *Ctx) {
	m := c.Root()
	r := c.R
	// the name cap is the documented 4096 bytes, not whatever the constant says
	c10Constants(c, m, "C14.frame-cap")
	tcn := m.Func("internal/crashmonitor", "telemetryCounterName")
	psp := m.Func("internal/crashmonitor", "parseStackPCs")
	child := m.Func("internal/crashmonitor", "Child")

	c14MinContract(c, m, newProver())
	c14SentinelLine(c, m)
	// the helper of the name encoding that splits a function symbol (reached with the empty symbol
	// when no PC resolves)
	for _, f := range []*ssa.Function{m.Func("internal/counter", "cutLastDot")} {
		boundsObligationsT(r, m, "C14.totality", f, nil)
		loopObligations(r, m, "C14.totality", f, nil)
	}
	// ---- sinks in Child --------------------------------------------------------
	nSink := 0
	for _, cs := range callsIn(child, "var:internal/crashmonitor.incrementCounter") {
		nSink++
		a := argsOf(cs)[0]
		d := describe(a)
		_, isC := constOf(a)
		ok := isC || d == "internal/crashmonitor.telemetryCounterName(io.ReadAll(*global:os.Stdin)#0)#0" || (strings.HasPrefix(d, "internal/crashmonitor.telemetryCounterName(") && strings.HasSuffix(d, ")#0"))
		r.Check("C14.no-text-flow", "Child/counter name is a constant or telemetryCounterName's result", m.Pos(cs.Pos()), ok, "got "+d)
	}
	r.Check("C14.no-text-flow", "Child/sinks enumerated", m.Pos(child.Pos()), nSink >= 2, fmt.Sprintf("%d", nSink))
	// incrementCounter's initialiser: counter.New(name).Inc(); other counter sinks in the package
	for _, fn := range m.PkgFuncs("internal/crashmonitor") {
		for _, cs := range callsIn(fn, "internal/counter.New", "internal/counter.NewStack", "counter.New", "counter.NewStack") {
			d := describeArg(cs, 0)
			_, isC := constOf(argsOf(cs)[0])
			_, isOwnParam := argsOf(cs)[0].(*ssa.Parameter)
			okInit := isC || (isOwnParam && strings.Contains(fname(fn), "init$"))
			r.Check("C14.no-text-flow", "counter created in "+fname(fn), m.Pos(cs.Pos()), okInit, "counters of the crash monitor are created only by incrementCounter(name) or with constant names; got "+d)
		}
	}
	// ---- telemetryCounterName results ----------------------------------------------
	var enc *ssa.Call
	for _, b := range tcn.Blocks {
		ret, ok := b.Instrs[len(b.Instrs)-1].(*ssa.Return)
		if !ok {
			continue
		}
		v := ret.Results[0]
		if k, isC := constOf(v); isC {
			r.Check("C14.no-text-flow", fmt.Sprintf("telemetryCounterName/returns constant %q", k), m.Pos(ret.Pos()), k == "" || k == "crash/no-running-goroutine", "fixed names only")
			continue
		}
		cl, isCall := strip(v).(*ssa.Call)
		okEnc := isCall && calleeName(&cl.Call) == "internal/counter.EncodeStack"
		if okEnc {
			enc = cl
			pk, isC := constOf(argsOf(cl)[1])
			okEnc = isC && pk == "crash/crash"
		}
		r.Check("C14.no-text-flow", "telemetryCounterName/returns EncodeStack(pcs, constant prefix)", m.Pos(ret.Pos()), okEnc, "got "+describe(v))
	}
	r.Check("C14.no-text-flow", "telemetryCounterName/encodes a stack", m.Pos(tcn.Pos()), enc != nil, "")
	// ---- frame cap -------------------------------------------------------------------
	if enc != nil {
		type edge struct {
			v     ssa.Value
			facts []Fact
		}
		var edges []edge
		if phi, ok := strip(argsOf(enc)[0]).(*ssa.Phi); ok {
			for i, e := range phi.Edges {
				pred := phi.Block().Preds[i]
				edges = append(edges, edge{e, append(blockFacts(pred), lastBranchFact(pred, phi.Block())...)})
			}
		} else {
			edges = append(edges, edge{argsOf(enc)[0], factsAt(enc)})
		}
		for _, e := range edges {
			p := newProver()
			ln := p.lenOf(e.v)
			var facts []lin
			for _, f := range e.facts {
				facts = append(facts, p.factLin(f)...)
			}
			ok, why := p.prove(linConst(16).add(ln, -1), facts)
			r.Check("C14.frame-cap", "telemetryCounterName/at most 16 frames", m.Pos(enc.Pos()), ok, "need 16 − len(pcs) ≥ 0: "+why+"; pcs = "+shortDesc(describe(e.v)))
			d := describe(e.v)
			okPre := d == "internal/crashmonitor.parseStackPCs(conv<string>(param:crash))#0" || strings.HasPrefix(d, "slice(internal/crashmonitor.parseStackPCs(conv<string>(param:crash))#0,_,")
			r.Check("C14.frame-cap", "telemetryCounterName/frames are a prefix of the parsed PCs", m.Pos(enc.Pos()), okPre, "got "+shortDesc(d))
		}
	}

	// ---- PCs: integer-only provenance ---------------------------------------------------
	nApp := 0
	for _, cs := range callsIn(psp, "builtin:append") {
		cl := cs.(*ssa.Call)
		_, el, ok := appendedElems(cl)
		if !ok || len(el) != 1 {
			continue
		}
		nApp++
		bad := intProvenance(el[0], psp, map[ssa.Value]bool{}, 0)
		r.Check("C14.no-text-flow", "parseStackPCs/appended PC derives from the text only through integer parses", m.Pos(cl.Pos()), bad == "",
			"allowed: strconv.ParseUint result, the sentinel read by Sscanf(\"sentinel %x\"), this process' own sentinel(), constants and arithmetic; found: "+bad)
	}
	r.Check("C14.no-text-flow", "parseStackPCs/PC append sites", m.Pos(psp.Pos()), nApp == 1, fmt.Sprintf("%d", nApp))
	// the number parsed is the WHOLE rest of the line after the first " pc=": then a file path or
	// argument text containing " pc=" can only make the parse fail (the frame is skipped), never
	// supply a PC of its own
	nParse := 0
	for _, f := range WithClosures(psp) {
		for _, cs := range callsIn(f, "strconv.ParseUint") {
			nParse++
			d := describeArg(cs, 0)
			ok := strings.HasPrefix(d, "strings.Cut(") && strings.HasSuffix(d, `, " pc=")#1`) && strings.Count(d, "strings.Cut(") == 1
			r.Check("C14.no-text-flow", "parseStackPCs/the PC text is everything after the pc= marker", m.Pos(cs.Pos()), ok,
				"ParseUint must be given Cut(line, \" pc=\")'s remainder unmodified (trimming or cutting it again lets text before the real field decide the PC); got "+shortDesc(d))
		}
	}
	r.Check("C14.no-text-flow", "parseStackPCs/PC parse sites", m.Pos(psp.Pos()), nParse == 1, fmt.Sprintf("%d", nParse))

	// ---- relocation: appended PC = parsed pc − parent's sentinel + this process' sentinel (+1 for traps) ----
	c15Length(c, m, "C14.name-cap")
	for _, cs := range callsIn(psp, "builtin:append") {
		cl := cs.(*ssa.Call)
		_, el, ok := appendedElems(cl)
		if !ok || len(el) != 1 {
			continue
		}
		forms, why := relocForms(el[0], map[ssa.Value]bool{}, 0, factsAt(cl))
		bad := why
		nGood := 0
		for _, f := range forms {
			pc, par, ch := f.l.coef["pc"], f.l.coef["parent"], f.l.coef["child"]
			others := len(f.l.coef) - boolInt(pc != 0) - boolInt(par != 0) - boolInt(ch != 0)
			switch {
			case others == 0 && pc == 1 && par == -1 && ch == 1 && (f.l.k == 0 || f.l.k == 1):
				nGood++
			case others == 0 && pc == 1 && par == 0 && (ch == 0 || ch == 1) && (f.l.k == 0 || f.l.k == 1) && f.initial:
				// the loop-entry value of a carried offset (no sentinel seen yet); parseStackPCs refuses
				// to enter a goroutine without a sentinel (C14.control-dependence inventory)
			default:
				bad += " " + f.l.String()
			}
		}
		r.Check("C14.relocation", "parseStackPCs/appended PC = pc − parentSentinel + childSentinel (+1 after sigpanic)", m.Pos(cl.Pos()), bad == "" && nGood >= 1,
			fmt.Sprintf("modular linear form of the appended value over {pc parsed from the frame line, sentinel read from the report, this process' sentinel()}: %d conforming forms; non-conforming:%s", nGood, bad))
	}

	// ---- control dependence inventory -----------------------------------------------------
	nCond := 0
	for _, fn := range WithClosures(psp) {
		for _, b := range fn.Blocks {
			ifi, ok := b.Instrs[len(b.Instrs)-1].(*ssa.If)
			if !ok {
				continue
			}
			f := normFact(ifi.Cond, true)
			nCond++
			okC, what := constOnlyCondition(f.Cond)
			r.Check("C14.control-dependence", fname(fn)+"/branch on "+shortDesc(stripNames(what)), m.Pos(ifi.Pos()), okC,
				"a branch that depends on crash text may compare it only with compile-time constants (so the name depends on the shape of the report, not on its text): "+describe(f.Cond))
		}
	}
	r.Check("C14.control-dependence", "branches enumerated", m.Pos(psp.Pos()), nCond >= 8, fmt.Sprintf("%d", nCond))
	// unanchored tests: a substring can occur anywhere in a line — in a file path, in the text of
	// an argument — so a test that is not tied to the beginning or end of the line lets that text
	// decide the shape. The ones the format needs are tabled.
	unanchoredOK := map[string]string{
		`strings.Contains " [running]:"`: "the status follows the goroutine id on a header line, which is already recognised by its prefix",
		`strings.Cut " pc="`:             "the PC is the text after the marker; a line without it is an inlined frame",
		`strings.LastIndex "("`:          "getSymbol: the symbol ends at the last opening parenthesis of a SYMBOL(ARGS) line",
		`strings.LastIndexByte "("`:      "getSymbol (byte form)",
	}
	nUn := 0
	for _, fn := range WithClosures(psp) {
		for _, cs := range callsIn(fn) {
			name := calleeName(cs.Common())
			switch name {
			case "strings.Contains", "strings.Index", "strings.LastIndex", "strings.Cut", "strings.ContainsAny", "strings.Count", "strings.IndexByte", "strings.LastIndexByte", "strings.ContainsRune", "strings.IndexAny", "strings.IndexRune", "strings.SplitN", "strings.SplitAfterN":
			default:
				continue
			}
			a := cs.Common().Args
			if len(a) < 2 {
				continue
			}
			pat := describe(a[1])
			nUn++
			_, ok := unanchoredOK[name+" "+pat]
			r.Check("C14.control-dependence", fname(fn)+"/unanchored test "+name+" "+pat, m.Pos(cs.Pos()), ok,
				"a substring test on crash text that is not in the table of tests the report format needs (a goroutine's frames end at a line that BEGINS with \"created by \")")
		}
	}
	r.Check("C14.control-dependence", "unanchored tests enumerated", m.Pos(psp.Pos()), nUn >= 2, fmt.Sprintf("%d", nUn))
	// a frame whose symbol line cannot be read makes the report malformed (an error, no counter):
	// skipping the line would also skip the PC line that follows it, and the frame would silently
	// drop out of the name
	nSym := 0
	for _, cs := range callsIn(psp) {
		cl, ok := cs.(*ssa.Call)
		if !ok || cl.Call.StaticCallee() == nil {
			continue
		}
		tup, ok := cl.Type().(*types.Tuple)
		if !ok || tup.Len() != 2 || !isErrorType(tup.At(1).Type()) {
			continue
		}
		if b, isB := tup.At(0).Type().Underlying().(*types.Basic); !isB || b.Kind() != types.String {
			continue
		}
		if g := cl.Call.StaticCallee(); g != nil && g.Parent() != psp {
			continue
		}
		nSym++
		okRej := false
		var ec ssa.Value
		for _, u := range referrers(cl) {
			if ex, isEx := u.(*ssa.Extract); isEx && ex.Index == 1 {
				for _, u2 := range referrers(ex) {
					if b, isB := u2.(*ssa.BinOp); isB && isNilConst(b.Y) && b.Op == token.NEQ {
						ec = b
					}
				}
			}
		}
		if ec != nil {
			okRej = true
			for _, succ := range branchSucc(ec, true) {
				if _, rej := rejectBlock(succ); !rej {
					okRej = false
				}
			}
		}
		r.Check("C14.control-dependence", "parseStackPCs/an unreadable symbol line is an error", m.Pos(cl.Pos()), okRej,
			"when the symbol of a frame cannot be extracted parseStackPCs must return an error (changing symbol text may change the name only into an error)")
	}
	r.Analysed["symbol_extraction_sites"] = nSym
	// trap adjustment exactly on == "runtime.sigpanic"
	nAdj := 0
	for _, in := range instrsOf(psp) {
		bo, ok := in.(*ssa.BinOp)
		if !ok || bo.Op != token.ADD {
			continue
		}
		if k, isC := intConst(bo.Y); !isC || k != 1 || !strings.Contains(bo.Type().String(), "uint64") {
			continue
		}
		nAdj++
		okEq := hasFact(blockFactsWithEdge(bo), func(f Fact) bool {
			b2, ok := f.Cond.(*ssa.BinOp)
			if !ok || !assertsEq(b2, f.Pol) {
				return false
			}
			k, isC := constOf(b2.Y)
			return isC && k == "runtime.sigpanic"
		})
		r.Check("C14.trap-adjust", "parseStackPCs/pc+1 exactly after the runtime.sigpanic frame", m.Pos(bo.Pos()), okEq,
			"the PC is adjusted only when the previous frame's symbol EQUALS \"runtime.sigpanic\" (a prefix/substring test lets other symbol text change the name)")
	}
	r.Check("C14.trap-adjust", "parseStackPCs/has the trap adjustment", m.Pos(psp.Pos()), nAdj == 1, fmt.Sprintf("%d", nAdj))

	// ---- totality ------------------------------------------------------------------------------
	nB := 0
	for _, fn := range append(WithClosures(psp), tcn) {
		nB += boundsObligationsT(r, m, "C14.totality", fn, nil)
		loopObligations(r, m, "C14.totality", fn, nil)
		for _, in := range instrsOf(fn) {
			if p, ok := in.(*ssa.Panic); ok {
				r.Check("C14.totality", fname(fn)+"/explicit panic", m.Pos(p.Pos()), false, "deriving the name must not panic")
			}
		}
	}
	r.Check("C14.totality", "obligations enumerated", m.Pos(psp.Pos()), nB >= 4, fmt.Sprintf("%d", nB))
}

// blockFactsWithEdge: facts at an instruction.
func blockFactsWithEdge(in ssa.Instruction) []Fact { return factsAt(in) }

// c14MinContract verifies crashmonitor.min's body and teaches the prover its contract.
func c14MinContract(c *Ctx, m *Module, p *prover) {
	r := c.R
	mn := m.FuncOpt("internal/crashmonitor", "min")
	if mn == nil {
		return // builtin min is known to the prover
	}
	okMin := true
	n := 0
	for _, b := range mn.Blocks {
		ret, ok := b.Instrs[len(b.Instrs)-1].(*ssa.Return)
		if !ok {
			continue
		}
		n++
		lt := func(pol bool) factPred {
			return func(f Fact) bool {
				bo, ok := f.Cond.(*ssa.BinOp)
				return ok && bo.Op == token.LSS && bo.X == ssa.Value(mn.Params[0]) && bo.Y == ssa.Value(mn.Params[1]) && f.Pol == pol
			}
		}
		switch ret.Results[0] {
		case ssa.Value(mn.Params[0]):
			okMin = okMin && hasFact(factsAt(ret), lt(true))
		case ssa.Value(mn.Params[1]):
			okMin = okMin && hasFact(factsAt(ret), lt(false))
		default:
			okMin = false
		}
	}
	r.Check("C14.frame-cap", "crashmonitor.min returns the smaller argument", m.Pos(mn.Pos()), okMin && n == 2, "x if x < y else y")
	if okMin {
		p.minFuncs = map[string]bool{"internal/crashmonitor.min": true}
		verifiedMinFuncs["internal/crashmonitor.min"] = true
	}
}

// intProvenance walks back from an integer value; returns "" if it derives from crash text only
// through the declassifiers, else a description of the offending source.
func intProvenance(v ssa.Value, fn *ssa.Function, seen map[ssa.Value]bool, depth int) string {
	v = strip(v)
	if seen[v] || depth > 40 {
		return ""
	}
	seen[v] = true
	if !isInteger(v.Type()) {
		if _, ok := v.Type().Underlying().(*types.Pointer); !ok {
			return "non-integer value " + shortDesc(describe(v))
		}
	}
	switch x := v.(type) {
	case *ssa.Const:
		return ""
	case *ssa.Convert:
		if !isInteger(x.X.Type()) {
			return "conversion from " + x.X.Type().String()
		}
		return intProvenance(x.X, fn, seen, depth+1)
	case *ssa.BinOp:
		if s := intProvenance(x.X, fn, seen, depth+1); s != "" {
			return s
		}
		return intProvenance(x.Y, fn, seen, depth+1)
	case *ssa.Phi:
		for _, e := range x.Edges {
			if s := intProvenance(e, fn, seen, depth+1); s != "" {
				return s
			}
		}
		return ""
	case *ssa.Extract:
		cl, ok := x.Tuple.(*ssa.Call)
		if !ok {
			return "tuple " + describe(x.Tuple)
		}
		return callProvenance(cl, x.Index, fn, seen, depth)
	case *ssa.Call:
		return callProvenance(x, 0, fn, seen, depth)
	case *ssa.UnOp:
		if x.Op == token.MUL {
			// load of a local: every write must be an integer declassifier or an ok value
			al, ok := x.X.(*ssa.Alloc)
			if !ok {
				if fv, isFV := x.X.(*ssa.FreeVar); isFV {
					al, ok = freeVarBinding(fv).(*ssa.Alloc)
				}
			}
			if !ok || al == nil {
				return "load of " + shortDesc(describe(x.X))
			}
			for _, u := range referrers(al) {
				switch w := u.(type) {
				case *ssa.Store:
					if w.Addr == ssa.Value(al) {
						if s := intProvenance(w.Val, fn, seen, depth+1); s != "" {
							return s
						}
					}
				case *ssa.MakeInterface:
					// passed as `any`: must be the target of Sscanf with the constant sentinel format
					for _, u2 := range referrers(w) {
						if st, ok := u2.(*ssa.Store); ok {
							if ia, ok := st.Addr.(*ssa.IndexAddr); ok {
								if arr, ok := ia.X.(*ssa.Alloc); ok {
									for _, ru := range referrers(arr) {
										if sl, ok := ru.(*ssa.Slice); ok {
											for _, su := range referrers(sl) {
												cc := callOf(su)
												if cc == nil {
													continue
												}
												if calleeName(cc) != "fmt.Sscanf" {
													return "address passed to " + calleeName(cc)
												}
												if k, isC := constOf(cc.Args[1]); !isC || k != "sentinel %x" {
													return "Sscanf with a format other than the constant \"sentinel %x\""
												}
											}
										}
									}
								}
							}
						}
					}
				}
			}
			return ""
		}
	case *ssa.Parameter, *ssa.FreeVar:
		return "parameter " + v.Name()
	}
	return "unrecognised source " + shortDesc(describe(v))
}

func callProvenance(cl *ssa.Call, idx int, fn *ssa.Function, seen map[ssa.Value]bool, depth int) string {
	n := calleeName(&cl.Call)
	switch n {
	case "strconv.ParseUint", "strconv.ParseInt", "strconv.Atoi":
		return "" // integer declassifier
	case "internal/crashmonitor.sentinel":
		return "" // this process' own text address
	case "builtin:len", "builtin:cap":
		if isStringy(argsOf(cl)[0].Type()) || isByteSlice(argsOf(cl)[0].Type()) {
			return "length of crash text"
		}
		return ""
	}
	if f := funcValue(cl.Call.Value); f != nil && f.Blocks != nil {
		// a closure of the parser: its corresponding results must be ok
		for _, b := range f.Blocks {
			if ret, ok := b.Instrs[len(b.Instrs)-1].(*ssa.Return); ok && idx < len(ret.Results) {
				if s := intProvenance(ret.Results[idx], f, seen, depth+1); s != "" {
					return s
				}
			}
		}
		return ""
	}
	return "call to " + n
}

// constOnlyCondition: the branch condition either does not involve strings, or compares
// text with compile-time constants only.
func constOnlyCondition(cond ssa.Value) (bool, string) {
	switch x := strip(cond).(type) {
	case *ssa.BinOp:
		if isStringy(x.X.Type()) {
			_, c1 := constOf(x.X)
			_, c2 := constOf(x.Y)
			return (c1 || c2) && (x.Op == token.EQL || x.Op == token.NEQ), "string comparison"
		}
		return true, "non-string comparison"
	case *ssa.Call:
		n := calleeName(&x.Call)
		switch n {
		case "strings.HasPrefix", "strings.HasSuffix", "strings.Contains":
			_, isC := constOf(argsOf(x)[1])
			return isC, n + " with a constant"
		}
		return false, "call " + n
	case *ssa.Extract:
		// ok results of strings.Cut(line, const), comma-ok forms
		if cl, ok := x.Tuple.(*ssa.Call); ok {
			if calleeName(&cl.Call) == "strings.Cut" {
				_, isC := constOf(argsOf(cl)[1])
				return isC, "Cut with a constant separator"
			}
		}
		if _, ok := x.Tuple.(*ssa.Next); ok {
			return true, "range continuation"
		}
		return false, "tuple element " + describe(x.Tuple)
	case *ssa.Phi, *ssa.UnOp:
		return isBoolType(cond.Type()), "boolean state"
	case *ssa.Const:
		return true, "constant"
	}
	return false, fmt.Sprintf("%T", cond)
}

func boolInt(b bool) int {
	if b {
		return 1
	}
	return 0
}

// relocForm is one alternative value of an integer expression, as a linear form (modulo 2^64)
// over the atoms pc, parent, child; initial marks alternatives that took the loop-entry
// constant of a loop-carried phi.
type relocForm struct {
	l       lin
	initial bool
}

// relocForms enumerates the alternative linear forms of v in parseStackPCs: phis are expanded
// (self-references through the loop are dropped), +/− are followed, conversions are transparent.
var again = map[ssa.Value]bool{}

func relocForms(v ssa.Value, busy map[ssa.Value]bool, depth int, facts []Fact) ([]relocForm, string) {
	if depth > 24 {
		return nil, " expression too deep"
	}
	switch x := v.(type) {
	case *ssa.Const:
		if k, ok := intConst(x); ok {
			return []relocForm{{l: linConst(k)}}, ""
		}
	case *ssa.Convert:
		return relocForms(x.X, busy, depth+1, facts)
	case *ssa.ChangeType:
		return relocForms(x.X, busy, depth+1, facts)
	case *ssa.BinOp:
		if x.Op == token.ADD || x.Op == token.SUB {
			a, wa := relocForms(x.X, busy, depth+1, facts)
			b, wb := relocForms(x.Y, busy, depth+1, facts)
			if wa+wb != "" {
				return nil, wa + wb
			}
			sign := int64(1)
			if x.Op == token.SUB {
				sign = -1
			}
			var out []relocForm
			for _, fa := range a {
				for _, fb := range b {
					out = append(out, relocForm{fa.l.add(fb.l, sign), fa.initial || fb.initial})
				}
			}
			if len(out) > 64 {
				return nil, " too many alternatives"
			}
			return out, ""
		}
	case *ssa.Phi:
		if busy[x] {
			// reached again through a back edge: the value the variable had in an EARLIER
			// iteration. What is known at the use site (this iteration) says nothing about the
			// edge over which it got that value then, so the merge is expanded once more
			// without ruling edges out.
			if again[x] {
				return nil, ""
			}
			again[x] = true
			defer delete(again, x)
			var out []relocForm
			for i, e := range x.Edges {
				if strip(e) == ssa.Value(x) {
					continue
				}
				fs, w := relocForms(e, busy, depth+1, edgeFactsOf(x, i))
				if w != "" {
					return nil, w
				}
				_, isConst := e.(*ssa.Const)
				fromOutside := !x.Block().Dominates(x.Block().Preds[i])
				for _, f := range fs {
					if isConst && fromOutside {
						f.initial = true
					}
					out = append(out, f)
				}
			}
			return out, ""
		}
		busy[x] = true
		defer delete(busy, x)
		var out []relocForm
		dead := deadEdges(x.Block(), facts)
		if os.Getenv("VERIF_DEBUG_RELOC") != "" {
			var es []string
			for i, e := range x.Edges {
				es = append(es, fmt.Sprintf("%d:%s dead=%v", i, shortDesc(describe(e)), dead[i]))
			}
			var fd []string
			for _, f := range facts {
				fd = append(fd, fmt.Sprintf("%v:%s", f.Pol, shortDesc(describe(f.Cond))))
			}
			fmt.Printf("RELOC phi %s@b%d edges %v\n      facts %v\n", x.Name(), x.Block().Index, es, fd)
		}
		for i, e := range x.Edges {
			if dead[i] {
				continue // ruled out where the value is used (e.g. the error exit of the PC parser)
			}
			// what holds on this incoming edge also decides merges further up
			ef := append(append([]Fact{}, facts...), edgeFactsOf(x, i)...)
			fs, w := relocForms(e, busy, depth+1, ef)
			if w != "" {
				return nil, w
			}
			_, isConst := e.(*ssa.Const)
			fromOutside := !x.Block().Dominates(x.Block().Preds[i])
			for _, f := range fs {
				if isConst && fromOutside {
					f.initial = true
				}
				out = append(out, f)
			}
		}
		return out, ""
	case *ssa.UnOp:
		if x.Op == token.MUL {
			if a, ok := x.X.(*ssa.Alloc); ok {
				// the variable whose address is handed to Sscanf("sentinel %x", &v)
				if allocPassedTo(a, "fmt.Sscanf") {
					return []relocForm{{l: linTerm("parent")}}, ""
				}
			}
		}
	case *ssa.Extract:
		if cl, ok := x.Tuple.(*ssa.Call); ok && x.Index == 0 {
			n := calleeName(&cl.Call)
			if n == "strconv.ParseUint" {
				return []relocForm{{l: linTerm("pc")}}, ""
			}
			// a local closure / helper that returns strconv.ParseUint's result
			if fn := closureOrStatic(&cl.Call); fn != nil && returnsCallTo(fn, "strconv.ParseUint") {
				return []relocForm{{l: linTerm("pc")}}, ""
			}
		}
	case *ssa.Call:
		if calleeName(&x.Call) == "internal/crashmonitor.sentinel" {
			return []relocForm{{l: linTerm("child")}}, ""
		}
	}
	return []relocForm{{l: linTerm("other:" + shortDesc(describe(v)))}}, ""
}

// allocPassedTo: the address of a (possibly boxed in an interface) is an argument of a call to callee.
func allocPassedTo(a *ssa.Alloc, callee string) bool {
	seen := map[ssa.Value]bool{}
	var walk func(v ssa.Value, depth int) bool
	walk = func(v ssa.Value, depth int) bool {
		if depth > 6 || seen[v] {
			return false
		}
		seen[v] = true
		for _, u := range referrers(v) {
			switch t := u.(type) {
			case *ssa.MakeInterface:
				if walk(t, depth+1) {
					return true
				}
			case *ssa.Store:
				// stored into the varargs backing array
				if ia, ok := t.Addr.(*ssa.IndexAddr); ok && t.Val == v {
					if walk(ia.X, depth+1) {
						return true
					}
				}
			case *ssa.Slice:
				if walk(t, depth+1) {
					return true
				}
			case *ssa.Call:
				if calleeName(&t.Call) == callee {
					return true
				}
			}
		}
		return false
	}
	return walk(a, 0)
}

// closureOrStatic resolves the called function when it is a static callee or a closure made in place.
func closureOrStatic(cc *ssa.CallCommon) *ssa.Function {
	if f := staticCallee(cc); f != nil {
		return f
	}
	switch v := cc.Value.(type) {
	case *ssa.MakeClosure:
		return v.Fn.(*ssa.Function)
	case *ssa.Function:
		return v
	}
	return nil
}

// returnsCallTo: every return of fn with a non-constant first result returns callee's result.
func returnsCallTo(fn *ssa.Function, callee string) bool {
	n := 0
	for _, b := range fn.Blocks {
		ret, ok := b.Instrs[len(b.Instrs)-1].(*ssa.Return)
		if !ok || len(ret.Results) == 0 {
			continue
		}
		v := ret.Results[0]
		if _, isC := v.(*ssa.Const); isC {
			continue
		}
		ex, ok := v.(*ssa.Extract)
		if !ok {
			return false
		}
		cl, ok := ex.Tuple.(*ssa.Call)
		if !ok || calleeName(&cl.Call) != callee {
			return false
		}
		n++
	}
	return n >= 1
}

// c14SentinelLine: the parent writes the sentinel as a LINE of its own ("sentinel %x" + newline)
// and the child scans exactly that format. Without the newline the runtime's first line of
// the crash ("fatal error: …") is glued to the sentinel, and %x swallows its leading hex digits:
// the relocation — and with it the counter name — then depends on the crash message.
func c14SentinelLine(c *Ctx, m *Module) {
	r := c.R
	ws := m.Func("internal/crashmonitor", "writeSentinel")
	psp := m.Func("internal/crashmonitor", "parseStackPCs")
	wfmt, rfmt := "?", "?"
	for _, cs := range callsIn(ws, "fmt.Fprintf") {
		if k, ok := constOf(argsOf(cs)[1]); ok {
			wfmt = k
		}
	}
	for _, cs := range callsIn(psp, "fmt.Sscanf") {
		if k, ok := constOf(argsOf(cs)[1]); ok {
			rfmt = k
		}
	}
	// the sentinel is read ONCE: the scan is reached only while no sentinel has been read yet
	// (a later line of the report that happens to start with "sentinel " must not replace it —
	// the relocation would then be chosen by the crash text)
	nScan := 0
	for _, cs := range callsIn(psp, "fmt.Sscanf") {
		nScan++
		first := hasFact(factsAt(cs), func(f Fact) bool {
			bo, ok := f.Cond.(*ssa.BinOp)
			if !ok || !assertsEq(bo, f.Pol) {
				return false
			}
			for _, pair := range [][2]ssa.Value{{bo.X, bo.Y}, {bo.Y, bo.X}} {
				if k, isC := intConst(pair[1]); isC && k == 0 {
					if b, isB := pair[0].Type().Underlying().(*types.Basic); isB && b.Kind() == types.Uint64 {
						return true
					}
				}
			}
			return false
		})
		r.Check("C14.relocation", "parseStackPCs/the sentinel is scanned only while none has been read", m.Pos(cs.Pos()), first,
			"Sscanf(\"sentinel %x\") must lie under parentSentinel == 0")
	}
	r.Check("C14.relocation", "parseStackPCs/sentinel scan sites", m.Pos(psp.Pos()), nScan == 1, fmt.Sprintf("%d", nScan))
	r.Check("C14.relocation", "sentinel is written as a line of its own in the format the child scans", m.Pos(ws.Pos()),
		wfmt != "?" && wfmt == rfmt+"\n" && strings.HasSuffix(rfmt, "%x"),
		fmt.Sprintf("writer format %q, reader format %q: the writer's must be the reader's followed by a newline", wfmt, rfmt))
}
