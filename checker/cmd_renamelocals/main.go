// renamelocals rewrites, in place, every Go file of the module in the given directory so
// that each parameter, receiver, named result and local variable gets the suffix "_r".
// Behaviour is unchanged; it is a stress test for analysers that must not depend on the
// spelling of local names. Usage: renamelocals <module dir>
package main

import (
	"fmt"
	"go/ast"
	"go/token"
	"go/types"
	"os"
	"sort"
	"strings"

	"golang.org/x/tools/go/packages"
)

func main() {
	dir := os.Args[1]
	cfg := &packages.Config{Mode: packages.LoadSyntax, Dir: dir, Env: append(os.Environ(), "GOFLAGS=-mod=mod", "GOPROXY=off", "GOWORK=off", "CGO_ENABLED=0")}
	pkgs, err := packages.Load(cfg, "./...")
	if err != nil {
		panic(err)
	}
	n := 0
	for _, p := range pkgs {
		for i, f := range p.Syntax {
			name := p.CompiledGoFiles[i]
			if !strings.HasPrefix(name, dir) {
				continue
			}
			src, _ := os.ReadFile(name)
			tf := p.Fset.File(f.Pos())
			type ed struct{ off int }
			var offs []int
			isLocal := func(o types.Object) bool {
				v, ok := o.(*types.Var)
				if !ok || v.IsField() || v.Pkg() == nil || o.Name() == "_" {
					return false
				}
				return v.Parent() != v.Pkg().Scope() && v.Parent() != nil && v.Parent() != types.Universe
			}
			ast.Inspect(f, func(nd ast.Node) bool {
				id, ok := nd.(*ast.Ident)
				if !ok {
					return true
				}
				var o types.Object
				if d := p.TypesInfo.Defs[id]; d != nil {
					o = d
				} else if u := p.TypesInfo.Uses[id]; u != nil {
					o = u
				}
				if o != nil && isLocal(o) {
					offs = append(offs, tf.Offset(id.End()))
				}
				return true
			})
			// type-switch symbolic variables: implicit objects per clause
			ast.Inspect(f, func(nd ast.Node) bool {
				ts, ok := nd.(*ast.TypeSwitchStmt)
				if !ok {
					return true
				}
				if as, ok := ts.Assign.(*ast.AssignStmt); ok {
					if id, ok := as.Lhs[0].(*ast.Ident); ok && id.Name != "_" {
						offs = append(offs, tf.Offset(id.End()))
						for _, cc := range ts.Body.List {
							if imp := p.TypesInfo.Implicits[cc]; imp != nil {
								ast.Inspect(cc, func(m ast.Node) bool {
									if u, ok := m.(*ast.Ident); ok && p.TypesInfo.Uses[u] == imp {
										offs = append(offs, tf.Offset(u.End()))
									}
									return true
								})
							}
						}
					}
				}
				return true
			})
			if len(offs) == 0 {
				continue
			}
			sort.Ints(offs)
			var out []byte
			pos, prev := 0, -1
			for _, o := range offs {
				if o == prev {
					continue
				}
				prev = o
				out = append(out, src[pos:o]...)
				out = append(out, "_r"...)
				pos = o
				n++
			}
			out = append(out, src[pos:]...)
			_ = token.NoPos
			os.WriteFile(name, out, 0o644)
		}
	}
	fmt.Println("renamed identifiers:", n)
}
