package main

// Memo tables. A refactoring that speeds a predicate up with a cache
//
//	want, ok := cache[key]
//	if !ok { want = P(…); cache[key] = want }
//	if want { … }
//
// leaves the behaviour unchanged exactly when the cached value is a function of the key (and of
// values that do not change while the cache lives). The fact engine then reads "cache[key] is
// true" as "P(…) is true": memoValue returns the value stored at the one update site of the
// map, provided that
//   - the map is created in this function (make / literal), used only for look-ups, len and that
//     one update, and the look-up's key and the update's key are the same value;
//   - everything the stored value is computed from is a component of the key, a constant, or a
//     value fixed for the lifetime of the cache (parameters, values computed outside the loops
//     the cache lives across), combined by operators and by calls that only read.
// A cache keyed by too little (the stack name without the program; a frame's PC when the
// rendering also depends on the previous frame) fails the second condition: no fact is derived
// and the rule that needs the fact fails.

import (
	"fmt"
	"go/token"
	"go/types"
	"os"
	"strings"

	"golang.org/x/tools/go/ssa"
)

var memoMemo = map[*ssa.Lookup]ssa.Value{}
var memoDone = map[*ssa.Lookup]bool{}
var memoWhy string

func memoValue(lk *ssa.Lookup) ssa.Value {
	if memoDone[lk] {
		return memoMemo[lk]
	}
	memoDone[lk] = true
	v := memoValue1(lk)
	if os.Getenv("VERIF_DEBUG_MEMO") != "" {
		fmt.Printf("MEMO %s in %s: %v (%s)\n", shortDesc(describe(lk)), fname(lk.Parent()), v != nil, memoWhy)
	}
	memoMemo[lk] = v
	return v
}

// mapOrigin: the MakeMap a map-typed value denotes (directly or through a local that is set once).
func mapOrigin(v ssa.Value) *ssa.MakeMap {
	v = strip(v)
	if mk, ok := v.(*ssa.MakeMap); ok {
		return mk
	}
	if ld, ok := v.(*ssa.UnOp); ok && ld.Op == token.MUL {
		if a, ok := deref(ld.X).(*ssa.Alloc); ok {
			if sv := singleStore(a); sv != nil {
				if mk, ok := strip(sv).(*ssa.MakeMap); ok {
					return mk
				}
			}
		}
		// a map-typed field of a local struct variable, set by the one assignment that reaches here
		if fa, ok := ld.X.(*ssa.FieldAddr); ok {
			if a, ok := fa.X.(*ssa.Alloc); ok {
				if sv := reachingFieldStore(a, fa.Field, ld); sv != nil {
					if mk, ok := strip(sv).(*ssa.MakeMap); ok {
						return mk
					}
				}
			}
		}
	}
	return nil
}

func memoValue1(lk *ssa.Lookup) ssa.Value {
	if _, isMap := lk.X.Type().Underlying().(*types.Map); !isMap {
		return nil
	}
	memoWhy = ""
	mk := mapOrigin(lk.X)
	if mk == nil || mk.Parent() != lk.Parent() {
		memoWhy = "map origin " + describe(lk.X)
		return nil
	}
	fn := lk.Parent()
	// uses of the map
	var updates []*ssa.MapUpdate
	okUses := true
	var visit func(v ssa.Value, depth int)
	visit = func(v ssa.Value, depth int) {
		if depth > 3 || v.Referrers() == nil {
			okUses = false
			return
		}
		for _, r := range *v.Referrers() {
			switch u := r.(type) {
			case *ssa.Lookup:
				if u.X != v {
					okUses = false
				}
			case *ssa.MapUpdate:
				if u.Map != v {
					okUses = false // the map itself used as a key or value
				} else {
					updates = append(updates, u)
				}
			case *ssa.DebugRef:
			case *ssa.Call:
				if b, isB := u.Call.Value.(*ssa.Builtin); !isB || b.Name() != "len" {
					okUses = false
				}
			case *ssa.Store:
				a, isA := u.Addr.(*ssa.Alloc)
				if !isA || u.Val != v || singleStore(a) == nil {
					okUses = false
					continue
				}
				for _, r2 := range *a.Referrers() {
					switch l := r2.(type) {
					case *ssa.UnOp:
						if l.Op == token.MUL {
							visit(l, depth+1)
						}
					case *ssa.MakeClosure:
						// read-only capture (singleStore checked it): the closure's loads
						for i, bnd := range l.Bindings {
							if bnd == ssa.Value(a) {
								for _, r3 := range *l.Fn.(*ssa.Function).FreeVars[i].Referrers() {
									if ld, isLd := r3.(*ssa.UnOp); isLd && ld.Op == token.MUL {
										visit(ld, depth+1)
									}
								}
							}
						}
					}
				}
			case *ssa.ChangeType:
				visit(u, depth+1)
			default:
				okUses = false
			}
		}
	}
	visit(mk, 0)
	if !okUses || len(updates) != 1 {
		memoWhy = fmt.Sprintf("uses ok=%v updates=%d", okUses, len(updates))
		return nil
	}
	mu := updates[0]
	if mu.Parent() != fn {
		return nil
	}
	// same key
	comps, ok := memoKey(lk.Index, mu.Key)
	if !ok {
		memoWhy = "keys differ: " + describe(lk.Index) + " vs " + describe(mu.Key)
		return nil
	}
	// lifetime of the cache: the loops the update sits in but the creation does not
	var life []*loopInfo
	for _, l := range naturalLoops(fn) {
		if l.blocks[mu.Block()] && !l.blocks[mk.Block()] {
			life = append(life, l)
		}
	}
	inLife := func(b *ssa.BasicBlock) bool {
		for _, l := range life {
			if l.blocks[b] {
				return true
			}
		}
		return false
	}
	isComp := func(v ssa.Value) bool {
		for _, c := range comps {
			if c == v {
				return true
			}
		}
		d := describe(v)
		if strings.Contains(d, "phi:") || strings.Contains(d, "?") {
			return false
		}
		for _, c := range comps {
			if describe(c) == d {
				return true
			}
		}
		return false
	}
	seen := map[ssa.Value]bool{}
	var det func(v ssa.Value, depth int) bool
	det = func(v ssa.Value, depth int) (res bool) {
		if v == nil {
			return true
		}
		if depth > 40 {
			return false
		}
		if seen[v] {
			return true
		}
		seen[v] = true
		if os.Getenv("VERIF_DEBUG_MEMO") == "2" {
			defer func() { fmt.Printf("   det %T %s -> %v\n", v, shortDesc(describe(v)), res) }()
		}
		switch v.(type) {
		case *ssa.Const, *ssa.Parameter, *ssa.FreeVar, *ssa.Function, *ssa.Builtin:
			return true
		case *ssa.Global:
			return true // the address
		}
		if isComp(v) {
			return true
		}
		in, isIn := v.(ssa.Instruction)
		if !isIn || in.Block() == nil {
			return false
		}
		outside := !inLife(in.Block())
		if outside {
			return true // computed once, before or after every use of the cache: one value while the cache lives
		}
		switch x := v.(type) {
		case *ssa.BinOp:
			return det(x.X, depth+1) && det(x.Y, depth+1)
		case *ssa.UnOp:
			if x.Op != token.MUL {
				return det(x.X, depth+1)
			}
			switch a := x.X.(type) {
			case *ssa.Global:
				return globalSingleInit(a) != nil
			case *ssa.Alloc:
				if sv := singleStore(a); sv != nil {
					return det(sv, depth+1)
				}
				return false
			case *ssa.FieldAddr:
				// a field read through a pointer that is itself determined; nothing in this
				// function may assign that field
				if !det(a.X, depth+1) {
					return false
				}
				for _, in2 := range instrsOf(fn) {
					if st, isSt := in2.(*ssa.Store); isSt {
						if fa2, isFA := st.Addr.(*ssa.FieldAddr); isFA && fa2.Field == a.Field && types.Identical(fa2.X.Type(), a.X.Type()) {
							// … except before the cache exists (the literal that builds the object)
							if !inLife(st.Block()) && precedes(st, mk) {
								continue
							}
							return false
						}
					}
				}
				return true
			case *ssa.FreeVar:
				return true
			}
			return false
		case *ssa.Convert:
			return det(x.X, depth+1)
		case *ssa.ChangeType:
			return det(x.X, depth+1)
		case *ssa.ChangeInterface:
			return det(x.X, depth+1)
		case *ssa.MakeInterface:
			return det(x.X, depth+1)
		case *ssa.Extract:
			return det(x.Tuple, depth+1)
		case *ssa.Field:
			return det(x.X, depth+1)
		case *ssa.FieldAddr:
			return det(x.X, depth+1)
		case *ssa.Slice:
			return det(x.X, depth+1) && det(x.Low, depth+1) && det(x.High, depth+1) && det(x.Max, depth+1)
		case *ssa.Index:
			return det(x.X, depth+1) && det(x.Index, depth+1)
		case *ssa.Phi:
			if inLife(x.Block()) {
				for _, l := range life {
					if l.header == x.Block() {
						return false // carried from one use of the cache to the next
					}
				}
			}
			for _, e := range x.Edges {
				if !det(e, depth+1) {
					return false
				}
			}
			// what decides which edge is taken
			d := x.Block().Idom()
			for _, b := range fn.Blocks {
				if b == x.Block() || d == nil || !d.Dominates(b) || !blockReaches(b, x.Block()) {
					continue
				}
				if ifi, isIf := b.Instrs[len(b.Instrs)-1].(*ssa.If); isIf {
					if !det(ifi.Cond, depth+1) {
						return false
					}
				}
			}
			return true
		case *ssa.Call:
			if x.Call.IsInvoke() {
				return false
			}
			if !pureCallee(&x.Call) {
				return false
			}
			for _, a := range x.Call.Args {
				if !det(a, depth+1) {
					return false
				}
			}
			return true
		case *ssa.MakeMap, *ssa.MakeSlice, *ssa.Alloc, *ssa.MakeClosure:
			return outside
		}
		return false
	}
	if !det(mu.Value, 0) {
		return nil
	}
	return mu.Value
}

// memoKey: the look-up key a and the update key b are the same value; returns the key's
// components (the values a struct key was built from, or the key itself).
func memoKey(a, b ssa.Value) ([]ssa.Value, bool) {
	a, b = strip(a), strip(b)
	if a == b {
		return []ssa.Value{a}, true
	}
	la, ok1 := a.(*ssa.UnOp)
	lb, ok2 := b.(*ssa.UnOp)
	if !ok1 || !ok2 || la.Op != token.MUL || lb.Op != token.MUL || la.X != lb.X {
		if describe(a) == describe(b) && !strings.Contains(describe(a), "phi:") && !strings.Contains(describe(a), "?") {
			return []ssa.Value{a, b}, true
		}
		return nil, false
	}
	al, ok := la.X.(*ssa.Alloc)
	if !ok {
		return nil, false
	}
	st, ok := al.Type().Underlying().(*types.Pointer).Elem().Underlying().(*types.Struct)
	if !ok {
		return nil, false
	}
	stored := map[int]ssa.Value{}
	for _, r := range *al.Referrers() {
		switch u := r.(type) {
		case *ssa.UnOp, *ssa.DebugRef:
		case *ssa.FieldAddr:
			for _, r2 := range *u.Referrers() {
				switch s := r2.(type) {
				case *ssa.Store:
					if s.Addr != ssa.Value(u) || stored[u.Field] != nil {
						return nil, false
					}
					if !precedes(s, la) || !precedes(s, lb) {
						return nil, false
					}
					stored[u.Field] = s.Val
				case *ssa.UnOp, *ssa.DebugRef:
				default:
					return nil, false
				}
			}
		case *ssa.Store:
			return nil, false
		default:
			return nil, false
		}
	}
	var comps []ssa.Value
	for i := 0; i < st.NumFields(); i++ {
		if stored[i] != nil {
			comps = append(comps, stored[i])
		}
	}
	return comps, true
}

var pureMemo = map[*ssa.Function]int{} // 1 pure, 2 not, 3 in progress

var pureLibPrefixes = []string{"strings.", "strconv.", "path.", "path/filepath.Base", "path/filepath.Join", "path/filepath.Dir", "path/filepath.Ext", "path/filepath.Clean",
	"fmt.Sprintf", "fmt.Sprint", "slices.Contains", "slices.Index", "unicode.", "unicode/utf8.", "math.", "bytes.Equal", "bytes.HasPrefix", "bytes.HasSuffix", "bytes.Index",
	"(*strings.Builder).", "errors.Is", "(*runtime.Func).Name", "(*runtime.Func).Entry", "(*runtime.Func).FileLine", "runtime.FuncForPC"}

// pureCallee: the call only reads — a function of this module whose body has no store outside
// its own locals, no map update, no send, go or defer and only such calls; or a tabled
// library function.
func pureCallee(c *ssa.CallCommon) bool {
	if b, ok := c.Value.(*ssa.Builtin); ok {
		switch b.Name() {
		case "len", "cap", "min", "max":
			return true
		}
		return false
	}
	f := c.StaticCallee()
	if f == nil {
		return false
	}
	pkg := f.Pkg
	if pkg == nil && f.Origin() != nil {
		pkg = f.Origin().Pkg // an instance of a generic function
	}
	if f.Blocks == nil || pkg == nil || !strings.HasPrefix(pkg.Pkg.Path(), modPath) {
		n := calleeName(c)
		for _, p := range pureLibPrefixes {
			if strings.HasPrefix(n, p) {
				return true
			}
		}
		return false
	}
	return pureFunc(f, 0)
}

func pureFunc(f *ssa.Function, depth int) bool {
	switch pureMemo[f] {
	case 1:
		return true
	case 2:
		return false
	case 3:
		return true // recursion: decided by the rest of the body
	}
	if depth > 6 {
		return false
	}
	pureMemo[f] = 3
	ok := true
	for _, b := range f.Blocks {
		for _, in := range b.Instrs {
			switch x := in.(type) {
			case *ssa.Store:
				if _, local := rootAlloc(x.Addr).(*ssa.Alloc); !local {
					ok = false
				}
			case *ssa.MapUpdate:
				if mapOrigin(x.Map) == nil {
					ok = false
				}
			case *ssa.Send, *ssa.Go, *ssa.Defer, *ssa.Panic:
				ok = false
			case *ssa.Call:
				if x.Call.IsInvoke() || !pureCallee(&x.Call) {
					ok = false
				}
			}
		}
	}
	if ok {
		pureMemo[f] = 1
	} else {
		pureMemo[f] = 2
	}
	return ok
}

// rootAlloc: the local variable an address is derived from (through field and element
// selection), or the address itself.
func rootAlloc(v ssa.Value) ssa.Value {
	for i := 0; i < 8; i++ {
		switch x := v.(type) {
		case *ssa.FieldAddr:
			v = x.X
		case *ssa.IndexAddr:
			v = x.X
		default:
			return v
		}
	}
	return v
}
