package main

// C16 — the telemetry sidecar starts only when permitted and never recursively.

import (
	"fmt"
	"go/token"
	"strings"

	"golang.org/x/tools/go/ssa"
)

func init() {
	register("C16", &propDef{
		run: runC16,
		decided: []string{
			"dispatch table on GO_TELEMETRY_CHILD: parent only under \"\", child only under \"1\", nothing under \"2\"; the four constants agree; who-may-call of startChild/parent/child",
			"fork gate: startChild lies under mode != off ∧ LocalDir stat ok ∧ (ReportCrashes ∨ (Upload ∧ acquireUploadToken())); token asked only when Upload is set; with mode off no effect site is reached",
			"child sets the marker to \"2\" before anything that can run a subprocess; nothing reachable from child unsets or rewrites it; exec sites reachable from child inherit the environment",
			"token: acquired only by a successful O_CREATE|O_EXCL create; fresh token returns false before any removal; removal only when age >= period; period constant is 24h",
		},
		notDecided: []string{"at-most-once among concurrent starters beyond O_EXCL (OS semantics)", "what the child does once started", "run-time absence of grandchildren"},
	})
}

func isChildVarGetenv(m *Module) func(ssa.Value) bool {
	cv := m.ConstVal("", "telemetryChildVar")
	return func(v ssa.Value) bool {
		c, ok := strip(v).(*ssa.Call)
		if !ok || calleeName(&c.Call) != "os.Getenv" {
			return false
		}
		k, isC := constOf(argsOf(c)[0])
		return isC && k == cv
	}
}

func runC16(c *Ctx) {
	m := c.Root()
	r := c.R
	// the mode the gate tests is the mode the file states (a malformed date does not change "off")
	r.As(map[string]string{"C02.mode-failsafe": "C16.fork-gate"}, func() { c02ModeFn(c, m) })
	childVar := m.ConstVal("", "telemetryChildVar")
	isCV := isChildVarGetenv(m)
	start := m.Func("", "Start")
	maybe := m.Func("", "MaybeChild")
	parent := m.Func("", "parent")
	child := m.Func("", "child")
	startChild := m.Func("", "startChild")
	acquire := m.Func("", "acquireUploadToken")

	// ---- dispatch ----------------------------------------------------------
	for _, fn := range []*ssa.Function{start, maybe} {
		for _, cs := range callsIn(fn) {
			n := calleeName(cs.Common())
			switch n {
			case "telemetry.parent":
				r.Check("C16.dispatch", short(refName(fn))+"/parent only when the marker is empty", m.Pos(cs.Pos()), hasFact(factsAt(cs), strEq(isCV, "", true)),
					"the application role (which may fork) is taken only when GO_TELEMETRY_CHILD is unset/empty")
			case "telemetry.child":
				r.Check("C16.dispatch", short(refName(fn))+"/child only when the marker is 1", m.Pos(cs.Pos()), hasFact(factsAt(cs), strEq(isCV, "1", true)),
					"the sidecar role is taken only when GO_TELEMETRY_CHILD=1")
			case "telemetry.startChild", "os/exec.Command", "telemetry.acquireUploadToken", "counter.Open":
				r.Check("C16.dispatch", short(refName(fn))+"/no direct "+n, m.Pos(cs.Pos()), false, "Start/MaybeChild must only dispatch")
			}
		}
		// under marker "2": nothing but constructing the result / returning
		for _, cs := range callsIn(fn) {
			if hasFact(factsAt(cs), strEq(isCV, "2", true)) {
				n := calleeName(cs.Common())
				r.Check("C16.dispatch", short(refName(fn))+"/descendant does nothing: "+n, m.Pos(cs.Pos()), false, "a descendant of the sidecar (marker 2) must not run any telemetry logic; calls "+n)
			}
		}
	}
	// the "2" arm exists in Start: some comparison of the marker with "2"
	has2 := false
	for _, in := range instrsOf(start) {
		if b, ok := in.(*ssa.BinOp); ok {
			if k, isC := constOf(b.Y); isC && k == "2" && isCV(b.X) {
				has2 = true
			}
		}
	}
	r.Check("C16.dispatch", "Start/recognises the descendant marker", m.Pos(start.Pos()), has2, "Start must compare the marker with \"2\"")
	for _, spec := range []struct {
		fn      *ssa.Function
		callers string
	}{{startChild, "telemetry.parent"}, {parent, "telemetry.Start"}, {child, "telemetry.Start|telemetry.MaybeChild"}, {acquire, "telemetry.parent"}} {
		for _, cs := range m.callersOf(spec.fn) {
			r.Check("C16.dispatch", "caller of "+spec.fn.Name()+": "+fname(cs.Parent()), m.Pos(cs.Pos()), strings.Contains("|"+spec.callers+"|", "|"+fname(cs.Parent())+"|"),
				spec.fn.Name()+" may be called only from "+spec.callers)
		}
		r.Check("C16.dispatch", spec.fn.Name()+" is not used as a value", m.Pos(spec.fn.Pos()), len(m.usesOfFunc(spec.fn)) == 0, "must not escape as a function value")
	}
	// constants: startChild puts childVar+"=1" in Env; child sets "2"
	envOK := false
	for _, in := range instrsOf(startChild) {
		if cl, ok := in.(*ssa.Call); ok && calleeName(&cl.Call) == "builtin:append" {
			if _, el, ok := appendedElems(cl); ok && len(el) == 1 {
				if k, isC := constOf(el[0]); isC && k == childVar+"=1" {
					if strings.HasPrefix(describeArg(cl, 0), "os.Environ()") {
						envOK = true
					}
				}
			}
		}
	}
	r.Check("C16.dispatch", "startChild/child environment = os.Environ()+marker=1", m.Pos(startChild.Pos()), envOK, "the sidecar is started with "+childVar+"=1 appended to the inherited environment")

	// ---- fork gate ---------------------------------------------------------
	for _, cs := range callsIn(parent, "telemetry.startChild") {
		fb := newFormulaBuilder()
		var stat *ssa.Call
		fb.namer = func(v ssa.Value) (string, bool) {
			if isModeString(v) {
				return "mode", true
			}
			if e, ok := v.(*ssa.Extract); ok && e.Index == 1 {
				if cl, ok := e.Tuple.(*ssa.Call); ok && calleeName(&cl.Call) == "os.Stat" && strings.Contains(describeArg(cl, 0), "LocalDir(") {
					stat = cl
					return "statErr", true
				}
			}
			if _, f, ok := fieldLoad(v); ok && (f == "Upload" || f == "ReportCrashes") {
				return f, true
			}
			if cl, ok := v.(*ssa.Call); ok && calleeName(&cl.Call) == "telemetry.acquireUploadToken" {
				return "token", true
			}
			if p, ok := v.(*ssa.Parameter); ok && p.Parent() == parent {
				return "config", true
			}
			return "", false
		}
		got := fb.reach(cs.Block())
		want := bAnd{[]BExpr{bNot{bStr{"mode", "off"}}, bBool{"isnil(statErr)"}, bOr{[]BExpr{bBool{"ReportCrashes"}, bAnd{[]BExpr{bBool{"Upload"}, bBool{"token"}}}}}}}
		ok, why, nw := equivalent(got, want)
		r.Check("C16.fork-gate", "parent/startChild condition", m.Pos(cs.Pos()), ok && len(fb.undec) == 0,
			fmt.Sprintf("the child is launched iff mode != off ∧ local dir exists ∧ (ReportCrashes ∨ (Upload ∧ token acquired)); %d worlds; %s; code: %s", nw, why, got.String()))
		_ = stat
	}
	r.Check("C16.fork-gate", "parent/has the launch site", m.Pos(parent.Pos()), len(callsIn(parent, "telemetry.startChild")) == 1, "exactly one launch site")
	for _, cs := range callsIn(parent, "telemetry.acquireUploadToken") {
		fb := newFormulaBuilder()
		fb.namer = func(v ssa.Value) (string, bool) {
			if _, f, ok := fieldLoad(v); ok && f == "Upload" {
				return f, true
			}
			if isModeString(v) {
				return "mode", true
			}
			return "", false
		}
		got := fb.reach(cs.Block())
		ok, why, _ := implies(got, bAnd{[]BExpr{bBool{"Upload"}, bNot{bStr{"mode", "off"}}}})
		r.Check("C16.fork-gate", "parent/token asked only when uploading is requested", m.Pos(cs.Pos()), ok, "acquireUploadToken (which creates/removes the token file) only under config.Upload ∧ mode != off; "+why)
	}
	// mode off: every effectful call in parent lies under mode != off
	for _, cs := range callsIn(parent) {
		n := calleeName(cs.Common())
		if n == "counter.Open" || n == "os.Stat" || n == "telemetry.acquireUploadToken" || n == "telemetry.startChild" || effectTable[n] != "" {
			r.Check("C16.fork-gate", "parent/"+n+" under mode != off", m.Pos(cs.Pos()), hasFact(factsAt(cs), modeOffFact(false)), "with mode off nothing is launched and nothing is written")
		}
	}

	// the directory override precedes every consultation of telemetry.Default: a read of the
	// global that can still be followed by a store to it consulted the wrong directory
	// (mode file, local dir, token) for a configured TelemetryDir.
	if def := m.GlobalVar("internal/telemetry", "Default"); def != nil {
		isStoreDef := func(in ssa.Instruction) bool {
			st, ok := in.(*ssa.Store)
			return ok && st.Addr == ssa.Value(def)
		}
		never := func(ssa.Instruction) bool { return false }
		for _, fn := range []*ssa.Function{parent, child} {
			nRead, nStore := 0, 0
			for _, in := range instrsOf(fn) {
				if isStoreDef(in) {
					nStore++
				}
				ld, ok := in.(*ssa.UnOp)
				if !ok || ld.Op != token.MUL || ld.X != ssa.Value(def) {
					continue
				}
				nRead++
				late := reachesWithout(ld, isStoreDef, never)
				detail := "no later override"
				if late != nil {
					detail = "telemetry.Default is read here and overridden afterwards at " + m.Pos(late.Pos())
				}
				r.Check("C16.fork-gate", fmt.Sprintf("%s/telemetry.Default read #%d follows the TelemetryDir override", fn.Name(), nRead), m.Pos(ld.Pos()), late == nil, detail)
			}
			r.Check("C16.fork-gate", fn.Name()+"/applies the TelemetryDir override", m.Pos(fn.Pos()), nStore == 1, fmt.Sprintf("%d stores to telemetry.Default, %d direct reads", nStore, nRead))
		}
	} else {
		r.Check("C16.fork-gate", "telemetry.Default resolved", "-", false, "global not found")
	}

	// "mode off" is decided by Dir.Mode: it must recognise off however the file was written
	c02ModeRead(c, m, "C16.fork-gate")

	// ---- marker first -----------------------------------------------------
	var setenv ssa.CallInstruction
	for _, cs := range callsIn(child, "os.Setenv") {
		k0, _ := constOf(argsOf(cs)[0])
		k1, _ := constOf(argsOf(cs)[1])
		if k0 == childVar && k1 == "2" {
			setenv = cs
		}
	}
	r.Check("C16.marker-first", "child/sets the marker to 2", m.Pos(child.Pos()), setenv != nil, "child must os.Setenv("+childVar+", \"2\")")
	if setenv != nil {
		r.Check("C16.marker-first", "child/marker set unconditionally", m.Pos(setenv.Pos()), setenv.Block().Dominates(exitBlockOrSelf(child, setenv)) && len(factsAt(setenv)) >= 0 && entryReachesWithout(child, isReturnOrExit, func(in ssa.Instruction) bool { return in == ssa.Instruction(setenv) }) == nil,
			"every path through child passes the Setenv")
		allowedBefore := map[string]bool{"log.SetPrefix": true, "os.Getpid": true, "fmt.Sprintf": true, "internal/telemetry.NewDir": true}
		for _, cs := range callsInAll(child) {
			if cs == setenv {
				continue
			}
			n := calleeName(cs.Common())
			if cs.Parent() == child && precedes(cs, setenv) {
				r.Check("C16.marker-first", "child/before the marker: "+n, m.Pos(cs.Pos()), allowedBefore[n], "only logging set-up and directory selection may precede the marker rewrite; found "+n)
				continue
			}
			if n == "counter.Open" || n == "internal/crashmonitor.Child" || n == "telemetry.uploaderChild" || strings.HasSuffix(n, "errgroup.Group).Go") {
				okOrder := cs.Parent() != child || precedes(setenv, cs)
				r.Check("C16.marker-first", "child/"+n+" after the marker", m.Pos(cs.Pos()), okOrder, "anything that may start a subprocess must run after the marker is 2")
			}
		}
	}
	// nothing reachable from child touches the marker again / clears the environment
	effs, chains := m.reachableEffects([]*ssa.Function{child}, nil)
	nExec := 0
	for _, e := range effs {
		switch e.Kind {
		case effEnv:
			ok := e.Call == setenv
			if !ok && e.Name == "os.Setenv" {
				k0, isC := constOf(argsOf(e.Call)[0])
				ok = isC && k0 != childVar
			}
			r.Check("C16.marker-first", "env effect "+e.Name+" in "+fname(e.Fn), m.Pos(e.Call.Pos()), ok, "the marker must not be unset, cleared or rewritten after child set it; chain: "+chainString(chains[e.Fn]))
		case effExec:
			nExec++
			// cmd.Env either untouched or built from os.Environ()/cmd.Environ()
			okEnv := true
			for _, in := range instrsOf(e.Fn) {
				st, ok := in.(*ssa.Store)
				if !ok {
					continue
				}
				fa, ok := st.Addr.(*ssa.FieldAddr)
				if !ok {
					continue
				}
				if _, fld, _ := fieldAddrName(fa); fld == "Env" && namedType(fa.X.Type()) == "os/exec.Cmd" {
					d := describe(st.Val)
					if !(strings.Contains(d, "os.Environ()") || strings.Contains(d, ").Environ(")) {
						okEnv = false
					}
				}
			}
			r.Check("C16.marker-first", "exec site in "+fname(e.Fn)+" inherits the environment", m.Pos(e.Call.Pos()), okEnv, "subprocesses of the sidecar must inherit the marker (Env nil or built from os.Environ()); chain: "+chainString(chains[e.Fn]))
			r.Check("C16.marker-first", "exec site in "+fname(e.Fn)+" is not the sidecar launcher", m.Pos(e.Call.Pos()), e.Fn != startChild, "startChild must not be reachable from child")
		}
	}
	r.Analysed["exec_sites_reachable_from_child"] = nExec

	// ---- token --------------------------------------------------------------
	var open *ssa.Call
	for _, cs := range callsIn(acquire, "os.OpenFile") {
		open = cs.(*ssa.Call)
	}
	r.Check("C16.token", "acquireUploadToken/creates the token with OpenFile", m.Pos(acquire.Pos()), open != nil, "the token must be taken by os.OpenFile")
	if open != nil {
		r.Check("C16.token", "acquireUploadToken/exclusive create", m.Pos(open.Pos()), m.openFlagsHave(&open.Call, "O_CREATE", "O_EXCL"), "O_CREATE|O_EXCL: only one of several concurrent starters can succeed")
		tokName := describeArg(open, 0)
		r.Check("C16.token", "acquireUploadToken/token path", m.Pos(open.Pos()), strings.Contains(tokName, "LocalDir(") && strings.Contains(tokName, `"upload.token"`), "got "+tokName)
		var stat *ssa.Call
		for _, cs := range callsIn(acquire, "os.Stat") {
			if describeArg(cs, 0) == tokName {
				stat = cs.(*ssa.Call)
			}
		}
		namer := func(v ssa.Value) (string, bool) {
			if e, ok := v.(*ssa.Extract); ok && e.Index == 1 {
				if e.Tuple == ssa.Value(open) {
					return "createErr", true
				}
				if stat != nil && e.Tuple == ssa.Value(stat) {
					return "statErr", true
				}
			}
			if cl, ok := v.(*ssa.Call); ok {
				switch calleeName(&cl.Call) {
				case "time.Since":
					// the age of the token is measured from its modification time as recorded by
					// the file system (not a rounded or truncated one)
					if mt, ok := strip(argsOf(cl)[0]).(*ssa.Call); ok && strings.HasSuffix(calleeName(&mt.Call), ".ModTime") {
						var recv ssa.Value = mt.Call.Value
						if !mt.Call.IsInvoke() && len(mt.Call.Args) > 0 {
							recv = mt.Call.Args[0]
						}
						if e, ok := strip(recv).(*ssa.Extract); ok && stat != nil && e.Tuple == ssa.Value(stat) && e.Index == 0 {
							return "age", true
						}
					}
					return "", false
				case "os.IsNotExist":
					return "notExist", true
				}
			}
			return "", false
		}
		for _, b := range acquire.Blocks {
			ret, ok := b.Instrs[len(b.Instrs)-1].(*ssa.Return)
			if !ok {
				continue
			}
			if k, isC := constOf(ret.Results[0]); !isC || k == "true" {
				// the condition under which true is returned: reaching the return with a true result
				// (a result assembled from several exits is a phi; its formula is the disjunction
				// over the exits that carry true)
				fb := newFormulaBuilder()
				fb.namer = namer
				var got BExpr = bAnd{[]BExpr{fb.reach(b), fb.formula(ret.Results[0])}}
				want := bAnd{[]BExpr{bBool{"isnil(createErr)"}, bOr{[]BExpr{bNot{bBool{"isnil(statErr)"}}, mkOrd("age", ">=", "86400000000000")}}}}
				ok2, why, _ := implies(got, want)
				r.Check("C16.token", "acquireUploadToken/true only after a successful exclusive create", m.Pos(ret.Pos()), ok2, "return true ⇒ create succeeded ∧ (no token existed ∨ it was at least 24h old); "+why+" code: "+got.String())
				r.Check("C16.token", "acquireUploadToken/result decided", m.Pos(ret.Pos()), len(fb.undec) == 0, "undecided parts: "+strings.Join(fb.undec, "; "))
			}
		}
		for _, cs := range callsIn(acquire, "os.Remove") {
			fb := newFormulaBuilder()
			fb.namer = namer
			got := fb.reach(cs.Block())
			ok2, why, _ := implies(got, bAnd{[]BExpr{bBool{"isnil(statErr)"}, mkOrd("age", ">=", "86400000000000")}})
			r.Check("C16.token", "acquireUploadToken/stale token removed only when old", m.Pos(cs.Pos()), ok2 && describeArg(cs, 0) == tokName, "os.Remove(token) ⇒ token exists ∧ age >= 24h; "+why)
		}
		r.Check("C16.token", "acquireUploadToken/reads the token's age", m.Pos(acquire.Pos()), stat != nil, "os.Stat(token) must be consulted")
	}
	// no other creator/remover of the token file in the module's library code
	for _, fn := range m.PkgFuncs("") {
		if fn == acquire {
			continue
		}
		for _, e := range directEffects(fn) {
			if e.Kind == effFS && strings.Contains(describeArg(e.Call, 0), `"upload.token"`) {
				r.Check("C16.token", "token touched in "+fname(fn), m.Pos(e.Call.Pos()), false, "only acquireUploadToken may create or remove the token")
			}
		}
	}
	r.Floor("C16.dispatch", 8)
}

func isReturnOrExit(in ssa.Instruction) bool {
	if _, ok := in.(*ssa.Return); ok {
		return true
	}
	return isCallTo(in, "os.Exit")
}

func exitBlockOrSelf(fn *ssa.Function, in ssa.Instruction) *ssa.BasicBlock { return in.Block() }
