package main

// C05 — telemetry failures never crash, hang or block the host program (structural part).

import (
	"fmt"
	"go/token"
	"go/types"
	"os"
	"os/exec"
	"path/filepath"
	"sort"
	"strings"

	"golang.org/x/tools/go/ssa"
)

func init() {
	register("C05", &propDef{
		run:    runC05,
		matrix: true,
		decided: []string{
			"inventory of explicit panic / log.Fatal / os.Exit sites reachable from the host-facing entry points: each recovered, unreachable by entailment, child-only, or tabled API misuse",
			"every index/slice/widened access in the reachable functions of internal/counter, internal/mmap, internal/upload, internal/telemetry is entailed in range",
			"every loop there has a progress measure or is a tabled CAS-retry/probabilistic loop",
			"results of failed calls are not used: a pointer result of a (T, error) call is dereferenced only where err == nil is established",
			"failure parks: rotate1's error paths call fail(); openMapped closes what it opened; record writes stay inside the record region; uint32 rounding of file-controlled values is wrap-checked",
		},
		notDecided: []string{"behaviour under every sequence of injected faults", "isolation of other counters' values in general", "SIGBUS on foreign truncation", "Windows semantics"},
	})
}

func c05Entry(m *Module) []*ssa.Function {
	return []*ssa.Function{
		m.Func("counter", "Open"), m.Func("counter", "OpenAndRotate"), m.Func("counter", "OpenDir"), m.Func("counter", "New"), m.Func("counter", "NewStack"),
		m.Func("counter", "Inc"), m.Func("counter", "Add"),
		m.Func("internal/counter", "Counter.Add"), m.Func("internal/counter", "Counter.Inc"), m.Func("internal/counter", "StackCounter.Inc"),
		m.Func("internal/counter", "Open"), m.Func("internal/counter", "file.rotate"),
		m.Func("", "Start"), m.Func("", "MaybeChild"), m.Func("", "Mode"), m.Func("", "SetMode"),
		m.Func("internal/upload", "Run"),
	}
}

var c05Pkgs = map[string]bool{"internal/counter": true, "internal/mmap": true, "internal/upload": true, "internal/telemetry": true, "counter": true, "": true, "internal/configstore": true, "internal/config": true}

func c05Reach(m *Module) ([]*ssa.Function, map[*ssa.Function][]*ssa.Function) {
	chains := m.reach(c05Entry(m), nil)
	var out []*ssa.Function
	for f := range chains {
		if f.Blocks == nil {
			continue
		}
		p := f.Pkg
		if p == nil && f.Origin() != nil {
			p = f.Origin().Pkg
		}
		for q := f; p == nil && q.Parent() != nil; q = q.Parent() {
			p = q.Parent().Pkg
		}
		if p == nil || !strings.HasPrefix(p.Pkg.Path(), modPath) {
			continue
		}
		rel := strings.TrimPrefix(strings.TrimPrefix(p.Pkg.Path(), modPath), "/")
		if c05Pkgs[rel] {
			out = append(out, f)
		}
	}
	sort.Slice(out, func(i, j int) bool { return out[i].String() < out[j].String() })
	return out, chains
}

func runC05(c *Ctx) {
	m := c.Root()
	r := c.R
	fns, chains := c05Reach(m)
	r.Analysed["functions_reachable_from_host_entry_points"] = len(fns)
	nB, nL := 0, 0
	for _, f := range fns {
		nB += boundsObligationsT(r, m, "C05.bounds", f, c05BoundsTable)
		nL += loopObligations(r, m, "C05.loops", f, c05LoopTable)
	}
	r.Check("C05.bounds", "obligations enumerated", "-", nB >= 30, fmt.Sprintf("%d obligations", nB))
	r.Check("C05.loops", "loops enumerated", "-", nL >= 14, fmt.Sprintf("%d loops", nL))
	c05Recover(c, m)
	c05Panics(c, m, fns, chains)
	c05ErrUse(c, m, fns)
	c05SharedPointers(c, m, fns)
	// no self-deadlock on f.mu: invalidateCounters never runs under it
	c.R.As(map[string]string{"C03.swap-order": "C05.mutex-pairing"}, func() { c03Swap(c, m) })
	c05FailParks(c, m)
	c05WriteRegion(c, m)
	c05Wrap(c, m)
	c05HdrLen(c, m)
	c05Mutex(c, m, fns)
	c05ErrorsChecked(c, m, fns)
	if c.Tier == "thorough" && c.goos == "linux" && c.arch == "amd64" {
		c05BCE(c, m, "C05.bce-crosscheck", []string{"internal/counter", "internal/upload", "internal/telemetry", "internal/mmap", "internal/config", "internal/configstore", "counter", "."}, fns)
	}
}

// one line of reason per exception
var c05BoundsTable = boundsTable{
	"(*internal/upload.uploader).uploadReportContents/slice slice(strings.TrimSuffix(": "a report name shorter than a date panics here; upload.Run recovers it on the same goroutine (C05.recover) - the run is abandoned, the host is not affected",
	"internal/upload.debugLogFile/index strings.Fields(":                               "an empty Go version string panics here; recovered by upload.Run (C05.recover); only reached when the user created the debug directory",
	"internal/upload.latestReport/slice":                                               "every non-empty value of latest was assigned under HasSuffix(name, \".json\"), so len ≥ 5; otherwise recovered by upload.Run",
	"internal/mmap.mmapFile/slice":                                                     "contract: syscall.Mmap returns a slice of the requested length, which is size rounded up to the page size ≥ n",
	"internal/telemetry.ProgramInfo/index *global:os.Args[0]":                          "contract: a process has at least argv[0]",
	"internal/upload.debugLogFile/index *global:os.Args[0]":                            "contract: a process has at least argv[0]",
	"telemetry.startChild/unchecked type assertion to *os.File":                        "contract of os/exec: StdinPipe returns an *os.File when Stdin was nil",
	"internal/mmap.munmapFile/index param:d.Data[0]":                                   "(windows) mappings closed on the host-facing paths come from openMapped, which maps only files of at least minFileLen bytes; an empty mapping arises only through the test API ReadMapped (observation O8)",
}

var c05LoopTable = map[string]string{
	"(*internal/counter.file).invalidateCounters/loop while (phi).invalidateCounters != &param:f.end)":        "walk of the in-memory list of registered counters; each counter is linked once (next is CASed from nil), the list ends at &f.end",
	"(*internal/counter.mappedFile).newCounter/loop while (phi).newCounter != phi).newCounter)":               "duplicate-check walk from the new head to the previous head: lookup has just walked the whole (bounded) chain from the previous head on this mapping, and the records in front of it were prepended by live writers",
	"internal/counter.EncodeStack/loop exiting on (*runtime.Frames).Next(runtime.CallersFrames(param:pcs))#1": "contract: runtime.Frames yields finitely many frames for a finite PC slice",
	"internal/upload.computeRandom/loop while (crypto/rand.Read(slice(alloc:makeslice#t0,_,8,_))#1 != nil)":   "probabilistic rejection loop: each iteration accepts with probability > 0.99",
}

// c05NeverFails: calls whose error result is documented to be always nil (library contract).
var c05NeverFails = map[string]bool{
	"(*strings.Builder).Write": true, "(*strings.Builder).WriteByte": true, "(*strings.Builder).WriteRune": true, "(*strings.Builder).WriteString": true,
	"(*bytes.Buffer).Write": true, "(*bytes.Buffer).WriteByte": true, "(*bytes.Buffer).WriteRune": true, "(*bytes.Buffer).WriteString": true,
}

// c05Recover: upload.Run recovers panics and nothing under uploader.Run starts a goroutine.
func c05Recover(c *Ctx, m *Module) {
	r := c.R
	run := m.Func("internal/upload", "Run")
	okRec := false
	for _, in := range instrsOf(run) {
		if d, ok := in.(*ssa.Defer); ok {
			if f := funcValue(d.Call.Value); f != nil && len(callsIn(f, "builtin:recover")) == 1 {
				// deferred before anything else can panic: it is the first call-like instruction
				okRec = entryReachesWithout(run, func(x ssa.Instruction) bool {
					cc := callOf(x)
					return cc != nil && x != ssa.Instruction(d) && calleeName(cc) != "builtin:recover"
				}, func(x ssa.Instruction) bool { return x == ssa.Instruction(d) }) == nil
			}
		}
	}
	r.Check("C05.recover", "upload.Run/recovers panics before doing anything", m.Pos(run.Pos()), okRec, "Run must defer a recover() as its first action")
	chains := m.reach([]*ssa.Function{m.Func("internal/upload", "uploader.Run"), m.Func("internal/upload", "newUploader")}, nil)
	for f := range chains {
		if f.Blocks == nil || f.Pkg == nil || !strings.HasPrefix(f.Pkg.Pkg.Path(), modPath) {
			continue
		}
		for _, in := range instrsOf(f) {
			if g, ok := in.(*ssa.Go); ok {
				r.Check("C05.recover", "goroutine started under the uploader in "+fname(f), m.Pos(g.Pos()), false, "a panic on another goroutine is not recovered by Run's deferred recover")
			}
		}
	}
}

var c05PanicTable = map[string]string{
	`(*internal/counter.Counter).Add/panic "Counter.Add negative"`:                         "API misuse by the host (documented precondition), not a telemetry failure",
	`internal/counter.Open/panic "BUG: Open called with inconsistent values for 'rotate'"`: "API misuse by the host: Open and OpenAndRotate mixed in one process",
	`(*internal/counter.mappedFile).cas32/panic "bad cas32"`:                               "unreachable: both callers pass header-relative offsets (limit word, bucket head) that lie inside the first page of a mapping openMapped has checked to be ≥ minFileLen",
	`telemetry.Start/log.Fatalf`:                                                           "API misuse: unexpected value of the child marker set by the embedding program",
	`telemetry.child/os.Exit`:                                                              "runs only in the sidecar process, which exits when done",
	`internal/counter.debugFatalf/os.Exit`:                                                 "only when GODEBUG=countertrace=1 or the test switch CrashOnBugs is set",
	`internal/configstore.Download/panic`:                                                  "",
}

func c05Panics(c *Ctx, m *Module, fns []*ssa.Function, chains map[*ssa.Function][]*ssa.Function) {
	r := c.R
	underRun := m.reach([]*ssa.Function{m.Func("internal/upload", "uploader.Run"), m.Func("internal/upload", "newUploader")}, nil)
	// is f reachable from an entry point WITHOUT passing through upload.Run?
	notViaRun := m.reach(c05Entry(m), func(f *ssa.Function) bool { return fname(f) == "internal/upload.Run" })
	childOnly := m.reach([]*ssa.Function{m.Func("", "child")}, nil)
	notViaChild := m.reach(c05Entry(m), func(f *ssa.Function) bool { return fname(f) == "telemetry.child" })
	n := 0
	for _, f := range fns {
		for _, in := range instrsOf(f) {
			key := ""
			switch x := in.(type) {
			case *ssa.Panic:
				msg := describe(x.X)
				if k, ok := constOf(x.X); ok {
					msg = fmt.Sprintf("%q", k)
				} else {
					msg = ""
				}
				key = fname(f) + "/panic " + msg
				key = strings.TrimSuffix(key, " ")
			case ssa.CallInstruction:
				nm := calleeName(x.Common())
				if nm == "os.Exit" || strings.HasPrefix(nm, "log.Fatal") || strings.HasPrefix(nm, "log.Panic") {
					key = fname(f) + "/" + nm
				}
			}
			if key == "" {
				continue
			}
			n++
			_, inRun := underRun[f]
			_, outside := notViaRun[f]
			_, inChild := childOnly[f]
			_, outsideChild := notViaChild[f]
			reason, tabled := c05PanicTable[key]
			switch {
			case tabled && reason != "":
				r.Check("C05.panics", key, m.Pos(in.Pos()), true, "tabled: "+reason)
			case inRun && !outside:
				r.Check("C05.panics", key, m.Pos(in.Pos()), true, "reachable only under upload.Run, whose deferred recover catches it (C05.recover)")
			case inChild && !outsideChild:
				r.Check("C05.panics", key, m.Pos(in.Pos()), true, "reachable only in the sidecar process (telemetry.child)")
			default:
				r.Check("C05.panics", key, m.Pos(in.Pos()), false, "an explicit panic/exit reachable from a host-facing entry point must be recovered, child-only, or tabled API misuse; chain: "+chainString(chains[f]))
			}
		}
	}
	r.Check("C05.panics", "sites enumerated", "-", n >= 5, fmt.Sprintf("%d explicit panic/exit sites", n))
}

// c05ErrUse: the non-error result of a failed call must not be used.
func c05ErrUse(c *Ctx, m *Module, fns []*ssa.Function) {
	r := c.R
	n := 0
	for _, f := range fns {
		for _, in := range instrsOf(f) {
			call, ok := in.(*ssa.Call)
			if !ok {
				continue
			}
			tup, ok := call.Type().(*types.Tuple)
			if !ok || tup.Len() < 2 || !isErrorType(tup.At(tup.Len()-1).Type()) {
				continue
			}
			for _, u := range referrers(call) {
				ex, ok := u.(*ssa.Extract)
				if !ok || ex.Index == tup.Len()-1 {
					continue
				}
				if !isNilable(ex.Type()) {
					continue
				}
				for _, use := range referrers(ex) {
					if !derefs(use, ex) {
						continue
					}
					n++
					okFact := hasFact(factsAt(use), errNilOf(call))
					// the use may sit in the same block before any branching on err: only if no path with err != nil reaches it; without the fact we cannot know
					r.Check("C05.err-use", fname(f)+"/result of "+calleeName(&call.Call)+" used by "+useKind(use), m.Pos(use.Pos()), okFact,
						"the value returned alongside a non-nil error is meaningless (typically nil): it may be dereferenced only where err == nil is established on every path")
				}
			}
		}
	}
	r.Check("C05.err-use", "uses enumerated", "-", n >= 10, fmt.Sprintf("%d dereferencing uses of (T, error) results", n))
}

func isNilable(t types.Type) bool {
	switch t.Underlying().(type) {
	case *types.Pointer, *types.Interface:
		return true
	}
	return false
}

// derefs: instruction `use` dereferences value v (field access, load, method call on it).
func derefs(use ssa.Instruction, v ssa.Value) bool {
	switch x := use.(type) {
	case *ssa.FieldAddr:
		return x.X == v
	case *ssa.UnOp:
		return x.Op == token.MUL && x.X == v
	case ssa.CallInstruction:
		cc := x.Common()
		if cc.IsInvoke() {
			return cc.Value == v
		}
		if f := cc.StaticCallee(); f != nil && f.Signature.Recv() != nil && len(cc.Args) > 0 && cc.Args[0] == v {
			// methods of *os.File tolerate a nil receiver (return ErrInvalid); repo methods do not
			return !strings.HasPrefix(calleeName(cc), "(*os.File).")
		}
	}
	return false
}

func useKind(in ssa.Instruction) string {
	switch x := in.(type) {
	case *ssa.FieldAddr:
		_, f, _ := fieldAddrName(x)
		return "field ." + f
	case *ssa.UnOp:
		return "load"
	case ssa.CallInstruction:
		return "call " + calleeName(x.Common())
	}
	return fmt.Sprintf("%T", in)
}

// c05FailParks: failures inside rotate1 park the file; openMapped closes what it opened.
func c05FailParks(c *Ctx, m *Module) {
	r := c.R
	rot := m.Func("internal/counter", "file.rotate1")
	var failFn *ssa.Function
	for _, a := range rot.AnonFuncs {
		// the closure that stores f.err and clears f.current
		storesErr := false
		for _, in := range instrsOf(a) {
			if st, ok := in.(*ssa.Store); ok {
				if fa, ok := st.Addr.(*ssa.FieldAddr); ok {
					if _, fld, _ := fieldAddrName(fa); fld == "err" {
						storesErr = true
					}
				}
			}
		}
		clears := false
		for _, cs := range callsIn(a) {
			if strings.Contains(calleeName(cs.Common()), "Pointer[") && strings.Contains(calleeName(cs.Common()), ".Store") && isNilConst(argsOf(cs)[1]) {
				clears = true
			}
		}
		if storesErr && clears {
			failFn = a
		}
	}
	// the park action may also be written out in rotate1 itself (fail as a method, expanded by
	// E14, or simply inline): f.current.Store(nil) next to a store of f.err in the same block
	inlinePark := func(in ssa.Instruction) bool {
		cc := callOf(in)
		if cc == nil || in.Parent() != rot {
			return false
		}
		n := calleeName(cc)
		if !(strings.Contains(n, "Pointer[") && strings.Contains(n, ".Store") && isNilConst(cc.Args[1])) {
			return false
		}
		for _, other := range in.Block().Instrs {
			if st, ok := other.(*ssa.Store); ok {
				if fa, ok := st.Addr.(*ssa.FieldAddr); ok {
					if _, fld, _ := fieldAddrName(fa); fld == "err" {
						return true
					}
				}
			}
		}
		return false
	}
	nInline := 0
	for _, in := range instrsOf(rot) {
		if inlinePark(in) {
			nInline++
		}
	}
	r.Check("C05.fail-parks", "rotate1/has a fail action that records the error and clears the current mapping", m.Pos(rot.Pos()), failFn != nil || nInline > 0, "fail(err) must set f.err and f.current = nil")
	if failFn == nil && nInline == 0 {
		return
	}
	isFail := func(in ssa.Instruction) bool {
		if inlinePark(in) {
			return true
		}
		cc := callOf(in)
		if cc == nil || failFn == nil {
			return false
		}
		if mc, ok := cc.Value.(*ssa.MakeClosure); ok && mc.Fn == failFn {
			return true
		}
		return cc.StaticCallee() == failFn
	}
	// every error-reporting call in rotate1: on its error edge, fail() precedes every return
	n := 0
	for _, cs := range callsIn(rot) {
		call, ok := cs.(*ssa.Call)
		if !ok {
			continue
		}
		returnsErr := false
		if tup, ok := call.Type().(*types.Tuple); ok {
			returnsErr = tup.Len() > 0 && isErrorType(tup.At(tup.Len()-1).Type())
		} else {
			returnsErr = isErrorType(call.Type())
		}
		if !returnsErr {
			continue
		}
		n++
		// find returns under errNonNil(call) not preceded by fail
		bad := ""
		for _, b := range rot.Blocks {
			ret, ok := b.Instrs[len(b.Instrs)-1].(*ssa.Return)
			if !ok || !hasFact(factsAt(ret), errNonNilOf(call)) {
				continue
			}
			preceded := false
			for _, in := range instrsOf(rot) {
				if isFail(in) && (precedes(in, ret)) && hasFact(factsAt(in), errNonNilOf(call)) {
					preceded = true
				}
			}
			if !preceded {
				bad = m.Pos(ret.Pos())
			}
		}
		r.Check("C05.fail-parks", "rotate1/error of "+calleeName(&call.Call)+" parks the file", m.Pos(call.Pos()), bad == "", "every return taken because this call failed must be preceded by fail(err); offending return at "+bad)
	}
	r.Check("C05.fail-parks", "rotate1/error-returning calls enumerated", m.Pos(rot.Pos()), n >= 3, fmt.Sprintf("%d calls", n))
	// mode off parks with ErrDisabled
	for _, b := range rot.Blocks {
		ret, ok := b.Instrs[len(b.Instrs)-1].(*ssa.Return)
		if !ok || !hasFact(factsAt(ret), modeOffFact(true)) {
			continue
		}
		preceded := false
		for _, in := range instrsOf(rot) {
			if isFail(in) && precedes(in, ret) {
				preceded = true
			}
		}
		r.Check("C05.fail-parks", "rotate1/mode off parks the file", m.Pos(ret.Pos()), preceded, "fail(ErrDisabled) before returning")
	}
	// who may unmap: (*mappedFile).close is called only where the mapping is private to the caller
	// (a mapping being built or superseded inside openMapped / newCounter / extend), in the
	// deferred clean-ups of rotate1 and newCounter1 (after the counters were invalidated: C03),
	// and in the closer returned by Open. A close anywhere else — the failure path of a
	// rotation, say — unmaps memory that counters still point into.
	{
		mclose := m.Func("internal/counter", "mappedFile.close")
		allowed := map[string]string{
			"internal/counter.openMapped":               "a mapping being built",
			"(*internal/counter.mappedFile).newCounter": "a superseded private re-mapping",
			"(*internal/counter.mappedFile).extend":     "a re-mapping that failed",
			"(*internal/counter.file).rotate1":          "deferred clean-up only",
			"(*internal/counter.file).newCounter1":      "deferred clean-up only",
			"internal/counter.Open":                     "the closer handed to the application",
		}
		deferredOnly := map[string]bool{"(*internal/counter.file).rotate1": true, "(*internal/counter.file).newCounter1": true}
		n := 0
		for _, cs := range m.callersOf(mclose) {
			n++
			top := fnameTop(cs.Parent())
			_, ok := allowed[top]
			detail := allowed[top]
			if ok && deferredOnly[top] {
				// the call sits in a function literal that is run by a defer of the top-level function
				lit := cs.Parent()
				// (a literal that is called on the spot inside another literal runs when that one does)
				for depth := 0; depth < 3 && lit.Parent() != nil && lit.Parent().Parent() != nil; depth++ {
					onSpot, other := 0, 0
					for _, in := range instrsOf(lit.Parent()) {
						if ci, isCall := in.(*ssa.Call); isCall && funcValue(ci.Call.Value) == lit {
							onSpot++
						} else if _, isD := in.(*ssa.Defer); isD {
							other++
						}
					}
					if onSpot != 1 || other != 0 {
						break
					}
					lit = lit.Parent()
				}
				isDeferred := false
				if lit.Parent() != nil {
					for _, in := range instrsOf(lit.Parent()) {
						if d, isD := in.(*ssa.Defer); isD && funcValue(d.Call.Value) == lit {
							isDeferred = true
						}
					}
				}
				if _, isD := cs.(*ssa.Defer); isD {
					isDeferred = true
				}
				// … or the literal is the clean-up the function RETURNS for its caller to run after
				// unlocking (newCounter1's second result)
				if lit.Parent() != nil && !isDeferred {
					for _, in := range instrsOf(lit.Parent()) {
						mc, isMC := in.(*ssa.MakeClosure)
						if !isMC || mc.Fn != lit {
							continue
						}
						seen := map[ssa.Value]bool{}
						var flows func(v ssa.Value, depth int) bool
						flows = func(v ssa.Value, depth int) bool {
							if seen[v] || depth > 4 {
								return false
							}
							seen[v] = true
							for _, u := range referrers(v) {
								switch x := u.(type) {
								case *ssa.Return:
									return true
								case *ssa.Store:
									// stored into a named result, whose value is what is returned
									if a, isA := x.Addr.(*ssa.Alloc); isA && x.Val == v {
										for _, u2 := range referrers(a) {
											if ld, isLd := u2.(*ssa.UnOp); isLd && flows(ld, depth+1) {
												return true
											}
										}
									}
								case *ssa.Phi:
									if flows(x, depth+1) {
										return true
									}
								case *ssa.ChangeType:
									if flows(x, depth+1) {
										return true
									}
								}
							}
							return false
						}
						if flows(mc, 0) {
							isDeferred = true
						}
					}
				}
				ok = isDeferred
				if !ok {
					detail = "not in the deferred clean-up"
				}
			}
			if ok && (top == "(*internal/counter.mappedFile).extend" || top == "internal/counter.openMapped") {
				// only the mapping this very function made may be unmapped here — never the
				// receiver, which is the mapping the process's counters point into
				recv := strip(argsOf(cs)[0])
				mine := false
				if e, isE := recv.(*ssa.Extract); isE && e.Index == 0 {
					if cl, isC := e.Tuple.(*ssa.Call); isC && calleeName(&cl.Call) == "internal/counter.openMapped" {
						mine = true
					}
				}
				if a, isA := deref(recv).(*ssa.Alloc); isA && fnameTop(a.Parent()) == top {
					mine = true // the mappedFile being built
				}
				if a, isA := recv.(*ssa.Alloc); isA && fnameTop(a.Parent()) == top {
					mine = true
				}
				if !mine {
					ok, detail = false, "unmaps "+shortDesc(describe(recv))+", which this function did not map"
				}
			}
			r.Check("C05.fail-parks", "unmap site in "+fname(cs.Parent()), m.Pos(cs.Pos()), ok,
				"(*mappedFile).close may be called only where no counter can still point into the mapping: "+detail)
		}
		r.Check("C05.fail-parks", "unmap sites enumerated", m.Pos(mclose.Pos()), n >= 6, fmt.Sprintf("%d", n))
	}
	// openMapped: deferred cleanup closes m when err != nil
	om := m.Func("internal/counter", "openMapped")
	okDefer := false
	for _, in := range instrsOf(om) {
		if d, ok := in.(*ssa.Defer); ok {
			if f := funcValue(d.Call.Value); f != nil {
				for _, cs := range callsIn(f, "(*internal/counter.mappedFile).close") {
					if len(factsAt(cs)) > 0 {
						okDefer = true
					}
				}
			}
		}
	}
	if !okDefer {
		// … or every exit that reports an error after the file was opened closes it itself
		okDefer = true
		nErr := 0
		var opened ssa.Instruction
		for _, cs := range callsIn(om, "os.OpenFile") {
			opened = cs
		}
		for _, ex := range exitPaths(om) {
			if opened == nil || !ex.passes(opened) || len(ex.vals) < 2 || isNilConst(refine(ex.vals[1], ex.facts)) {
				continue
			}
			// the exit taken when OpenFile itself failed has nothing to close
			openFailed := false
			for _, f := range ex.facts {
				if e, ok := f.Cond.(*ssa.BinOp); ok && (e.Op == token.NEQ || e.Op == token.EQL) {
					for _, o := range []ssa.Value{e.X, e.Y} {
						if x, ok := o.(*ssa.Extract); ok && x.Tuple == opened.(ssa.Value) && x.Index == 1 && !assertsEq(e, f.Pol) {
							openFailed = true
						}
					}
				}
			}
			if openFailed {
				continue
			}
			nErr++
			closed := false
			for _, cs := range callsIn(om, "(*internal/counter.mappedFile).close") {
				if ex.passes(cs) {
					closed = true
				}
			}
			if !closed {
				okDefer = false
			}
		}
		okDefer = okDefer && nErr > 0
	}
	r.Check("C05.fail-parks", "openMapped/closes what it opened on error", m.Pos(om.Pos()), okDefer, "the partially opened mapping must be closed when an error is reported: by a deferred function under err != nil, or on every error exit")
	// Add's nil-pointer branch only touches extra (no dereference of c.ptr.count)
	add := m.Func("internal/counter", "Counter.Add")
	for _, cs := range callsIn(add, "(*internal/counter.Counter).add") {
		okNil := hasFact(factsAt(cs), func(f Fact) bool {
			b, ok := f.Cond.(*ssa.BinOp)
			if !ok || !isNilConst(b.Y) {
				return false
			}
			_, fld, isF := fieldLoad(b.X)
			nonNil := (b.Op == token.NEQ) == f.Pol
			return isF && fld == "count" && nonNil
		})
		r.Check("C05.fail-parks", "Add/mapped add only with a non-nil pointer", m.Pos(cs.Pos()), okNil, "c.add (which dereferences c.ptr.count) must lie under c.ptr.count != nil")
	}
}

// c05WriteRegion: writeEntryAt stores only inside the record region.
func c05WriteRegion(c *Ctx, m *Module) {
	r := c.R
	w := m.Func("internal/counter", "mappedFile.writeEntryAt")
	numHash := int64(0)
	fmt.Sscan(m.ConstVal("internal/counter", "numHash"), &numHash)
	hashOff := int64(0)
	fmt.Sscan(m.ConstVal("internal/counter", "hashOff"), &hashOff)
	n := 0
	for _, in := range instrsOf(w) {
		isStore := false
		switch x := in.(type) {
		case *ssa.Call:
			nm := calleeName(&x.Call)
			isStore = nm == "builtin:copy" || strings.HasPrefix(nm, "sync/atomic.Store")
		case *ssa.Store:
			isStore = true
		}
		if !isStore {
			continue
		}
		n++
		p := newProver()
		off := p.norm(w.Params[1])
		hdr := linTerm("param:m.hdrLen")
		p.nonneg["param:m.hdrLen"] = true
		facts := p.factsLinAt(in)
		goal := off.add(hdr, -1).add(linConst(hashOff+4*numHash), -1)
		ok, why := p.prove(goal, facts)
		r.Check("C05.write-region", "internal/counter.(*mappedFile).writeEntryAt", m.Pos(in.Pos()), ok,
			fmt.Sprintf("every store of a new record must lie under off ≥ hdrLen + hashOff + 4·numHash (the first record offset place() uses): %s", why))
	}
	r.Check("C05.write-region", "writeEntryAt/stores enumerated", m.Pos(w.Pos()), n >= 2, fmt.Sprintf("%d stores", n))
}

// c05Wrap: rounding a file-controlled uint32 up must be wrap-checked where the
// result decides whether a retry loop continues.
func c05Wrap(c *Ctx, m *Module) {
	r := c.R
	ext := m.Func("internal/counter", "mappedFile.extend")
	n := 0
	for _, cs := range callsIn(ext) {
		nm := calleeName(cs.Common())
		if !strings.HasPrefix(nm, "internal/counter.round[uint32]") {
			continue
		}
		call := cs.(*ssa.Call)
		arg := argsOf(call)[0]
		n++
		// accepted: some call round(arg, unit) with the same arg whose result is compared "< arg" leading to an error return,
		// dominating this use; or this very call is that guard.
		guarded := false
		for _, cs2 := range callsIn(ext) {
			c2, ok := cs2.(*ssa.Call)
			if !ok || calleeName(&c2.Call) != nm || argsOf(c2)[0] != arg {
				continue
			}
			for _, u := range referrers(c2) {
				bo, ok := u.(*ssa.BinOp)
				if !ok {
					continue
				}
				isWrapTest := (bo.Op == token.LSS && bo.X == ssa.Value(c2) && bo.Y == arg) || (bo.Op == token.GTR && bo.Y == ssa.Value(c2) && bo.X == arg)
				if !isWrapTest {
					continue
				}
				for _, succ := range branchSucc(bo, true) {
					if _, rej := rejectBlock(succ); rej {
						if c2 == call || hasFact(factsAt(call), func(f Fact) bool { return f.Cond == ssa.Value(bo) && !f.Pol }) {
							guarded = true
						}
					}
				}
			}
		}
		r.Check("C05.wrap", "internal/counter.(*mappedFile).extend/round(end, pageSize)", m.Pos(call.Pos()), guarded,
			"end derives from the file's allocation limit; rounding it up in uint32 can wrap to a small value, after which extend would report success without growing the file and newCounter's reservation loop would never end: the wrapped case must return an error")
	}
	r.Check("C05.wrap", "extend/rounding sites enumerated", m.Pos(ext.Pos()), n >= 1, fmt.Sprintf("%d rounding sites", n))
}

// c05BCE (thorough tier): the compiler's prove pass as an independent enumerator. Every
// bounds check the Go compiler could NOT eliminate in the covered packages must correspond
// to an obligation of this checker (at the same source line, or at a call site of a function
// that carries obligations - inlined bodies are reported at the caller's line). The packages
// are compiled (not run) from a scratch copy with -d=ssa/check_bce.
func c05BCE(c *Ctx, m *Module, rule string, pkgs []string, fns []*ssa.Function) {
	r := c.R
	scr, err := os.MkdirTemp("", "verifbce.")
	if err != nil {
		r.Notes = append(r.Notes, "BCE cross-reference skipped: "+err.Error())
		return
	}
	defer os.RemoveAll(scr)
	args := []string{"build", "-gcflags=-d=ssa/check_bce/debug=1"}
	for _, p := range pkgs {
		args = append(args, "./"+p)
	}
	cmd := exec.Command("go", args...)
	cmd.Dir = c.Repo
	cmd.Env = append(os.Environ(), "GOCACHE="+filepath.Join(scr, "cache"), "GOFLAGS=-mod=mod", "GOPROXY=off", "GOSUMDB=off", "GOTOOLCHAIN=local", "GOWORK=off")
	out, _ := cmd.CombinedOutput()
	// lines this checker has obligations on (any rule whose key mentions index/slice) + call sites of functions with obligations
	covered := map[string]bool{}
	withObl := map[string]bool{}
	for _, o := range r.Obls {
		if strings.Contains(o.Key, "/index ") || strings.Contains(o.Key, "/slice ") {
			covered[o.Pos] = true
			parts := strings.SplitN(strings.TrimPrefix(o.Key, o.Rule+"/"), "/", 3)
			if len(parts) >= 2 {
				withObl[strings.Join(parts[:len(parts)-1], "/")] = true
			}
		}
	}
	for _, f := range fns {
		for _, cs := range callsIn(f) {
			g := cs.Common().StaticCallee()
			if g != nil && withObl[fname(g)] {
				covered[m.Pos(cs.Pos())] = true
			}
			// a library function inlined at this line: its internal checks are the library's (contract: total)
			if g != nil && g.Blocks == nil && g.Pkg != nil && !strings.HasPrefix(g.Pkg.Pkg.Path(), modPath) {
				covered[m.Pos(cs.Pos())] = true
			}
		}
	}
	n, miss := 0, 0
	reachedFiles := map[string]bool{}
	for _, f := range fns {
		if f.Pos().IsValid() {
			reachedFiles[strings.SplitN(m.Pos(f.Pos()), ":", 2)[0]] = true
		}
	}
	for _, line := range strings.Split(string(out), "\n") {
		if !strings.Contains(line, "Found Is") {
			continue
		}
		parts := strings.SplitN(line, ":", 4)
		if len(parts) < 3 || !reachedFiles[parts[0]] {
			continue
		}
		pos := parts[0] + ":" + parts[1]
		n++
		if !covered[pos] {
			// the site may lie in a function not reachable from the host-facing entry points
			inReach := false
			for _, f := range fns {
				for _, in := range instrsOf(f) {
					if in.Pos().IsValid() && m.Pos(in.Pos()) == pos {
						inReach = true
					}
				}
			}
			if !inReach {
				continue
			}
			miss++
			r.Check(rule, "compiler-unproven bounds check without an obligation at "+pos, pos, false, "the Go compiler kept a bounds check here that this checker did not enumerate: "+strings.TrimSpace(line))
		}
	}
	r.Check(rule, "compiler's unproven bounds checks are all enumerated", "-", n > 0 && miss == 0, fmt.Sprintf("%d unproven checks reported by the compiler in reachable files, %d without a matching obligation", n, miss))
	r.Analysed["compiler_unproven_bounds_checks"] = n
}

// c05HdrLen: the invariant the wrap-aware prover relies on: every value stored into
// mappedFile.hdrLen is at most pageSize (so hdrLen + small constants cannot wrap in uint32).
func c05HdrLen(c *Ctx, m *Module) {
	r := c.R
	mh := m.Func("internal/counter", "mappedHeader")
	okHdr := false
	for _, b := range mh.Blocks {
		ret, ok := b.Instrs[len(b.Instrs)-1].(*ssa.Return)
		if !ok || !isNilConst(ret.Results[1]) {
			continue
		}
		p := newProver()
		ln := p.lenOf(ret.Results[0])
		okHdr, _ = p.prove(linConst(hdrLenBound).add(ln, -1), p.factsLinAt(ret))
	}
	r.Check("C05.hdrlen-bounded", "mappedHeader/header length ≤ pageSize", m.Pos(mh.Pos()), okHdr, "len(hdr) = round(prefix+4+len(meta), 32) with len(meta) ≤ maxMetaLen")
	n := 0
	for _, fn := range m.PkgFuncs("internal/counter") {
		for _, in := range instrsOf(fn) {
			st, ok := in.(*ssa.Store)
			if !ok {
				continue
			}
			fa, ok := st.Addr.(*ssa.FieldAddr)
			if !ok {
				continue
			}
			if _, f, _ := fieldAddrName(fa); f != "hdrLen" || namedType(fa.X.Type()) != "internal/counter.mappedFile" {
				continue
			}
			n++
			d := describe(st.Val)
			ok2 := false
			if strings.HasPrefix(d, "conv<uint32>(builtin:len(internal/counter.mappedHeader(") && strings.HasSuffix(d, ")#0))") {
				ok2 = okHdr
			} else {
				p := newProver().at(st)
				v := p.norm(st.Val)
				facts := p.factsLinAt(st)
				if okHdr {
					// summary of mappedHeader, proved above: the header it returns is at most a page long
					for _, cs := range callsIn(fn, "internal/counter.mappedHeader") {
						if cl, isCall := cs.(*ssa.Call); isCall {
							for _, u := range referrers(cl) {
								if e, isE := u.(*ssa.Extract); isE && e.Index == 0 {
									facts = append(facts, linConst(hdrLenBound).add(p.lenOf(e), -1))
								}
							}
						}
					}
				}
				ok2, _ = p.prove(linConst(hdrLenBound).add(v, -1), facts)
			}
			r.Check("C05.hdrlen-bounded", fname(fn)+"/hdrLen ≤ pageSize", m.Pos(st.Pos()), ok2, "value stored: "+shortDesc(d))
		}
	}
	r.Check("C05.hdrlen-bounded", "stores to hdrLen enumerated", "-", n >= 2, fmt.Sprintf("%d", n))
}

// c05Mutex: every mutex acquired on a host-facing path is released on every path to a return
// (a leaked lock makes the next caller wait for ever).
func c05Mutex(c *Ctx, m *Module, fns []*ssa.Function) {
	r := c.R
	n := 0
	for _, f := range fns {
		for _, cs := range callsIn(f, "(*sync.Mutex).Lock", "(*sync.RWMutex).Lock", "(*sync.RWMutex).RLock") {
			if _, isDefer := cs.(*ssa.Defer); isDefer {
				continue
			}
			n++
			mu := describeArg(cs, 0)
			unlockName := strings.Replace(strings.Replace(calleeName(cs.Common()), ".Lock", ".Unlock", 1), ".RLock", ".RUnlock", 1)
			isUnlock := func(in ssa.Instruction) bool {
				cc := callOf(in)
				return cc != nil && calleeName(cc) == unlockName && describe(cc.Args[0]) == mu
			}
			// a deferred unlock registered after the lock with no exit in between covers everything
			deferred := false
			for _, in := range instrsOf(f) {
				if d, ok := in.(*ssa.Defer); ok && isUnlock(d) && precedes(cs, d) {
					if reachesWithout(cs, isReturn, func(x ssa.Instruction) bool { return x == ssa.Instruction(d) }) == nil {
						deferred = true
					}
				}
			}
			ok := deferred
			where := ""
			if !deferred {
				w := reachesWithout(cs, func(in ssa.Instruction) bool {
					if isReturn(in) {
						return true
					}
					_, isPanic := in.(*ssa.Panic)
					return isPanic
				}, isUnlock)
				ok = w == nil
				if w != nil {
					where = m.Pos(w.Pos())
				}
			}
			r.Check("C05.mutex-pairing", fname(f)+"/"+strings.TrimPrefix(mu, "&"), m.Pos(cs.Pos()), ok,
				"a mutex locked here must be unlocked on every path to an exit (deferred right away, or explicitly on each path); exit reached with the lock held at "+where)
		}
	}
	r.Check("C05.mutex-pairing", "lock sites enumerated", "-", n >= 4, fmt.Sprintf("%d lock acquisitions on host-facing paths", n))
}

// c05ErrorsChecked: error results on the host-facing paths are consumed, or tabled as best effort.
var c05IgnoreTable = map[string]string{ // "function|callee" -> reason (one named site each)
	"(*internal/counter.mappedFile).close|var:internal/counter.munmap":  "unmapping a mapping that is being discarded; nothing to do on failure",
	"(*internal/counter.mappedFile).close|(*os.File).Close":             "best-effort close of the counter file's descriptor",
	"(*internal/upload.uploader).findWork|os.MkdirAll":                  "creates the upload directory opportunistically; a failure surfaces at the first write into it",
	"(*internal/upload.uploader).uploadReportContents|(*os.File).Close": "the lock file is only a name; its descriptor carries no data",
	"(*internal/upload.uploader).uploadReportContents|os.Remove":        "lock release / disposal of the local copy: a leftover is retried or ignored by the next run",
	"telemetry.acquireUploadToken|os.Remove":                            "a stale token that cannot be removed makes the exclusive create fail, which is handled",
	"telemetry.acquireUploadToken|(*os.File).Close":                     "the token file is only a name",
	"telemetry.child|os.Setenv":                                         "Setenv fails only for invalid keys; the key is a constant",
	"telemetry.child|(*golang.org/x/sync/errgroup.Group).Wait":          "sidecar process: both goroutines return nil",
	"telemetry.startChild|(*os.File).Close":                             "parent's copy of the sidecar log descriptor",
	"telemetry.startChild|(*os/exec.Cmd).Wait":                          "reaping the sidecar; its exit status does not concern the host",
	"internal/counter.debugFatalf|fmt.Fprintf":                          "debug output to stderr",
	"internal/counter.debugPrintf|fmt.Fprintf":                          "debug output to stderr",
	"internal/upload.Run|(*internal/upload.uploader).Close":             "closing the debug log file at the end of the run",
	"internal/mmap.munmapFile|golang.org/x/sys/windows.CloseHandle":     "(windows) releasing the mapping handle after the view was unmapped; the error of the unmap itself is the one returned",
	"internal/mmap.munmapFile|(*os.File).Close":                         "(windows) descriptor of a mapping being dropped: data is written through the view, nothing is buffered in the descriptor",
}

func c05ErrorsChecked(c *Ctx, m *Module, fns []*ssa.Function) {
	r := c.R
	n, dropped := 0, 0
	for _, f := range fns {
		for _, cs := range callsIn(f) {
			cl, ok := cs.(*ssa.Call)
			var errIdx = -1
			var t types.Type
			if ok {
				t = cl.Type()
			} else {
				// go/defer statements discard results by construction
				t = cs.Common().Signature().Results()
			}
			if tup, isT := t.(*types.Tuple); isT {
				if tup.Len() > 0 && isErrorType(tup.At(tup.Len()-1).Type()) {
					errIdx = tup.Len() - 1
				}
			} else if t != nil && isErrorType(t) {
				errIdx = 0
			}
			if errIdx < 0 {
				continue
			}
			n++
			used := false
			if ok {
				if _, isT := t.(*types.Tuple); isT {
					for _, u := range referrers(cl) {
						if e, isE := u.(*ssa.Extract); isE && e.Index == errIdx {
							for _, u2 := range referrers(e) {
								if _, dbg := u2.(*ssa.DebugRef); !dbg {
									used = true
								}
							}
						}
					}
				} else {
					for _, u := range referrers(cl) {
						if _, dbg := u.(*ssa.DebugRef); !dbg {
							used = true
						}
					}
				}
			}
			if used {
				continue
			}
			cn := calleeName(cs.Common())
			if c05NeverFails[cn] {
				continue // library contract: the error result is always nil
			}
			if cn == "(io.ReadCloser).Close" && strings.HasSuffix(describe(cs.Common().Value), ".Body") {
				continue // closing something that is only read (a response body): no data can be lost
			}
			if (cn == "io.Copy" || cn == "io.CopyN") && strings.Contains(describe(cs.Common().Args[0]), "global:io.Discard") {
				continue // draining a reader into io.Discard: nothing is kept, so nothing can be lost
			}
			dropped++
			reason, tabled := c05IgnoreTable[fname(f)+"|"+cn]
			if !tabled {
				reason, tabled = c05IgnoreTable[fnameTop(f)+"|"+cn]
			}
			r.Check("C05.errors-checked", fname(f)+"/error of "+cn+" dropped", m.Pos(cs.Pos()), tabled && reason != "",
				"an error reported by this call is discarded; on a host-facing path that is allowed only for the tabled best-effort operations: "+reason)
		}
	}
	r.Check("C05.errors-checked", "error-returning calls enumerated", "-", n >= 40, fmt.Sprintf("%d error-returning calls, %d with the error discarded", n, dropped))
}

// c05SharedPointers: a pointer read from a shared atomic.Pointer may be nil at any time (a failed
// rotation stores nil; a counter may not be attached yet): every dereference of such a value —
// a field access, a method call with it as pointer receiver — in the code reachable from the
// host's entry points lies under a test that it is not nil. A test made by a caller, or before a
// lock was taken, does not count: the value is loaded afresh.
// Pointers that are nil only before publication (one line of reason each).
var c05LinkInvariant = map[string]string{
	"Counter#next": "register sets c.next (CAS from nil) before it publishes c as the list head; every counter reachable from f.counters therefore has a non-nil next, and the list ends in the sentinel &f.end (nil means: not registered yet, tested in register only)",
}

func c05SharedPointers(c *Ctx, m *Module, fns []*ssa.Function) {
	r := c.R
	n := 0
	isLoad := func(cs ssa.CallInstruction) (*ssa.Call, string, bool) {
		cl, ok := cs.(*ssa.Call)
		if !ok {
			return nil, "", false
		}
		name := calleeName(&cl.Call)
		if !strings.HasPrefix(name, "(*sync/atomic.Pointer[") || !strings.HasSuffix(name, ").Load") && !strings.Contains(name, ").Load[") {
			return nil, "", false
		}
		fa, ok := cl.Call.Args[0].(*ssa.FieldAddr)
		if !ok {
			return nil, "", false
		}
		return cl, fmt.Sprintf("%s#%s", fa.X.Type().String(), refFieldName(fa.X.Type(), fa.Field)), true
	}
	// a local variable that is assigned once holds the value it was given: its loads are the value
	var aliasOf func(x ssa.Value) ssa.Value
	aliasOf = func(x ssa.Value) ssa.Value {
		x = strip(x)
		if ld, ok := x.(*ssa.UnOp); ok && ld.Op == token.MUL {
			if a, ok := ld.X.(*ssa.Alloc); ok {
				if sv := singleStore(a); sv != nil {
					return aliasOf(sv)
				}
			}
		}
		return x
	}
	isNilTest := func(v ssa.Value) func(fc Fact) bool {
		return func(fc Fact) bool {
			bo, isB := fc.Cond.(*ssa.BinOp)
			if !isB || (bo.Op != token.EQL && bo.Op != token.NEQ) {
				return false
			}
			other := bo.Y
			if aliasOf(bo.X) != aliasOf(v) {
				if aliasOf(bo.Y) != aliasOf(v) {
					return false
				}
				other = bo.X
			}
			k, isC := other.(*ssa.Const)
			return isC && k.IsNil() && fc.Pol == (bo.Op == token.NEQ)
		}
	}
	// the pointers the code itself believes can be nil: some load of the field is compared with nil
	// (the others — the links of the counter list, which ends in a sentinel — rest on an invariant)
	nilable := map[string]bool{}
	for _, f := range moduleFuncsOf(m.Prog) {
		for _, cs := range callsIn(f) {
			cl, key, ok := isLoad(cs)
			if !ok {
				continue
			}
			for _, u := range referrers(cl) {
				if bo, isB := u.(*ssa.BinOp); isB && (bo.Op == token.EQL || bo.Op == token.NEQ) {
					if k, isC := bo.Y.(*ssa.Const); isC && k.IsNil() {
						nilable[key] = true
					}
					if k, isC := bo.X.(*ssa.Const); isC && k.IsNil() {
						nilable[key] = true
					}
				}
			}
		}
	}
	for _, f := range fns {
		if f.Pkg == nil && f.Parent() == nil || !strings.HasPrefix(pkgPathOfFn(f), modPath) {
			continue
		}
		for _, cs := range callsIn(f) {
			cl, key, ok := isLoad(cs)
			if !ok || !nilable[key] || c05LinkInvariant[key[strings.LastIndex(key, ".")+1:]] != "" {
				continue
			}
			src := shortDesc(describe(cl.Call.Args[0]))
			seen := map[ssa.Value]bool{}
			var uses func(v ssa.Value)
			uses = func(v ssa.Value) {
				if seen[v] {
					return
				}
				seen[v] = true
				for _, u := range referrers(v) {
					deref := false
					switch x := u.(type) {
					case *ssa.Phi:
						// the value flows on only along edges on which it is not already known to be non-nil
						guardedEverywhere := true
						for i, e := range x.Edges {
							if e != v {
								continue
							}
							pred := x.Block().Preds[i]
							if !hasFact(factsAt(pred.Instrs[len(pred.Instrs)-1]), isNilTest(v)) {
								guardedEverywhere = false
							}
						}
						if !guardedEverywhere {
							uses(x)
						}
						continue
					case *ssa.Store:
						// kept in a local variable that is assigned once: its loads are the value
						if a, isA := x.Addr.(*ssa.Alloc); isA && x.Val == v && singleStore(a) == v {
							for _, u2 := range referrers(a) {
								if ld, isLd := u2.(*ssa.UnOp); isLd && ld.Op == token.MUL {
									uses(ld)
								}
							}
						}
						continue
					case *ssa.FieldAddr:
						deref = x.X == v
					case *ssa.UnOp:
						deref = x.Op == token.MUL && x.X == v
					case ssa.CallInstruction:
						cc := x.Common()
						if g := cc.StaticCallee(); g != nil && len(cc.Args) > 0 && cc.Args[0] == v && g.Signature.Recv() != nil && g.Blocks != nil && strings.HasPrefix(pkgPathOfFn(g), modPath) {
							deref = true
						}
					}
					if !deref {
						continue
					}
					n++
					ok := knownNonNil(v) || hasFact(factsAt(u), isNilTest(v))
					r.Check("C05.panics", fmt.Sprintf("%s/value loaded from %s is used only when not nil", fname(f), src), m.Pos(u.Pos()), ok,
						"a pointer read from a shared atomic.Pointer that the code elsewhere tests for nil (no file mapped, rotation failed) must be tested, in this function and after it was loaded, before it is used")
				}
			}
			uses(cl)
		}
	}
	r.Check("C05.panics", "uses of pointers loaded from shared atomic pointers enumerated", "-", n >= 1, fmt.Sprintf("%d", n))
}
