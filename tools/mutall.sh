#!/bin/bash
# Usage: mutall.sh <prop> : runs every mutant (must fire, exit 1) and every neutral
# variant (must stay silent, exit 0) of <prop>, 8-way parallel; prints a table.
PROP="$1"
HERE="$(cd "$(dirname "$0")/.." && pwd)"
run() { f="$1"; kind="$2"; out=$("$HERE/tools/mut.sh" "$PROP" "$f" 2>&1); rc=$?; rules=$(echo "$out" | grep -o "violated: [^ ]*" | sed 's/violated: //' | cut -d/ -f1 | sort -u | tr '\n' ' ');
  if [ "$kind" = M ]; then if [ $rc = 1 ]; then s=DETECTED; else s="MISSED(rc=$rc)"; fi; else if [ $rc = 0 ]; then s=SILENT; else s="FALSE-ALARM(rc=$rc)"; fi; fi
  echo "$kind $s $(basename "$f" .patch) [$rules]"; }
export -f run; export HERE PROP
{ ls "$HERE"/mutants/$PROP/*.patch 2>/dev/null | sed 's/$/ M/'; ls "$HERE"/neutral/$PROP/*.patch 2>/dev/null | sed 's/$/ N/'; ls -d "$HERE"/seeded/$PROP-*/patch.diff 2>/dev/null | sed 's/$/ M/'; } | xargs -P 8 -L 1 bash -c 'run "$0" "$1"' | sort
