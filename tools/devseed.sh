#!/bin/bash
# devseed.sh <seed-id|patch-file> [prop] [width] : apply a seeded change (or any patch) to a scratch copy of
# /repo and run ONE property check with the development binary ($VC, default /tmp/vc). Prints violations.
S=$1; VC=${VC:-/tmp/vc}
if [ -f "$S" ]; then PATCH=$(realpath $S); P=$2; else PATCH=/verif/seeded/$S/patch.diff; P=${2:-${S%-?}}; fi
export GOFLAGS=-mod=mod GOPROXY=off GOSUMDB=off GOTOOLCHAIN=local GOWORK=off CGO_ENABLED=0
. /verif/tools/gocache_env.sh
D=$(mktemp -d /tmp/devseed.XXXX); mkdir -p $D/repo
(cd /repo && git ls-files -z --cached | tar --null -T - -cf - ) | tar -xf - -C $D/repo
(cd $D/repo && patch -p1 -s --no-backup-if-mismatch < $PATCH) || echo "PATCH FAIL"
$VC -repo $D/repo -verif /verif -prop $P -evidence $D/ev.json 2>&1 | grep -E "violated:|INFRA|panic" | sed "s#$D/repo/##g" | cut -c1-${3:-220}
echo "$(basename $S)/$P rc=${PIPESTATUS[0]}"
rm -rf $D
