#!/bin/bash
# Usage: confirm_seed.sh <ID> <variant> <demo-dest-dir-relative-to-repo> <module-dir(. or godev)> <go test args...>
# Confirms a sub-agent's seeded change in its scratch worktree /tmp/wt/<ID>:
#   (iii) demo passes without the patch, (i) existing suites pass with the patch,
#   (ii) demo fails with the patch. On success copies it to /verif/seeded/<ID>-<variant>/.
set -u
ID="$1"; V="$2"; DEST="$3"; MOD="$4"; shift 4
WT=/tmp/wt/R8$ID; OUT=/tmp/wtout15/$ID/$V; case $V in a) SV=o;; b) SV=p;; esac
export GOFLAGS=-mod=mod GOPROXY=off GOSUMDB=off GOTOOLCHAIN=local; unset GOWORK; . /verif/tools/gocache_env.sh
reset() { git -C "$WT" checkout -q -- . ; git -C "$WT" clean -fdq; }
reset
copydemo() { for f in "$OUT"/demo/*; do case "$f" in *README*) ;; *) cp -r "$f" "$WT/$DEST/";; esac; done; }
copydemo
(cd "$WT/$MOD" && go test -vet=off -count=1 "$@") > /tmp/wtout15/$ID/$V.confirm_nopatch.txt 2>&1; r_nopatch=$?
reset
git -C "$WT" apply "$OUT/patch.diff" || { echo "patch does not apply"; exit 3; }
r_suite=0
for m in . config godev; do (cd "$WT/$m" && go build ./... && go test -vet=off -count=1 ./...) > /tmp/wtout15/$ID/$V.confirm_suite_$(echo $m|tr -d ./).txt 2>&1 || r_suite=1; done
copydemo
(cd "$WT/$MOD" && go test -vet=off -count=1 "$@") > /tmp/wtout15/$ID/$V.confirm_patch.txt 2>&1; r_patch=$?
reset
echo "$ID/$V: demo-without-patch exit=$r_nopatch (want 0), suite-with-patch exit=$r_suite (want 0), demo-with-patch exit=$r_patch (want !=0)"
if [ $r_nopatch = 0 ] && [ $r_suite = 0 ] && [ $r_patch != 0 ]; then
  D=/verif/seeded/$ID-$SV; rm -rf "$D"; mkdir -p "$D"
  cp "$OUT/patch.diff" "$D/patch.diff"; cp -r "$OUT/demo" "$D/demo"; [ -f "$OUT/notes.md" ] && cp "$OUT/notes.md" "$D/notes.md"
  tail -5 /tmp/wtout15/$ID/$V.confirm_patch.txt > "$D/demo_with_patch.tail.txt"
  echo "CONFIRMED -> $D"
else
  echo "NOT CONFIRMED"; tail -5 /tmp/wtout15/$ID/$V.confirm_nopatch.txt; tail -5 /tmp/wtout15/$ID/$V.confirm_patch.txt
fi
