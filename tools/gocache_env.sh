# sourced by the scratch-copy tools: analyses of scratch copies use a Go build cache of their own
# (every copy adds ~20 MB of entries for the packages that differ; in the shared cache that is never
# trimmed and filled the disk once). The private cache is emptied with `go clean -cache` when it passes 60 GB (never while a regression is running: start one with an empty cache).
export GOCACHE=/tmp/verif-gocache
mkdir -p /tmp/verif-gocache
if [ "$(du -sm /tmp/verif-gocache 2>/dev/null | cut -f1)" -gt 60000 ] 2>/dev/null; then go clean -cache; fi
