import re,os,json,subprocess
conf={}
for l in open('/verif/seeded/ROUND8_CONFIRM_CMDS.txt'):
    m=re.match(r'c (C\d\d) ([ab]) (\S+) (\S+) (-run \S+ \S+)',l)
    if m: conf[(m[1],m[2])]=(m[3],m[4],m[5])
first={}
for l in open('/verif/seeded/ROUND8_FIRST_SCAN.txt'):
    m=re.match(r'(C\d\d-[op])/C\d\d rc=(\d)',l.strip())
    if m: first[m[1]]=m[2]
for (p,ab),(dest,mod,run) in sorted(conf.items()):
    v={'a':'o','b':'p'}[ab]; sid=f'{p}-{v}'; d=f'seeded/{sid}'
    if not os.path.isdir(d): print('missing',sid); continue
    t=open(d+'/notes.md').read()
    lines=t.split('\n')
    title=re.sub(r'^#+\s*','',lines[0]); title=re.sub(r'^C\d\d\s*[/-]?\s*[ab]\s*[—:-]+\s*','',title).strip()
    # clause
    def section(pat):
        m=re.search(pat,t,re.I|re.S)
        if not m: return ''
        s=m.group(1).strip()
        s=re.split(r'\n\s*\n|\n##|\nObserved|\nNeeds to manifest|\nIdea:',s)[0]
        return ' '.join(s.split())
    clause=section(r'Clause broken[:\s]*\n?(.*)')
    needs=section(r'needs to manifest[:\s]*\n?(.*)') or section(r'What it needs[:\s]*\n?(.*)')
    breaks=title+('. Clause broken: '+clause if clause else '')
    meta={"seed":sid,"property":p,"breaks":breaks[:900],"needs_to_manifest":needs[:700] or "see notes.md",
     "demo_destination":dest,"demo_command":f"go test -vet=off -count=1 {run}" + (" (in godev/)" if mod=='godev' else ""),
     "confirmed_by":"tools/confirm_seed8.sh in a scratch worktree of /repo HEAD: (iii) demo passes without the patch; (i) go build + go test -vet=off -count=1 ./... green in ., config, godev with the patch; (ii) demo fails with the patch",
     "origin":"independent sub-agent given only the property text, the list of the fourteen earlier ideas and a scratch worktree; asked for (o) a declaration-level edit (no statement inside a function body changes: tags, field types, constants, initialisers, receivers, signatures, embedded data) and (p) a pair of cooperating edits at two sites, each harmless alone",
     "detected_by":None,
     "first_scan": {"1":"detected","0":"missed (rule added afterwards)","2":"check could not decide (exit 2; now reported as an undecided violation, exit 1)"}.get(first.get(sid,''),'?')}
    json.dump(meta,open(d+'/meta.json','w'),indent=1)
    print(sid,first.get(sid),'|',breaks[:110],'|',needs[:80])
