#!/bin/bash
# collect_repaired.sh <Cnn> : takes the repaired restructuring from /tmp/wt/N<Cnn> (a round-4 "g" seed whose
# one bug a sub-agent repaired while keeping the restructuring), confirms that the seed's demonstration now
# PASSES and both suites pass, stores it as neutral_pool3/<Cnn>/g-repaired.patch and scans it with all checks.
P="$1"; WT=/tmp/wt/N$P; HERE="$(cd "$(dirname "$0")/.." && pwd)"
export GOFLAGS=-mod=mod GOPROXY=off GOSUMDB=off GOTOOLCHAIN=local; unset GOWORK
git -C $WT add -u
git -C $WT diff --cached HEAD > /tmp/wtout7/$P.patch
[ -s /tmp/wtout7/$P.patch ] || { echo "$P: empty patch"; exit 3; }
cmd=$(python3 -c "import json;print(json.load(open('$HERE/seeded/$P-g/meta.json'))['demo_command'])")
(cd $WT && eval "$cmd") > /tmp/wtout7/$P.demo.txt 2>&1; r_demo=$?
r_suite=0
for m in . config godev; do (cd "$WT/$m" && go build ./... && go test -vet=off -count=1 ./...) > /tmp/wtout7/$P.suite_$(echo $m|tr -d ./).txt 2>&1 || r_suite=1; done
echo "$P: demo exit=$r_demo (want 0) suite exit=$r_suite (want 0)"
if [ $r_demo = 0 ] && [ $r_suite = 0 ]; then
  mkdir -p $HERE/neutral_pool3/$P; cp /tmp/wtout7/$P.patch $HERE/neutral_pool3/$P/g-repaired.patch
  [ -f /tmp/wtout7/$P.md ] && cp /tmp/wtout7/$P.md $HERE/neutral_pool3/$P/g-repaired.notes.md
  $HERE/tools/neutralscan.sh $HERE/neutral_pool3/$P/g-repaired.patch
else tail -5 /tmp/wtout7/$P.demo.txt; grep -h "^FAIL\|^---" /tmp/wtout7/$P.suite_*.txt | head; fi
