#!/usr/bin/env python3
"""Regenerates the seeded-change table in DESIGN.md §8.6 from /verif/seeded/*/meta.json."""
import json, os, re
rows = []
for d in sorted(os.listdir('/verif/seeded')):
    mp = f'/verif/seeded/{d}/meta.json'
    if not os.path.exists(mp):
        continue
    m = json.load(open(mp))
    det = m.get('detected_by') or {}
    rules = ', '.join(det.get('rules') or [])
    if m.get('status_after_fixes'):
        verdict = 'silent (neutralised by fix 93c04ed; root cause reported on the pre-fix tree)'
    elif det.get('check_exit') == 1:
        verdict = rules
    else:
        verdict = '**NOT DETECTED**'
    rnd = 'round 1' if d[-1] in 'ab' else ('round 2' if d[-1] in 'cd' else ('round 3' if d[-1] in 'ef' else ('round 4' if d[-1] in 'gh' else ('round 5' if d[-1] in 'ij' else ('round 6' if d[-1] in 'kl' else ('round 7' if d[-1] in 'mn' else 'round 8'))))))
    cell = lambda t: ' '.join(str(t).replace('|', '/').split())
    rows.append(f"| {d} | {rnd} | {cell(m['breaks'])} | {cell(m['needs_to_manifest'])} | {verdict} |")
tbl = "| seed | round | change | needs, to manifest | rules that fire |\n|------|-------|--------|--------------------|-----------------|\n" + "\n".join(rows)
s = open('/verif/DESIGN.md').read()
s = re.sub(r'<!-- SEEDTABLE:BEGIN -->.*<!-- SEEDTABLE:END -->', lambda _m: '<!-- SEEDTABLE:BEGIN -->\n' + tbl + '\n<!-- SEEDTABLE:END -->', s, flags=re.S)
open('/verif/DESIGN.md', 'w').write(s)
print(len(rows), "seeds tabulated")
