#!/bin/bash
# collect_pool7.sh <Cnn> <x> : takes /tmp/wtout13/<Cnn>/<x>.patch, applies it to a scratch copy of /repo,
# runs the three suites (must be green), stores it as neutral_pool7/<Cnn>/<x>.patch.
P=$1; X=$2; HERE="$(cd "$(dirname "$0")/.." && pwd)"; SRC=/tmp/wtout13/$P/$X.patch
[ -s "$SRC" ] || { echo "$P/$X: no patch"; exit 3; }
export GOFLAGS=-mod=mod GOPROXY=off GOSUMDB=off GOTOOLCHAIN=local; unset GOWORK
D=$(mktemp -d /tmp/pool4.XXXX); trap 'rm -rf $D' EXIT; mkdir -p $D/repo
(cd /repo && git ls-files -z --cached | tar --null -T - -cf - ) | tar -xf - -C $D/repo
(cd $D/repo && patch -p1 -s --no-backup-if-mismatch < $SRC) || { echo "$P/$X: does not apply"; exit 3; }
ok=1
for m in . config godev; do (cd $D/repo/$m && go build ./... && go test -vet=off -count=1 ./...) > $D/suite_$(echo $m|tr -d ./).txt 2>&1 || { sleep 1; (cd $D/repo/$m && go test -vet=off -count=1 ./...) > $D/suite2.txt 2>&1 || { ok=0; grep -h "^--- FAIL\|^FAIL" $D/suite*.txt | head -3; }; }; done
if [ $ok = 1 ]; then mkdir -p $HERE/neutral_pool7/$P; cp $SRC $HERE/neutral_pool7/$P/$X.patch; [ -f /tmp/wtout13/$P/NOTES.md ] && cp /tmp/wtout13/$P/NOTES.md $HERE/neutral_pool7/$P/NOTES.md; echo "$P/$X: suites green, stored"; else echo "$P/$X: SUITE FAILS"; fi
