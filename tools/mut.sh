#!/bin/bash
# Usage: mut.sh <prop> <patch-file> [tier]
# Copies /repo's working tree to a scratch dir, applies the patch, runs the
# checker for <prop> against the copy (static: nothing is executed), prints the
# verdict and removes the copy. Exit status = checker's exit status.
set -u
PROP="$1"; PATCH="$(realpath "$2")"; TIER="${3:-quick}"
HERE="$(cd "$(dirname "$0")/.." && pwd)"
SCR="$(mktemp -d /tmp/verifmut.XXXXXX)"
trap 'rm -rf "$SCR"' EXIT
mkdir -p "$SCR/repo"
(cd /repo && git ls-files -z --cached --others --exclude-standard | tar --null -T - -cf - 2>/dev/null) | tar -xf - -C "$SCR/repo"
if ! (cd "$SCR/repo" && patch -p1 -s --no-backup-if-mismatch < "$PATCH" >/dev/null 2>&1); then
  echo "PATCH-DOES-NOT-APPLY $PATCH"; exit 3
fi
mkdir -p "$SCR/ev"
export GOFLAGS=-mod=mod GOPROXY=off GOSUMDB=off GOTOOLCHAIN=local GOWORK=off CGO_ENABLED=0
. /verif/tools/gocache_env.sh
"$HERE/bin/verifcheck" -repo "$SCR/repo" -verif "$HERE" -prop "$PROP" -tier "$TIER" -evidence "$SCR/ev/$PROP.json" 2>&1 | grep -E "violated:|INFRA|KNOWN-FINDING| obligations over |normalisation|panic" | sed "s#$SCR/repo/##g"
exit ${PIPESTATUS[0]}
