#!/bin/bash
# crossscan.sh <seed-id> : which properties' checks fire on a seed (dev binary)
S=$1; VC=${VC:-/tmp/vc}
export GOFLAGS=-mod=mod GOPROXY=off GOSUMDB=off GOTOOLCHAIN=local GOWORK=off CGO_ENABLED=0
. /verif/tools/gocache_env.sh
D=$(mktemp -d /tmp/devseed.XXXX); mkdir -p $D/repo
(cd /repo && git ls-files -z --cached | tar --null -T - -cf - ) | tar -xf - -C $D/repo
(cd $D/repo && patch -p1 -s --no-backup-if-mismatch < /verif/seeded/$S/patch.diff) || echo "PATCH FAIL"
out=""
for p in $($VC -list); do
  o=$($VC -repo $D/repo -verif /verif -prop $p -evidence $D/ev.json 2>&1); rc=$?
  if [ $rc != 0 ]; then out="$out $p($(echo "$o" | grep -o 'violated: [^ ]*' | sed 's/violated: //' | cut -d/ -f1 | sort -u | tr '\n' ','))"; fi
done
echo "$S:${out:- none}"
rm -rf $D
