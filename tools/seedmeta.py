#!/usr/bin/env python3
"""seedmeta.py <ID-V> <demo dest dir> <test cmd> <what it breaks> <what it needs to manifest>"""
import json, sys, os
sid, dest, cmd, what, needs = sys.argv[1:6]
d = "/verif/seeded/" + sid
meta = {
 "seed": sid, "property": sid.split("-")[0],
 "breaks": what, "needs_to_manifest": needs,
 "demo_destination": dest, "demo_command": cmd,
 "confirmed_by": "tools/confirm_seed.sh in a scratch worktree of /repo HEAD: (iii) demo passes without the patch; (i) go build + go test -vet=off -count=1 ./... green in ., config, godev with the patch; (ii) demo fails with the patch",
 "origin": "independent sub-agent given only the property text and a scratch worktree",
 "detected_by": None,
}
old = os.path.join(d, "meta.json")
if os.path.exists(old):
    meta["detected_by"] = json.load(open(old)).get("detected_by")
json.dump(meta, open(old, "w"), indent=1)
