#!/usr/bin/env python3
"""Regenerates /verif/MANIFEST.json from the table below and `verifcheck -list`."""
import json, subprocess, os, sys
HERE = os.path.dirname(os.path.dirname(os.path.abspath(__file__)))
impl = subprocess.run([os.path.join(HERE, "bin/verifcheck"), "-list"], capture_output=True, text=True).stdout.split()
props = [json.loads(l) for l in open(os.path.join(HERE, "properties.jsonl"))]
table = json.load(open(os.path.join(HERE, "tools/manifest_table.json")))
checks, na = [], []
for p in props:
    pid = p["id"]
    t = table.get(pid, {})
    if pid in impl and not t.get("na"):
        checks.append({
            "property_id": pid,
            "quick_cmd": "/verif/run.sh %s quick" % pid,
            "thorough_cmd": "/verif/run.sh %s thorough" % pid,
            "evidence_file": "/verif/evidence/%s.json" % pid,
            "replay_cmd_template": "cat {path}; /verif/run.sh %s quick" % pid,
            "engine": "verifcheck",
            "level_claimed": {"category": "other", "text": t["text"], "design_ref": "DESIGN.md §4 " + pid},
            "level_note": t["note"],
            "technique": t["technique"],
        })
    else:
        na.append({"property_id": pid, "reason": t.get("na") or "no rule of this property is built yet in this round; until one is, no static verdict is offered for it (see DESIGN.md §4 for the planned structural clauses)"})
m = {
    "version": 1,
    "setup_cmd": "cd /verif/checker && GOFLAGS=-mod=mod GOPROXY=off GOSUMDB=off GOWORK=off GOTOOLCHAIN=local CGO_ENABLED=0 go build -o /verif/bin/verifcheck .",
    "hooks": {"guard": "verif", "enable": "none needed: static analysis reads /repo's sources; no instrumentation is compiled in", "baseline_off_cmd": "for m in . config godev; do (cd /repo/$m && GOFLAGS=-mod=mod go test -vet=off -count=1 ./...); done", "source_commits": [], "add_only": True},
    "engines": [{"name": "verifcheck", "path": "/verif/checker", "serves_properties": [c["property_id"] for c in checks],
                 "kind_free_text": "repository-specific static analyser (go/packages + go/types + go/ssa + VTA call graph, x/tools v0.29.0): guard facts by edge dominance, access-path terms, must-pass-through on CFGs, who-may-call / effect reachability, writer-reader table agreement, bounds and loop-progress obligations; new helper functions and struct types are expanded at source level before analysis (E14), renamed declarations are mapped back to reference names, and inventories of effects, cross-package calls, package-level state and field writes report code the rules have not looked at. Loads /repo's working tree on every run; executes nothing from it."}],
    "checks": checks,
    "not_applicable": na,
    "notes": "All claims are level 'other': structural necessary conditions decided exhaustively over the code's paths by static analysis; the behavioural core that quantifies over schedules, crash points or numeric values is explicitly not claimed (DESIGN.md §6). Known findings: /verif/KNOWN_FINDINGS.jsonl. A rule that cannot resolve what it needs on a changed tree is a violated obligation Cnn.undecided (exit 1); exit 2 = the tree could not be loaded (no verdict). The thorough tier re-runs the quick rules on every build configuration and tests the checker both ways on the committed corpora (mutants, 266 independently seeded changes, 7 pools of behaviour-preserving or property-preserving patches; DESIGN.md §8).",
}
json.dump(m, open(os.path.join(HERE, "MANIFEST.json"), "w"), indent=1)
print("claimed:", [c["property_id"] for c in checks], "n/a:", len(na))
