#!/bin/bash
# neutralscan.sh <patch> : apply a behaviour-preserving patch to a scratch copy of /repo and run
# ALL property checks against it; prints the properties that raise an alarm (should be none).
PATCH="$(realpath "$1")"
HERE="$(cd "$(dirname "$0")/.." && pwd)"
SCR="$(mktemp -d /tmp/verifneu.XXXXXX)"; trap 'rm -rf "$SCR"' EXIT
mkdir -p "$SCR/repo" "$SCR/ev"
(cd /repo && git ls-files -z --cached --others --exclude-standard | tar --null -T - -cf - 2>/dev/null) | tar -xf - -C "$SCR/repo"
(cd "$SCR/repo" && patch -p1 -s --no-backup-if-mismatch < "$PATCH" >/dev/null 2>&1) || { echo "$(basename $(dirname $PATCH))/$(basename $PATCH): PATCH-DOES-NOT-APPLY"; exit 3; }
export GOFLAGS=-mod=mod GOPROXY=off GOSUMDB=off GOTOOLCHAIN=local GOWORK=off CGO_ENABLED=0
. /verif/tools/gocache_env.sh
bad=""
for p in $("$HERE/bin/verifcheck" -list); do
  out=$("$HERE/bin/verifcheck" -repo "$SCR/repo" -verif "$HERE" -prop $p -evidence "$SCR/ev/$p.json" 2>&1); rc=$?
  if [ $rc != 0 ]; then bad="$bad $p(rc=$rc:$(echo "$out" | grep -o 'violated: [^ ]*' | sed 's/violated: //' | cut -d/ -f1-3 | sort -u | head -3 | tr '\n' ','))"; fi
done
echo "$(basename $(dirname $(dirname $PATCH)))/$(basename $(dirname $PATCH))/$(basename $PATCH):${bad:- all silent}"
