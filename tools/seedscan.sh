#!/bin/bash
# seedscan.sh : run every seeded change against the check of its property; record detected_by in meta.json
HERE="$(cd "$(dirname "$0")/.." && pwd)"
scan() { d="$1"; id=$(basename "$d"); prop=${id%%-*}; out=$("$HERE/tools/mut.sh" "$prop" "$d/patch.diff" 2>&1); rc=$?; rules=$(echo "$out" | grep -o "violated: [^ ]*" | sed 's/violated: //' | cut -d/ -f1 | sort -u | tr '\n' ' ');
  python3 - "$d/meta.json" "$rc" "$rules" <<'PY'
import json,sys
p,rc,rules=sys.argv[1],int(sys.argv[2]),sys.argv[3].split()
m=json.load(open(p))
m['detected_by']={'check_exit':rc,'rules':rules} if rc==1 else {'check_exit':rc,'rules':[],'note':m.get('status_after_fixes','NOT DETECTED')}
json.dump(m,open(p,'w'),indent=1)
PY
  echo "$id rc=$rc [$rules]"; }
export -f scan; export HERE
ls -d "$HERE"/seeded/*/ | sed 's#/$##' | xargs -P 8 -I{} bash -c 'scan {}' | sort
