#!/bin/bash
# pairedcheck.sh : the paired test of DESIGN §8.12/§8.16. For every repaired restructuring
# (neutral_pool3/Cnn/g-repaired.patch, neutral_pool5/Cnn/{e,f}-repaired.patch) whose own property is NOT
# listed as a limit: the seed it came from must make the check of its property fire, the repair must
# leave it silent. Prints one line per pair; exit 1 if a pair fails.
HERE="$(cd "$(dirname "$0")/.." && pwd)"; cd "$HERE"
bad=0
for f in neutral_pool3/C*/g-repaired.patch neutral_pool5/C*/[ef]-repaired.patch; do
  P=$(basename $(dirname $f)); v=$(basename $f | cut -c1); seed=seeded/$P-$v/patch.diff
  lim=$(dirname $f)/limit.json; [ -f $(dirname $f)/limit-$v.json ] && lim=$(dirname $f)/limit-$v.json
  case $f in neutral_pool5/*) [ -f $(dirname $f)/limit-$v.json ] || lim=/nonexistent;; esac
  if [ -f $lim ] && python3 -c "import json,sys; sys.exit(0 if '$P' in json.load(open('$lim'))['alarms_under'] else 1)"; then echo "$P-$v: limit (repair not decided under $P)"; continue; fi
  if grep -q "^$P-$v " seeded/KNOWN_UNDETECTED; then echo "$P-$v: seed is a known undetected one ($(grep "^$P-$v " seeded/KNOWN_UNDETECTED | cut -d" " -f2-))"; continue; fi
  tools/mut.sh $P $seed >/dev/null 2>&1; rs=$?
  tools/mut.sh $P $f >/dev/null 2>&1; rr=$?
  st=ok; { [ $rs != 1 ] || [ $rr != 0 ]; } && { st=FAIL; bad=1; }
  echo "$P-$v: seed exit=$rs (want 1) repair exit=$rr (want 0) $st"
done
exit $bad
