#!/bin/bash
# nre.sh <scanfile> [pooldir] : re-run only the (patch, property) pairs that alarmed in a previous neutralscan output
grep -v "all silent" "$1" | while read -r line; do
  patch=$(echo "$line" | cut -d: -f1)
  for p in $(echo "$line" | grep -o 'C[0-9][0-9](rc' | cut -c1-3); do
    out=$(/verif/tools/mut.sh $p ${2:-/tmp/neutral1}/$patch 2>&1); rc=$?
    if [ $rc != 0 ]; then echo "$patch $p: $(echo "$out" | grep -o 'violated: [^ ]*\|INFRA.*' | cut -d/ -f1-3 | sort -u | head -4 | tr '\n' ' ')"; fi
  done
done
