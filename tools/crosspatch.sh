#!/bin/bash
# crosspatch.sh <patch> : which properties' checks fire on a patch (dev binary)
S=$(realpath $1); VC=${VC:-/tmp/vc}
export GOFLAGS=-mod=mod GOPROXY=off GOSUMDB=off GOTOOLCHAIN=local GOWORK=off CGO_ENABLED=0
. /verif/tools/gocache_env.sh
D=$(mktemp -d /tmp/devseed.XXXX); mkdir -p $D/repo
(cd /repo && git ls-files -z --cached | tar --null -T - -cf - ) | tar -xf - -C $D/repo
(cd $D/repo && patch -p1 -s --no-backup-if-mismatch < $S) || echo "PATCH FAIL"
out=""
for p in $($VC -list); do
  o=$($VC -repo $D/repo -verif /verif -prop $p -evidence $D/ev.json 2>&1); rc=$?
  if [ $rc != 0 ]; then out="$out $p($(echo "$o" | grep -o 'violated: [^ ]*' | sed 's/violated: //' | cut -d/ -f1-3 | sort -u | head -4 | tr '\n' ','))"; fi
done
echo "$S:${out:- none}"
rm -rf $D
