#!/usr/bin/env python3
"""mkmut.py <M|N> <prop> <name> <file> <old> <new> [<file2> <old2> <new2> ...]
Creates /verif/mutants/<prop>/<name>.patch (M: must make a rule fire) or
/verif/neutral/<prop>/<name>.patch (N: behaviour-preserving, must stay silent)
as a unified diff against /repo's working tree. Literal (not regex) replacement,
which must match exactly once. Type-checks the result with `go build`."""
import sys, os, subprocess, tempfile, shutil
kind, prop, name = sys.argv[1:4]
edits = sys.argv[4:]
assert len(edits) % 3 == 0
d = tempfile.mkdtemp(prefix="mkmut.")
try:
    a, b = os.path.join(d, "a"), os.path.join(d, "b")
    files = sorted({edits[i] for i in range(0, len(edits), 3)})
    for f in files:
        for side in (a, b):
            os.makedirs(os.path.dirname(os.path.join(side, f)), exist_ok=True)
            shutil.copy(os.path.join("/repo", f), os.path.join(side, f))
    for i in range(0, len(edits), 3):
        f, old, new = edits[i:i+3]
        old = old.encode().decode("unicode_escape"); new = new.encode().decode("unicode_escape")
        p = os.path.join(b, f)
        s = open(p).read()
        assert s.count(old) == 1, (f, old, s.count(old))
        open(p, "w").write(s.replace(old, new))
    out = subprocess.run(["diff", "-ruN", "a", "b"], cwd=d, capture_output=True, text=True).stdout
    dest = os.path.join("/verif", "mutants" if kind == "M" else "neutral", prop)
    os.makedirs(dest, exist_ok=True)
    # compile check in a scratch copy
    scr = os.path.join(d, "repo")
    subprocess.check_call("mkdir -p %s && cd /repo && git ls-files -z | tar --null -T - -cf - | tar -xf - -C %s" % (scr, scr), shell=True)
    subprocess.run(["patch", "-p1", "-s"], cwd=scr, input=out, text=True, check=True)
    env = dict(os.environ, GOFLAGS="-mod=mod", GOPROXY="off", GOSUMDB="off", GOTOOLCHAIN="local", GOWORK="off")
    for f in files:
        mod = "godev" if f.startswith("godev/") else "."
        pkg = "./" + os.path.dirname(f[len("godev/"):] if mod == "godev" else f)
        r = subprocess.run(["go", "build", pkg], cwd=os.path.join(scr, mod), env=env, capture_output=True, text=True)
        if r.returncode != 0:
            sys.exit("DOES NOT COMPILE: " + r.stderr[:800])
    open(os.path.join(dest, name + ".patch"), "w").write(out)
    print("wrote", os.path.join(dest, name + ".patch"))
finally:
    shutil.rmtree(d)
