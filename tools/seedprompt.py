#!/usr/bin/env python3
"""seedprompt.py <worktree-prefix> <outdir> <guidance-file> : writes <outdir>/<Cnn>/PROMPT.txt for every
property: the brief handed to an independent bug-seeding sub-agent. The brief contains ONLY the property's
text, the workspace rules, the ideas earlier seeders already used for that property (from seeded/*/meta.json)
and the round's extra guidance -- nothing about the checker."""
import json, sys, os, glob
wt, out, gfile = sys.argv[1:4]
guid = open(gfile).read().strip()
tmpl = open(os.path.join(os.path.dirname(__file__), 'seedprompt.tmpl')).read()
for l in open('/verif/properties.jsonl'):
    d = json.loads(l); P = d['id']
    tried = []
    for m in sorted(glob.glob(f'/verif/seeded/{P}-*/meta.json')):
        tried.append('- ' + json.load(open(m))['breaks'])
    txt = tmpl.replace('@P@', P).replace('@TITLE@', d['title']).replace('@STATEMENT@', d['statement']) \
              .replace('@QUANT@', d['quantifier']['text'] if isinstance(d['quantifier'], dict) else d['quantifier']).replace('@WT@', wt + P).replace('@OUT@', f'{out}/{P}') \
              .replace('@TRIED@', '\n'.join(tried)).replace('@GUIDANCE@', guid)
    os.makedirs(f'{out}/{P}', exist_ok=True)
    open(f'{out}/{P}/PROMPT.txt', 'w').write(txt)
print('prompts written to', out)
