#!/bin/bash
# renamescan.sh : rename EVERY parameter, receiver, named result and local variable of /repo's
# non-test sources (suffix _r) in a scratch copy and run all 19 checks on it: none may fire.
HERE="$(cd "$(dirname "$0")/.." && pwd)"
SCR="$(mktemp -d /tmp/verifren.XXXXXX)"; trap 'rm -rf "$SCR"' EXIT
mkdir -p "$SCR/repo" "$SCR/ev"
(cd /repo && git ls-files -z --cached --others --exclude-standard | tar --null -T - -cf - 2>/dev/null) | tar -xf - -C "$SCR/repo"
export GOFLAGS=-mod=mod GOPROXY=off GOSUMDB=off GOTOOLCHAIN=local GOWORK=off CGO_ENABLED=0
. /verif/tools/gocache_env.sh
[ -x "$HERE/bin/renamelocals" ] || (cd "$HERE/checker" && go build -o "$HERE/bin/renamelocals" ./cmd_renamelocals) || exit 2
"$HERE/bin/renamelocals" "$SCR/repo" && "$HERE/bin/renamelocals" "$SCR/repo/godev" || exit 2
for m in . godev; do (cd "$SCR/repo/$m" && go build ./...) || { echo "renamed tree does not build"; exit 2; }; done
bad=0
for p in $("$HERE/bin/verifcheck" -list); do
  out=$("$HERE/bin/verifcheck" -repo "$SCR/repo" -verif "$HERE" -prop $p -evidence "$SCR/ev/$p.json" 2>&1); rc=$?
  if [ $rc != 0 ]; then bad=1; echo "$p rc=$rc $(echo "$out" | grep -o 'violated: [^ ]*' | cut -d/ -f1-3 | sort -u | head -3 | tr '\n' ' ')"; fi
done
[ $bad = 0 ] && echo "rename-all-locals: all 19 checks silent"
exit $bad
