#!/usr/bin/env python3
import json, sys, glob
try:
    import jsonschema
except ImportError:
    sys.exit("run with python3-vt (jsonschema lives in the tooling venv)")
m = json.load(open('/verif/MANIFEST.json'))
jsonschema.validate(m, json.load(open('/root/.vp/MANIFEST.schema.json')))
es = json.load(open('/root/.vp/EVIDENCE.schema.json'))
for c in m['checks']:
    try:
        jsonschema.validate(json.load(open(c['evidence_file'])), es)
    except Exception as e:
        print("EVIDENCE INVALID", c['property_id'], str(e)[:300]); continue
ids = {c['property_id'] for c in m['checks']} | {n['property_id'] for n in m.get('not_applicable', [])}
allp = {json.loads(l)['id'] for l in open('/verif/properties.jsonl')}
assert ids == allp, (allp - ids, ids - allp)
print("manifest + evidence valid; claimed", len(m['checks']), "n/a", len(m.get('not_applicable', [])))
