#!/bin/bash
# ssaf.sh <module-dir> <pkg> <func-prefix> : print one function's SSA (bounded)
cd "$1" && GOFLAGS=-mod=mod GOPROXY=off GOSUMDB=off GOTOOLCHAIN=local GOWORK=off ssadump -build=F "$2" 2>/dev/null | awk -v pat="^func $3" '$0 ~ pat {p=1} p && /^# Name:/ {exit} p {print}' | grep -v "Printf\|new \[\|make any\|slice t[0-9]*\[:\]\|&t[0-9]*\[[0-9]:int\]\|^\t\*t[0-9]* = t[0-9]*$" | cut -c1-150 | head -${4:-120}
