#!/bin/bash
# collect_repaired.sh <Cnn> : takes the repaired restructuring from /tmp/wt/N<Cnn> (a round-4 "g" seed whose
# one bug a sub-agent repaired while keeping the restructuring), confirms that the seed's demonstration now
# PASSES and both suites pass, stores it as neutral_pool3/<Cnn>/$V-repaired.patch and scans it with all checks.
P="$1"; V="$2"; WT=/tmp/wt/M$P$V; grep -qx "REVERT" /tmp/wtout10/$P-$V.md 2>/dev/null && { echo "$P-$V: REVERT (not a refactoring)"; exit 0; }; HERE="$(cd "$(dirname "$0")/.." && pwd)"
export GOFLAGS=-mod=mod GOPROXY=off GOSUMDB=off GOTOOLCHAIN=local; unset GOWORK; . /verif/tools/gocache_env.sh
git -C $WT add -u
git -C $WT diff --cached HEAD > /tmp/wtout10/$P-$V.patch
[ -s /tmp/wtout10/$P-$V.patch ] || { echo "$P: empty patch"; exit 3; }
cmd=$(python3 -c "import json;print(json.load(open('$HERE/seeded/$P-$V/meta.json'))['demo_command'])")
(cd $WT && eval "$cmd") > /tmp/wtout10/$P-$V.demo.txt 2>&1; r_demo=$?
r_suite=0
for m in . config godev; do (cd "$WT/$m" && go build ./... && go test -vet=off -count=1 ./...) > /tmp/wtout10/$P-$V.suite_$(echo $m|tr -d ./).txt 2>&1 || r_suite=1; done
echo "$P: demo exit=$r_demo (want 0) suite exit=$r_suite (want 0)"
if [ $r_demo = 0 ] && [ $r_suite = 0 ]; then
  mkdir -p $HERE/neutral_pool5/$P; cp /tmp/wtout10/$P-$V.patch $HERE/neutral_pool5/$P/$V-repaired.patch
  [ -f /tmp/wtout10/$P-$V.md ] && cp /tmp/wtout10/$P-$V.md $HERE/neutral_pool5/$P/$V-repaired.notes.md
  $HERE/tools/neutralscan.sh $HERE/neutral_pool5/$P/$V-repaired.patch
else tail -5 /tmp/wtout10/$P-$V.demo.txt; grep -h "^FAIL\|^---" /tmp/wtout10/$P-$V.suite_*.txt | head; fi
