#!/bin/bash
# Usage: run.sh <property-id> <quick|thorough>
# Decides one property by static analysis of /repo's current working tree.
# Nothing from /repo is executed. Exit 0 held / 1 violation / 2 infrastructure.
set -u
PROP="${1:?property id}"
TIER="${2:-quick}"
HERE="$(cd "$(dirname "$0")" && pwd)"
REPO="${VERIF_REPO:-/repo}"
export GOFLAGS=-mod=mod GOPROXY=off GOSUMDB=off GOTOOLCHAIN=local GOWORK=off CGO_ENABLED=0
unset GOOS GOARCH
BIN="$HERE/bin/verifcheck"
need_build=0
if [ ! -x "$BIN" ]; then need_build=1; else
  for f in "$HERE"/checker/*.go "$HERE"/checker/*.txt "$HERE"/checker/go.mod; do
    if [ "$f" -nt "$BIN" ]; then need_build=1; break; fi
  done
fi
if [ "$need_build" = 1 ]; then
  mkdir -p "$HERE/bin"
  (cd "$HERE/checker" && go build -o "$BIN" .) || { echo "INFRA: cannot build verifcheck" >&2; exit 2; }
fi
mkdir -p "$HERE/evidence"
exec "$BIN" -repo "$REPO" -verif "$HERE" -prop "$PROP" -tier "$TIER" -evidence "$HERE/evidence/$PROP.json"
